"""B2 sweeps for C05 / C06 (and C04's stream bound): for every connection kind and scenario shape, inject every
documented fault at every network operation and cancel the caller at every suspension point (scope-style on
asyncio+trio, one-shot native on asyncio), then judge the pool and the stream ledger with direct oracles."""
from __future__ import annotations

import servers
import simnet

KINDS = ["direct-h1", "direct-tls-h1", "direct-h2", "forward", "tunnel-h1", "tunnel-h2", "socks5", "socks5-auth-tls"]


def build_world(kind, runtime_async=True, max_connections=1, yield_in_ops=True, retries=0):
    """-> dict(pool, net, url(origin_idx), peers)"""
    import httpcore
    import scen
    peers = []
    h2 = kind in ("direct-h2", "tunnel-h2")

    def origin_peer(_=None):
        if h2:
            p = simnet.H2Peer(handler=scen.h2_handler_factory([]))
            p.reqs = {}
        else:
            p = servers.H1Server()
        peers.append(p)
        return p

    def factory(rec):
        if kind in ("forward", "tunnel-h1", "tunnel-h2", "tunnel-ws"):
            p = servers.ProxyServer(inner_factory=origin_peer)
            peers.append(p)
            return p
        if kind.startswith("socks5"):
            p = servers.SocksServer(inner_factory=origin_peer)
            peers.append(p)
            return p
        return origin_peer()

    net = simnet.Net(CallerFaults(peer_factory=factory))
    net.yield_in_ops = yield_in_ops
    kw = dict(max_connections=max_connections, http2=h2, retries=retries, ssl_context=simnet.RecordingSSLContext("origin"))
    if kind in ("forward", "tunnel-h1", "tunnel-h2", "tunnel-ws"):
        kw["proxy"] = httpcore.Proxy("http://proxy.example:3128", headers={"X-Proxy": "1"})
    elif kind == "socks5":
        kw["proxy"] = httpcore.Proxy("socks5://socks.example:1080")
    elif kind == "socks5-auth-tls":
        kw["proxy"] = httpcore.Proxy("socks5://socks.example:1080", auth=("user", "pw"))
    scheme = "https" if kind in ("direct-tls-h1", "direct-h2", "tunnel-h1", "tunnel-h2", "socks5-auth-tls") else "http"
    if kind == "tunnel-ws":
        scheme = "ws"        # tunnelled with CONNECT like https, but without TLS: the exchange reads through the hand-over stream
    if runtime_async:
        pool = httpcore.AsyncConnectionPool(network_backend=simnet.AsyncSimBackend(net), **kw)
    else:
        pool = httpcore.ConnectionPool(network_backend=simnet.SimBackend(net), **kw)
    return {"pool": pool, "net": net, "peers": peers, "url": lambda i, tok: f"{scheme}://o{i}.example/{tok}", "kind": kind}


class Unwind:
    """Profile hook that remembers which frames were unwound by the last suspension (innermost first)."""

    def __init__(self):
        self.run = []

    def __call__(self, frame, event, arg):
        if event == "call":
            self.run = []
        elif event == "return":
            self.run.append(frame.f_code)

    def label(self):
        names = []
        prim = None
        for code in self.run:
            fn = code.co_filename.replace("\\", "/")
            if "/httpcore/" in fn:
                mod = fn.rsplit("/", 1)[1][:-3]
                names.append(mod + "." + getattr(code, "co_qualname", code.co_name))
            elif not names and prim is None and "/harness/" not in fn:
                prim = code.co_name
        if not names:
            return "outside-httpcore"
        return "<-".join(names[:2])


class Stepper:
    """Drives a coroutine, counting its suspensions; at the k-th one calls `hook(k, label)` (from inside the task)."""

    def __init__(self, coro, hook):
        self.coro, self.hook = coro, hook
        self.count = 0
        self.labels = []

    def __await__(self):
        import sys
        coro = self.coro
        send_val, exc = None, None
        uw = Unwind()
        seen = {}
        while True:
            old = sys.getprofile()
            sys.setprofile(uw)
            try:
                if exc is not None:
                    e, exc = exc, None
                    y = coro.throw(e)
                else:
                    y = coro.send(send_val)
            except StopIteration as stop:
                return stop.value
            finally:
                sys.setprofile(old)
            self.count += 1
            label = uw.label()
            seen[label] = seen.get(label, 0) + 1
            label = f"{label}#{seen[label]}"
            self.labels.append(label)
            self.hook(self.count, label)
            try:
                send_val = yield y
            except BaseException as e:  # noqa: cancellation or any exception thrown into the task
                exc = e


import contextvars

CURRENT_CALLER = contextvars.ContextVar("current_caller", default="-")


class CallerFaults(simnet.Behavior):
    """Behaviour whose faults are indexed by the operations of caller "A" only (after its warm-up request)."""

    def __init__(self, peer_factory):
        super().__init__(peer_factory=peer_factory)
        self.a_ops = 0
        self.armed = False
        self.a_fault = None      # (index among A's operations, exception)

    def _fault(self, rec):
        who = CURRENT_CALLER.get()
        rec["caller"] = who
        if who == "A" and self.armed and rec["op"] in simnet.NET_OPS:
            k = self.a_ops
            self.a_ops += 1
            rec["ka"] = k
            if self.a_fault is not None and self.a_fault[0] == k:
                exc = self.a_fault[1]
                if exc == "EOF":
                    if rec["op"] == "read":
                        rec["fault"] = "EOF"
                        raise ServerHungUp()
                    return
                rec["fault"] = type(exc).__name__
                raise exc

    def read(self, net, sock, rec):
        if sock.id in getattr(self, "hung_up", ()):
            return b""
        try:
            return super().read(net, sock, rec)
        except ServerHungUp:
            self.hung_up = getattr(self, "hung_up", set()) | {sock.id}
            return b""          # the peer closed the connection: this read, and every later one, sees end of stream


class ServerHungUp(Exception):
    pass


def run_case(runtime, kind, shape, inject, max_connections=1, yield_in_ops=True, retries=0):
    """shape: dict(reuse: bool, queued: bool); inject: None | ('fault', k, excname) | ('cancel', k, 'scope'|'native')
    -> result dict with everything the oracles need"""
    import anyio
    w = build_world(kind, True, max_connections=max_connections, yield_in_ops=yield_in_ops, retries=retries)
    pool, net = w["pool"], w["net"]
    res = {"labels": [], "inject": inject, "kind": kind, "shape": shape, "runtime": runtime}

    async def request(tok, origin=0, hold=None):
        async with pool.stream("GET", w["url"](origin, tok)) as resp:
            body = b"".join([part async for part in resp.aiter_stream()])
        return resp.status, body

    async def main():
        if shape.get("reuse"):
            await request("warm")
        net.behavior.armed = True
        if inject and inject[0] == "fault":
            import httpcore
            net.behavior.a_fault = (inject[1], "EOF" if inject[2] == "EOF" else getattr(httpcore, inject[2])("injected"))
        state = {"scope": None}

        def hook(k, label):
            if inject and inject[0] == "cancel" and k == inject[1]:
                res["cancel_label"] = label
                if inject[2] == "scope":
                    state["scope"].cancel()
                else:
                    import asyncio
                    asyncio.current_task().cancel()

        async def caller_a():
            CURRENT_CALLER.set("A")
            try:
                with anyio.CancelScope() as scope:
                    state["scope"] = scope
                    st = Stepper(request("A"), hook)
                    try:
                        res["a"] = await st
                        res["a_outcome"] = "ok"
                    finally:
                        res["labels"] = st.labels
                if scope.cancelled_caught:
                    res["a_outcome"] = "cancelled"
            except BaseException as e:  # noqa
                res["a_outcome"] = "error:" + simnet.exc_name(e) if type(e).__name__ not in ("CancelledError", "Cancelled") else "cancelled"
                res["a_exc"] = repr(e)[:160]

        b_state = {"scope": None, "done": False}
        a_done = {"v": False}

        async def caller_a_wrapped():
            try:
                await caller_a()
            finally:
                a_done["v"] = True

        async def caller_b():
            CURRENT_CALLER.set("B")
            res["b_outcome"] = "blocked"
            try:
                with anyio.CancelScope() as scope:
                    b_state["scope"] = scope
                    res["b"] = await request("B", origin=1)
                    res["b_outcome"] = "ok"
            except BaseException as e:  # noqa
                res["b_outcome"] = "error:" + simnet.exc_name(e)
            finally:
                b_state["done"] = True

        async def idle_rounds(done, budget):
            """give the other tasks `budget` scheduling rounds (no real time involved): a request that is not through by then is
            blocked - nothing in the simulated network ever completes later on its own"""
            for _ in range(budget):
                if done():
                    return True
                await anyio.sleep(0)
            return done()

        async with anyio.create_task_group() as tg:
            tg.start_soon(caller_a_wrapped)
            if shape.get("queued"):
                tg.start_soon(caller_b)
                # B is given its rounds once A is through
                while not a_done["v"]:
                    await anyio.sleep(0)
                if not await idle_rounds(lambda: b_state["done"], 1500):
                    b_state["scope"].cancel()
        # ---- A (and B) are done: judge ------------------------------------------------------------
        res["requests_left"] = len(pool._requests)
        res["conns"] = [c.info() for c in pool.connections]
        res["limbo"] = [c.info() for c in pool.connections if not (c.is_idle() or c.is_closed() or c.has_expired() or c.is_available())]
        res["open_before_probe"] = list(net.open_sockets())
        res["n_conns"] = len(pool.connections)
        # capacity probe: max_connections fresh origins must all be servable
        probes = []
        net.behavior.a_fault = None
        net.behavior.armed = False
        for j in range(max_connections):
            pr = {"done": False, "out": "error:TimeoutError"}       # the value a blocked probe had under the former real-time limit

            async def probe(j=j, pr=pr):
                try:
                    with anyio.CancelScope() as scope:
                        pr["scope"] = scope
                        st, body = await request(f"P{j}", origin=50 + j)
                        pr["out"] = "ok" if st == 200 else f"status:{st}"
                except BaseException as e:  # noqa
                    pr["out"] = "error:" + simnet.exc_name(e)
                finally:
                    pr["done"] = True
            async with anyio.create_task_group() as tg:
                tg.start_soon(probe)
                if not await idle_rounds(lambda: pr["done"], 1500):
                    pr["scope"].cancel()
            probes.append(pr["out"])
        res["probes"] = probes
        res["open_before_close"] = list(net.open_sockets())
        await pool.aclose()
        res["open_after_close"] = list(net.open_sockets())
        res["open_after_close_targets"] = [net.sockets[i].target for i in net.open_sockets()]

    try:
        if runtime == "asyncio":
            anyio.run(main, backend="asyncio")
        else:
            import trio._core._run as trio_run
            trio_run._r.seed(0)          # replayable batch order
            anyio.run(main, backend="trio")
    except BaseException as e:  # noqa
        res["harness_exc"] = repr(e)[:200]
    res["net_ops"] = [(r["op"], r.get("fault")) for r in net.log if r["op"] in simnet.NET_OPS and "ka" in r]
    # C14: on how many connections did caller A's request head appear (HTTP/1.1: bytes written per socket; HTTP/2: heads decoded by h2)
    heads = 0
    for sock in net.sockets:
        data = b"".join(b for _, b in sock.written)
        if b"/A HTTP/1.1\r\n" in data:
            heads += 1
    for p in w["peers"]:
        if any(r.get("path") == b"/A" for r in getattr(p, "reqs", {}).values()):
            heads += 1
    res["a_heads"] = heads
    return res


def judge(res):
    """-> list of (clause, extra) failures, judged from the property statements of C05/C06/C04"""
    out = []
    site = res.get("cancel_label")
    if res.get("harness_exc"):
        out.append(("harness-exception", {"exc": res["harness_exc"][:60]}))
        return out
    if res.get("requests_left"):
        out.append(("C05:request-still-counted", {}))
    for info in res.get("limbo", []):
        st = info.split(", ")[2] if info.count(", ") >= 2 else info
        out.append(("C05:connection-in-limbo", {"conn_state": st}))
    if any(p != "ok" for p in res.get("probes", [])):
        out.append(("C05:capacity-lost", {"probes": "/".join(sorted(set(res["probes"])))}))
    if res.get("shape", {}).get("queued") and res.get("b_outcome") != "ok":
        out.append(("C05:queued-request-not-served", {"b": str(res.get("b_outcome"))}))
    if res.get("open_after_close"):
        out.append(("C06:stream-left-open-after-pool-close", {}))
    # C06/C04: between A's end and the probe, streams owned by nobody
    if len(res.get("open_before_probe", [])) > res.get("n_conns", 0):
        out.append(("C06:stream-without-owner", {}))
    return out


def signature(res, clause, extra):
    inj = res.get("inject")
    sig = {"clause": clause, "kind": res["kind"]}
    sig.update(extra)
    if inj is None:
        sig["trigger"] = "none"
    elif inj[0] == "fault":
        ops = [o for o, _ in res.get("net_ops", [])]
        failed = [o for o, f in res.get("net_ops", []) if f]
        sig["trigger"] = "fault:" + (failed[0] if failed else "?") + ":" + inj[2]
    else:
        sig["trigger"] = "cancel:" + inj[2]
        sig["site"] = res.get("cancel_label", "?")
    return sig


def clean_yields(runtime, kind, shape):
    res = run_case(runtime, kind, shape, None)
    return res
