"""A controlled scheduler for real OS threads running httpcore's synchronous code (C08).

Exactly one thread runs at a time (a baton); a thread can be pre-empted
 * before every source line of httpcore/_sync/*.py and httpcore/_synchronization.py (sys.settrace line events),
 * at every lock / event / semaphore operation (httpcore._synchronization's `threading` is replaced by cooperative shims),
 * at every network operation of the simulated back end.
At each pre-emption point the scheduler - a seeded PRNG, so every schedule replays - decides who runs next among the threads
that are not blocked.  If nobody can run and somebody is unfinished, that is a dead-lock.  Unlike the GIL's time slices this makes
every interleaving reachable and reproducible."""
from __future__ import annotations

import random
import sys
import threading as real_threading


class Deadlock(Exception):
    pass


class Scheduler:
    def __init__(self, seed, switch_prob=0.25, max_steps=200000, trace_lines=True, hot=True):
        self.rng = random.Random(seed)
        self.switch_prob = switch_prob
        self.max_steps = max_steps
        self.trace_lines = trace_lines
        self.cv = real_threading.Condition()
        self.threads = {}            # tid -> dict(state, blocked_on, thread)
        self.current = None
        self.steps = 0
        self.switches = 0
        self.deadlock = None
        self.abort = False
        self.observers = []          # callables run (by the thread holding the baton) at every pre-emption point
        self.points = 0
        self.timeouts_fired = 0
        self.serials = 0
        # lock-free state changes happen here: pre-empt more often inside them
        self.hot_functions = {"close", "_response_closed", "_close_connections", "assign_to_connection", "clear_connection", "has_expired"}
        self.hot_prob = 0.6
        self.hot_enabled = hot
        self.frozen = {}

    # ---- called from worker threads -------------------------------------------------------------------------------
    def _me(self):
        return real_threading.current_thread().name

    def _runnable(self):
        out = []
        for tid, t in self.threads.items():
            if t["state"] == "runnable":
                out.append(tid)
            elif t["state"] == "blocked":
                if t["can_run"]():
                    out.append(tid)
        # a thread parked in the middle of a lock-free state change stays parked for a while, so that the others run into the window
        thawed = [tid for tid in out if self.frozen.get(tid, 0) <= 0]
        return thawed or out

    def _pick_and_switch(self, me, must_switch=False, hot=False):
        """called with cv held by the thread that has the baton"""
        runnable = self._runnable()
        prob = max(self.switch_prob, self.hot_prob) if hot else self.switch_prob
        for tid in list(self.frozen):
            self.frozen[tid] -= 1
            if self.frozen[tid] <= 0:
                del self.frozen[tid]
        if me in runnable and not must_switch and (len(runnable) == 1 or self.rng.random() >= prob):
            return
        if hot and not must_switch and len(runnable) > 1 and self.rng.random() < 0.5:
            self.frozen[me] = self.rng.choice([5, 20, 60, 150])
        cands = [t for t in runnable if t != me] or ([me] if me in runnable else [])
        if not cands:
            # nobody can run: time-outs are the only way forward
            waiting = [tid for tid, t in self.threads.items() if t["state"] == "blocked" and t.get("timeout_ok")]
            if waiting:
                tid = self.rng.choice(waiting)
                self.threads[tid]["timed_out"] = True
                self.timeouts_fired += 1
                cands = [tid]
            else:
                unfinished = [tid for tid, t in self.threads.items() if t["state"] != "done"]
                if unfinished:
                    self.deadlock = {tid: self.threads[tid].get("blocked_on") for tid in unfinished}
                    self.abort = True
                    self.cv.notify_all()
                    raise Deadlock(str(self.deadlock))
                return
        nxt = self.rng.choice(cands)
        if nxt != me:
            self.switches += 1
        self.current = nxt
        self.cv.notify_all()
        while self.current != me and not self.abort:
            self.cv.wait(timeout=5)
        if self.abort:
            raise Deadlock("aborted")

    def point(self, what=None):
        """a pre-emption point of a running thread"""
        me = self._me()
        if me not in self.threads or self.abort:
            if self.abort and me in self.threads:
                raise Deadlock("aborted")
            return
        with self.cv:
            self.points += 1
            self.steps += 1
            if self.steps > self.max_steps:
                self.abort = True
                self.deadlock = {"livelock": "step budget exhausted"}
                self.cv.notify_all()
                raise Deadlock("step budget")
            for ob in self.observers:
                ob(what)
            hot = self.hot_enabled and bool(what) and what[0] == "line" and (what[2] in self.hot_functions)
            self._pick_and_switch(me, hot=hot)

    def block_until(self, can_run, blocked_on, timeout_ok=False):
        """block the calling thread until can_run() holds (evaluated by whoever holds the baton); returns 'timeout' if the
        scheduler fired its time-out instead"""
        me = self._me()
        if me not in self.threads:
            return None
        with self.cv:
            t = self.threads[me]
            if can_run():
                return None
            t.update(state="blocked", can_run=can_run, blocked_on=blocked_on, timeout_ok=timeout_ok, timed_out=False)
            self._pick_and_switch(me, must_switch=True)
            # we have the baton again: either the condition holds or our time-out fired
            timed = t.get("timed_out")
            t.update(state="runnable", blocked_on=None, timed_out=False)
            return "timeout" if timed else None

    # ---- running ----------------------------------------------------------------------------------------------------------
    def run(self, fns):
        """fns: dict name -> callable; returns dict name -> ('ok', value) | ('error', exception)"""
        results = {}

        def tracer(frame, event, arg):
            fn = frame.f_code.co_filename
            if "/httpcore/_sync/" in fn or fn.endswith("/httpcore/_synchronization.py"):
                return line_tracer
            return None

        def line_tracer(frame, event, arg):
            if event == "line":
                obj = frame.f_locals.get("self")
                serial = getattr(obj, "_verif_serial", None)
                if serial is None and obj is not None:
                    self.serials += 1
                    serial = self.serials
                    try:
                        obj._verif_serial = serial       # ids are reused after garbage collection; a serial number is not
                    except Exception:  # noqa
                        serial = None
                self.point(("line", frame.f_code.co_filename.rsplit("/", 1)[-1], frame.f_code.co_name, frame.f_lineno, serial))
            return line_tracer

        def body(name, fn):
            with self.cv:
                while self.current != name and not self.abort:
                    self.cv.wait(timeout=5)
            if self.trace_lines:
                sys.settrace(tracer)
            try:
                results[name] = ("ok", fn())
            except Deadlock as e:
                results[name] = ("deadlock", str(e))
            except BaseException as e:  # noqa
                results[name] = ("error", e)
            finally:
                sys.settrace(None)
                with self.cv:
                    self.threads[name]["state"] = "done"
                    if not self.abort:
                        try:
                            runnable = self._runnable()
                            if runnable:
                                self.current = self.rng.choice(runnable)
                            else:
                                waiting = [tid for tid, t in self.threads.items() if t["state"] == "blocked" and t.get("timeout_ok")]
                                unfinished = [tid for tid, t in self.threads.items() if t["state"] != "done"]
                                if waiting:
                                    tid = self.rng.choice(waiting)
                                    self.threads[tid]["timed_out"] = True
                                    self.timeouts_fired += 1
                                    self.current = tid
                                elif unfinished:
                                    self.deadlock = {tid: self.threads[tid].get("blocked_on") for tid in unfinished}
                                    self.abort = True
                                else:
                                    self.current = None
                        finally:
                            self.cv.notify_all()

        ths = []
        for name, fn in fns.items():
            th = real_threading.Thread(target=body, args=(name, fn), name=name, daemon=True)
            self.threads[name] = {"state": "runnable", "thread": th, "blocked_on": None}
            ths.append(th)
        for th in ths:
            th.start()
        with self.cv:
            self.current = self.rng.choice(list(fns))
            self.cv.notify_all()
        for th in ths:
            th.join(timeout=60)
        alive = [th.name for th in ths if th.is_alive()]
        if alive:
            with self.cv:
                self.abort = True
                self.cv.notify_all()
            for th in ths:
                th.join(timeout=5)
            if not self.deadlock:
                self.deadlock = {"hung": alive}
        return results


# ---------------------------------------------------------------------------------------------------------------------
# cooperative replacements for what httpcore._synchronization uses from `threading`
# ---------------------------------------------------------------------------------------------------------------------

class ShimThreading:
    """stands in for the `threading` module inside httpcore._synchronization while a schedule runs"""

    def __init__(self, sched):
        self.sched = sched
        shim = self

        class Lock:
            def __init__(self):
                self.owner = None

            def acquire(self, blocking=True, timeout=-1):
                shim.sched.point(("lock-acquire", id(self)))
                me = real_threading.current_thread().name
                shim.sched.block_until(lambda: self.owner is None, ("lock", id(self), self.owner))
                self.owner = me
                return True

            def release(self):
                self.owner = None
                shim.sched.point(("lock-release", id(self)))

            def locked(self):
                return self.owner is not None

            __enter__ = acquire

            def __exit__(self, *a):
                self.release()

        class Event:
            def __init__(self):
                self.flag = False

            def set(self):
                self.flag = True
                shim.sched.point(("event-set", id(self)))

            def is_set(self):
                return self.flag

            def wait(self, timeout=None):
                shim.sched.point(("event-wait", id(self)))
                r = shim.sched.block_until(lambda: self.flag, ("event", id(self)), timeout_ok=timeout is not None)
                return r != "timeout"

        class Semaphore:
            def __init__(self, value=1):
                self.value = value

            def acquire(self, blocking=True, timeout=None):
                shim.sched.point(("sem-acquire", id(self)))
                shim.sched.block_until(lambda: self.value > 0, ("semaphore", id(self)))
                self.value -= 1
                return True

            def release(self, n=1):
                self.value += n
                shim.sched.point(("sem-release", id(self)))

        self.Lock, self.Event, self.Semaphore = Lock, Event, Semaphore
        self.RLock = Lock

    def __getattr__(self, name):
        return getattr(real_threading, name)


class patched_sync:
    """httpcore's thread primitives become cooperative for the duration of one schedule"""

    def __init__(self, sched):
        self.sched = sched

    def __enter__(self):
        import httpcore._synchronization as sy
        self.sy = sy
        self.saved = sy.threading
        sy.threading = ShimThreading(self.sched)
        return self

    def __exit__(self, *a):
        self.sy.threading = self.saved
