"""Tie B for the life-cycle models (`ConnLife.lean`): the real connection objects are instrumented *from outside* (sub-classes created
here; nothing in /repo is touched) so that every life-cycle event is logged at the instant it happens - between two suspension points
Python code is atomic, so the log is a linearisation of what the object did.  The Lean driver replays the log (`life1` / `life2`) and
its snapshot after the last event is compared with the object's own attributes and status predicates at every quiescent point.

HTTP/2: the async class under asyncio and trio (seeded), several concurrent requests on one connection, a real h2 server whose
MAX_CONCURRENT_STREAMS is small so that requests wait for a slot while others finish; the theorems' statements are evaluated as
oracles on the real object too (`in use => not idle, not expired`).
HTTP/1.1: the sync class, sequential histories (exchanges read fully / closed early / Connection: close / failing, clock advances,
closes from outside, a second request while one is open, server-side close while idle)."""
from __future__ import annotations

import contextvars
import random

import anyio
import h2.config
import h2.connection
import h2.events
import h2.settings
import httpcore
from httpcore._async.http2 import AsyncHTTP2Connection
from httpcore._sync.http11 import HTTP11Connection

import servers

REQ = contextvars.ContextVar("life_req", default=None)
INRC = contextvars.ContextVar("life_inrc", default=False)
MISSING = object()


class ReqRec:
    def __init__(self):
        self.accepted = self.opened = self.left = self.uncounted = self.ids = False


# ------------------------------------------------------------------------------------------------- HTTP/2 (async)

class SpyDict(dict):
    def __init__(self, owner):
        super().__init__()
        self.owner = owner

    def __setitem__(self, k, v):
        new = k not in self
        super().__setitem__(k, v)
        if new:
            r = REQ.get()
            if r is not None:
                r.opened = True
            self.owner._log("open")

    def __delitem__(self, k):
        super().__delitem__(k)
        self.owner._log("ended")


class SpyLock:
    def __init__(self, inner, owner):
        self.inner, self.owner = inner, owner

    async def __aenter__(self):
        await self.inner.__aenter__()
        if INRC.get():
            self.owner._log("settle")
        return self

    async def __aexit__(self, *a):
        return await self.inner.__aexit__(*a)


class SpyH2(AsyncHTTP2Connection):
    def __init__(self, *a, clock, **kw):
        object.__setattr__(self, "_lg", [])
        object.__setattr__(self, "_clock", clock)
        super().__init__(*a, **kw)
        object.__setattr__(self, "_events", SpyDict(self))
        object.__setattr__(self, "_state_lock", SpyLock(self._state_lock, self))

    def _log(self, op):
        self._lg.append(f"{op}@{int(self._clock.now)}")

    def __setattr__(self, name, value):
        old = self.__dict__.get(name, MISSING)
        object.__setattr__(self, name, value)
        if old is MISSING:
            return
        r = REQ.get()
        if name == "_connection_terminated" and value is not None and old is None:
            self._log("goaway")
        elif name == "_connection_error" and value and not old:
            self._log("iofail")
        elif name == "_used_all_stream_ids" and value and not old:
            if r is not None:
                r.ids = True
        elif name == "_request_count":
            if value > old:
                if r is not None:
                    r.accepted = True
                self._log("req")
            elif value < old:
                if r is None or r.opened:
                    self._log("uncount")
                else:
                    r.uncounted = True

    async def handle_async_request(self, request):
        r = ReqRec()
        tok = REQ.set(r)
        try:
            return await super().handle_async_request(request)
        except BaseException:
            if r.accepted and not r.opened and not r.left:
                r.left = True
                self._log("ids" if r.ids else ("back1" if r.uncounted else "back0"))
            raise
        finally:
            REQ.reset(tok)

    async def _response_closed(self, stream_id):
        tok = INRC.set(True)
        try:
            return await super()._response_closed(stream_id)
        finally:
            INRC.reset(tok)

    async def aclose(self):
        if not INRC.get():
            self._log("aclose")
        return await super().aclose()

    def pending(self):
        n = 0
        for e in self._lg:
            o = e.split("@")[0]
            if o == "req":
                n += 1
            elif o in ("open", "back0", "back1", "ids"):
                n -= 1
        return n


class H2Srv:
    """in-memory h2 server; answers are released by the harness"""

    def __init__(self, max_streams):
        self.c = h2.connection.H2Connection(h2.config.H2Configuration(client_side=False))
        self.c.local_settings = h2.settings.Settings(client=False, initial_values={h2.settings.SettingCodes.MAX_CONCURRENT_STREAMS: max_streams})
        self.c.initiate_connection()
        self.out = bytearray(self.c.data_to_send())
        self.waiting = []          # stream ids with a request received and no answer yet
        self.ev = None
        self.eof = False
        self.fail_write = False

    def wake(self):
        if self.ev is not None:
            self.ev.set()

    def feed(self, data):
        try:
            evs = self.c.receive_data(data)
        except Exception:
            evs = []
        for e in evs:
            if isinstance(e, h2.events.RequestReceived):
                self.waiting.append(e.stream_id)
        self.out += self.c.data_to_send()
        self.wake()

    def answer(self, sid, partial=False):
        try:
            self.c.send_headers(sid, [(b":status", b"200")])
            self.c.send_data(sid, b"x" * 10, end_stream=not partial)
        except Exception:
            pass
        self.out += self.c.data_to_send()
        self.wake()

    def goaway(self, last):
        try:
            self.c.close_connection(last_stream_id=last)
        except Exception:
            pass
        self.out += self.c.data_to_send()
        self.wake()


class H2Stream(httpcore.AsyncNetworkStream):
    def __init__(self, srv):
        self.srv = srv
        self.closes = 0

    async def read(self, n, timeout=None):
        while not self.srv.out:
            if self.closes:
                raise httpcore.ReadError("closed")
            if self.srv.eof:
                return b""
            self.srv.ev = anyio.Event()
            await self.srv.ev.wait()
        d = bytes(self.srv.out[:n])
        del self.srv.out[:n]
        return d

    async def write(self, b, timeout=None):
        await anyio.sleep(0)
        if self.closes or self.srv.fail_write:
            raise httpcore.WriteError("closed")
        self.srv.feed(b)

    async def aclose(self):
        self.closes += 1
        self.srv.wake()

    def get_extra_info(self, k):
        return None


def snap_h2(conn, clock):
    exp = conn._expire_at
    return (f"{conn._state.name}|{conn._request_count}|{'none' if exp is None else int(exp)}|{len(conn._events)}|"
            f"{getattr(conn, '_starting_requests', 0)}|a{int(conn.is_available())}|i{int(conn.is_idle())}|c{int(conn.is_closed())}|"
            f"x{int(conn.has_expired())}")


def model_cut(s):
    """drop the fields of a model snapshot the implementation does not expose (raised, sockCloses)"""
    return "|".join(s.split(";")[-1].split("|")[:9])


async def _settle(n=40):
    for _ in range(n):
        await anyio.sleep(0)


def h2_scenario(seed, runtime, n_steps=18):
    """One concurrent history on one HTTP/2 connection.  Returns dict(log=[...], checks=[(log_len, now, impl_snapshot)], oracle=[...])."""
    rng = random.Random(seed)
    ka = rng.choice([None, 0, 1, 3, 10])
    max_streams = rng.choice([1, 1, 1, 2, 3])
    rough = rng.random() < 0.35
    clock = servers.Clock(0.0)
    out = {"ka": ka, "max_streams": max_streams, "runtime": runtime, "seed": seed, "steps": [], "checks": [], "oracle": []}

    async def main():
        srv = H2Srv(max_streams)
        stream = H2Stream(srv)
        conn = SpyH2(httpcore.Origin(b"https", b"ex.org", 443), stream, keepalive_expiry=None if ka is None else float(ka), clock=clock)
        held = {}       # name -> response (body unread)
        results = {}
        scopes = {}
        counter = [0]

        async def caller(name, hold):
            req = httpcore.Request("GET", "https://ex.org/" + name, headers=[(b"Host", b"ex.org")])
            try:
                with anyio.CancelScope() as sc:
                    scopes[name] = sc
                    resp = await conn.handle_async_request(req)
                    if hold:
                        held[name] = resp
                    else:
                        try:
                            await resp.aread()
                        finally:
                            await resp.aclose()
                    results[name] = "ok"
            except BaseException as e:  # noqa
                results[name] = type(e).__name__
                if not isinstance(e, Exception) and not isinstance(e, anyio.get_cancelled_exc_class()):
                    raise
            finally:
                scopes.pop(name, None)

        async def safe_close(resp, name="?"):
            try:
                await resp.aclose()
            except Exception as e:  # noqa  closing a response must not raise: record it, keep the schedule going
                out["oracle"].append({"clause": "close-raised", "what": type(e).__name__, "response": name})

        def check(tag):
            pend = conn.pending()
            streams = len(conn._events)
            out["checks"].append((len(conn._lg), int(clock.now), snap_h2(conn, clock)))
            if (streams > 0 or pend > 0) and not conn.is_closed():
                if conn.is_idle():
                    out["oracle"].append({"clause": "in-use-but-idle", "at": tag, "streams": streams, "pending": pend, "log_len": len(conn._lg)})
                if conn.has_expired():
                    out["oracle"].append({"clause": "in-use-but-expired", "at": tag, "streams": streams, "pending": pend, "log_len": len(conn._lg)})

        async with anyio.create_task_group() as tg:
            for step in range(n_steps):
                acts = ["start"] * 3 + ["answer"] * 3 + ["tick"] * 2 + ["close_held"] * 3 + ["cancel", "answer_partial"]
                if rough and step > 4:
                    acts += ["goaway", "ext_close", "eof", "fail_write"]
                a = rng.choice(acts)
                desc = a
                if a == "start":
                    counter[0] += 1
                    name = f"r{counter[0]}"
                    hold = rng.random() < 0.5
                    desc = f"start {name} hold={int(hold)}"
                    tg.start_soon(caller, name, hold)
                elif a in ("answer", "answer_partial") and srv.waiting:
                    sid = srv.waiting.pop(rng.randrange(len(srv.waiting)))
                    desc = f"{a} {sid}"
                    srv.answer(sid, partial=(a == "answer_partial"))
                elif a == "tick":
                    dt = rng.choice([1, 1, 2, 5, 20])
                    desc = f"tick {dt}"
                    clock.tick(dt)
                elif a == "close_held" and held:
                    name = rng.choice(sorted(held))
                    resp = held.pop(name)
                    desc = f"close {name}"
                    tg.start_soon(safe_close, resp, name)
                elif a == "cancel" and scopes:
                    name = rng.choice(sorted(scopes))
                    desc = f"cancel {name}"
                    scopes[name].cancel()
                elif a == "goaway":
                    last = rng.choice([0, 1, 3, 2 ** 31 - 1])
                    desc = f"goaway {last}"
                    srv.goaway(last)
                elif a == "ext_close" and rng.random() < 0.3:
                    desc = "ext_close"
                    tg.start_soon(safe_close, conn, "connection")
                elif a == "eof" and rng.random() < 0.3:
                    srv.eof = True
                    srv.wake()
                elif a == "fail_write" and rng.random() < 0.3:
                    srv.fail_write = True
                else:
                    desc = a + " (skipped)"
                out["steps"].append(desc)
                await _settle()
                check(f"step {step}: {desc}")
            # drain: answer everything, close everything
            for _ in range(6):
                for sid in list(srv.waiting):
                    srv.waiting.remove(sid)
                    srv.answer(sid)
                for name in sorted(held):
                    tg.start_soon(safe_close, held.pop(name), name)
                await _settle()
                check("drain")
            for sc in list(scopes.values()):
                sc.cancel()
            srv.eof = True
            srv.wake()
            await _settle()
            check("end")
        out["log"] = list(conn._lg)
        out["results"] = results

    with servers.patched_clock(clock):
        if runtime == "trio":
            import trio
            import trio._core._run as trun
            old = trun._r
            trun._r = random.Random(seed)
            try:
                trio.run(main)
            finally:
                trun._r = old
        else:
            anyio.run(main, backend="asyncio")
    return out


def h2_reset_during_upload(runtime):
    """A request whose stream the server resets while its body is still being sent (paused between two chunks, a second request queued
    behind it) fails with RemoteProtocolError, and everything it held on the connection is given back: its stream is no longer
    registered, so its slot is free and the connection can go idle once the others are done.  -> dict of what was observed"""
    out = {"outcome_a": None, "outcome_b": None, "registered_after": None, "state_after": None}
    clock = servers.Clock(0.0)

    async def main():
        srv = H2Srv(3)
        stream = H2Stream(srv)
        conn = SpyH2(httpcore.Origin(b"https", b"ex.org", 443), stream, keepalive_expiry=None, clock=clock)
        gate = anyio.Event()

        async def body():
            yield b"a" * 1000
            await gate.wait()              # the harness lets the upload continue only after the reset has been read
            yield b"b" * 1000

        class Body:
            def __aiter__(self):
                return body()

        async def a():
            try:
                r = await conn.handle_async_request(httpcore.Request("POST", "https://ex.org/up", headers=[(b"Host", b"ex.org"), (b"Transfer-Encoding", b"chunked")], content=Body()))
                await r.aread(); await r.aclose()
                out["outcome_a"] = "ok"
            except Exception as e:  # noqa
                out["outcome_a"] = type(e).__name__

        async def b():
            try:
                r = await conn.handle_async_request(httpcore.Request("GET", "https://ex.org/b", headers=[(b"Host", b"ex.org")]))
                await r.aread(); await r.aclose()
                out["outcome_b"] = "ok"
            except Exception as e:  # noqa
                out["outcome_b"] = type(e).__name__

        with anyio.move_on_after(10.0):
            async with anyio.create_task_group() as tg:
                tg.start_soon(a)
                await _settle(400)
                tg.start_soon(b)
                await _settle(400)
                # wait (bounded) until the server has seen the upload's head (the GET may still be waiting for a stream slot: the client
                # holds to one stream until it has read the server's SETTINGS)
                for _ in range(50):
                    if len(srv.c.streams) >= 1:
                        break
                    await _settle(100)
                else:
                    out["inconclusive"] = True
                    tg.cancel_scope.cancel()
                    return
                # the stream of the upload is the lowest id the server has seen headers for but no END_STREAM; reset it.  `b` is parked
                # in the network read and will be the one to read the RST_STREAM
                up = min(srv.c.streams) if srv.c.streams else None
                if up is not None:
                    try:
                        srv.c.reset_stream(up, error_code=2)
                    except Exception:  # noqa
                        pass
                    srv.out += srv.c.data_to_send()
                    srv.wake()
                await _settle(400)
                gate.set()
                await _settle(400)
                for sid in list(srv.waiting):
                    srv.waiting.remove(sid)
                    if sid != up:
                        srv.answer(sid)
                await _settle(400)
                out["registered_after"] = sorted(conn._events)
                out["state_after"] = conn._state.name
                tg.cancel_scope.cancel()

    with servers.patched_clock(clock):
        try:
            anyio.run(main, backend=runtime)
        except BaseException as e:  # noqa
            out["error"] = repr(e)[:200]
    return out


def h2_model_lines(sc):
    """one driver line per check point (the log prefix up to that point + a query at the check's clock reading)"""
    lines = []
    ka = "none" if sc["ka"] is None else str(sc["ka"])
    for n, now, _ in sc["checks"]:
        lines.append(f"life2 {ka} " + ",".join(sc["log"][:n] + [f"q@{now}"]))
    return lines


# ------------------------------------------------------------------------------------------------- HTTP/1.1 (sync)

class H1Stream(httpcore.NetworkStream):
    def __init__(self):
        self.chunks = []
        self.closes = 0
        self.readable = False
        self.fail_read = False
        self.written = bytearray()

    def read(self, n, timeout=None):
        if self.fail_read:
            raise httpcore.ReadError("boom")
        if self.chunks:
            return self.chunks.pop(0)
        return b""

    def write(self, b, timeout=None):
        self.written += b

    def close(self):
        self.closes += 1

    def get_extra_info(self, k):
        if k == "is_readable":
            return self.readable
        return None


class SpyH1(HTTP11Connection):
    def __init__(self, *a, clock, **kw):
        object.__setattr__(self, "_lg", [])
        object.__setattr__(self, "_clock", clock)
        object.__setattr__(self, "_inrc", False)
        super().__init__(*a, **kw)

    def _log(self, op):
        self._lg.append(f"{op}@{int(self._clock.now)}:{int(self._network_stream.readable)}")

    def __setattr__(self, name, value):
        old = self.__dict__.get(name, MISSING)
        object.__setattr__(self, name, value)
        if old is not MISSING and name == "_request_count" and value > old:
            self._log("req")

    def _response_closed(self):
        import h11
        o = self._h11_state.our_state is h11.DONE
        t = self._h11_state.their_state is h11.DONE
        self._log(f"prog{int(o)}{int(t)}")
        self._log("rc")
        object.__setattr__(self, "_inrc", True)
        try:
            return super()._response_closed()
        finally:
            object.__setattr__(self, "_inrc", False)

    def close(self):
        if not self._inrc:
            self._log("aclose")
        return super().close()


RESPONSES = {
    "cl": [b"HTTP/1.1 200 OK\r\nContent-Length: 5\r\n\r\nhello"],
    "cl_split": [b"HTTP/1.1 200 OK\r\nContent-Le", b"ngth: 5\r\n\r\nhel", b"lo"],
    "chunked": [b"HTTP/1.1 200 OK\r\nTransfer-Encoding: chunked\r\n\r\n5\r\nhello\r\n0\r\n\r\n"],
    "close": [b"HTTP/1.1 200 OK\r\nConnection: close\r\nContent-Length: 5\r\n\r\nhello"],
    "http10": [b"HTTP/1.0 200 OK\r\nContent-Length: 5\r\n\r\nhello"],
    "until_close": [b"HTTP/1.1 200 OK\r\n\r\nhello"],
    "truncated": [b"HTTP/1.1 200 OK\r\nContent-Length: 50\r\n\r\nhello"],
    "garbage": [b"NOT HTTP AT ALL\r\n\r\n"],
    "empty": [],
}


def snap_h1(conn, raised):
    exp = conn._expire_at
    return (f"{conn._state.name}|{conn._request_count}|{'none' if exp is None else int(exp)}|a{int(conn.is_available())}|"
            f"i{int(conn.is_idle())}|c{int(conn.is_closed())}|x{int(conn.has_expired())}")


def h1_scenario(seed, n_steps=10):
    rng = random.Random(seed)
    ka = rng.choice([None, 0, 1, 3, 10])
    clock = servers.Clock(0.0)
    out = {"ka": ka, "seed": seed, "steps": [], "checks": [], "oracle": []}
    with servers.patched_clock(clock):
        stream = H1Stream()
        conn = SpyH1(httpcore.Origin(b"http", b"ex.org", 80), stream, keepalive_expiry=None if ka is None else float(ka), clock=clock)
        open_resp = None
        for step in range(n_steps):
            a = rng.choice(["exchange", "exchange", "exchange", "tick", "tick", "ext_close", "second", "server_close", "finish", "finish"])
            desc = a
            cna = False
            try:
                if a == "exchange":
                    kind = rng.choice(sorted(RESPONSES))
                    mode = rng.choice(["read", "read", "early", "hold", "readfail"])
                    desc = f"exchange {kind} {mode}"
                    stream.chunks = list(RESPONSES[kind])
                    stream.readable = False
                    body = rng.choice([None, b"abc"])
                    try:
                        resp = conn.handle_request(httpcore.Request("POST" if body else "GET", "http://ex.org/", headers=[(b"Host", b"ex.org")] + ([(b"Content-Length", b"3")] if body else []), content=body))
                    except httpcore.ConnectionNotAvailable:
                        cna = True
                        resp = None
                    except Exception as e:
                        desc += f" -> {type(e).__name__}"
                        resp = None
                    if resp is not None:
                        if mode == "hold" and open_resp is None:
                            open_resp = resp
                        else:
                            try:
                                if mode == "readfail":
                                    stream.fail_read = True
                                if mode != "early":
                                    resp.read()
                            except Exception as e:
                                desc += f" -> {type(e).__name__}"
                            finally:
                                stream.fail_read = False
                                resp.close()
                elif a == "finish" and open_resp is not None:
                    r, open_resp = open_resp, None
                    try:
                        if rng.random() < 0.7:
                            r.read()
                    except Exception as e:
                        desc += f" -> {type(e).__name__}"
                    finally:
                        r.close()
                elif a == "second" and open_resp is not None:
                    try:
                        conn.handle_request(httpcore.Request("GET", "http://ex.org/", headers=[(b"Host", b"ex.org")]))
                        out["oracle"].append({"clause": "second-request-admitted-while-exchange-open", "step": step})
                    except httpcore.ConnectionNotAvailable:
                        cna = True
                elif a == "tick":
                    dt = rng.choice([1, 1, 2, 5, 20])
                    desc = f"tick {dt}"
                    clock.tick(dt)
                elif a == "ext_close" and rng.random() < 0.25:
                    conn.close()
                elif a == "server_close" and conn.is_idle():
                    stream.readable = True
                    desc = "server_close (socket readable while idle)"
                else:
                    desc = a + " (skipped)"
            except Exception as e:  # noqa
                desc += f" !! {type(e).__name__}: {e}"
            out["steps"].append(desc)
            out["checks"].append((len(conn._lg), int(clock.now), int(stream.readable), snap_h1(conn, cna)))
            # theorem statements as oracles on the object itself
            if conn._state.name == "ACTIVE" and (conn.is_idle() or conn.has_expired()):
                out["oracle"].append({"clause": "h1-in-use-but-idle-or-expired", "step": step})
            if conn.is_idle() and stream.readable and not conn.has_expired():
                out["oracle"].append({"clause": "h1-server-closed-idle-not-expired", "step": step})
        out["log"] = list(conn._lg)
    return out


def h1_revive_replay():
    """The witness `LifeProps.h1_closed_revives` on the implementation: an HTTP/1.1 connection object closed from outside during an
    exchange whose response is then completed from data h11 has already buffered calls itself IDLE again.  -> state name after each step"""
    clock = servers.Clock(0.0)
    with servers.patched_clock(clock):
        stream = H1Stream()
        conn = SpyH1(httpcore.Origin(b"http", b"ex.org", 80), stream, keepalive_expiry=None, clock=clock)
        stream.chunks = [b"HTTP/1.1 200 OK\r\nContent-Length: 5\r\n\r\nhello"]      # head and body arrive in one read
        resp = conn.handle_request(httpcore.Request("GET", "http://ex.org/", headers=[(b"Host", b"ex.org")]))
        states = [conn._state.name]
        conn.close()                                                                  # from outside, during the exchange
        states.append(conn._state.name)
        body = resp.read()                                                            # completes from h11's buffer
        resp.close()
        states.append(conn._state.name)
        return states, body, list(conn._lg)


def h1_model_lines(sc):
    ka = "none" if sc["ka"] is None else str(sc["ka"])
    return [f"life1 {ka} " + ",".join(sc["log"][:n] + [f"q@{now}:{r}"]) for n, now, r, _ in sc["checks"]]


def h1_model_cut(s):
    return "|".join(s.split(";")[-1].split("|")[:7])


# ------------------------------------------------------------------------------------------------- run both, compare

# schedules on which finding F-C12-e (fixed by 27c3d91) showed; they run first on every check run
STORED_H2 = [("trio", 298655518), ("trio", 398053497), ("trio", 319726813), ("trio", 599)]


def run(rec, driver, rng, n_h2, n_h1, label):
    """rec: propbase.Rec.  Returns number of oracle failures found."""
    bad = 0
    plan = list(STORED_H2) + [("trio" if i % 2 == 0 else "asyncio", rng.randrange(1 << 30)) for i in range(n_h2)]
    for runtime, seed in plan:
        sc = h2_scenario(seed, runtime)
        rec.evals += 1
        rec.distinct.add(("h2", tuple(sc["log"])))
        rec.dist[f"life-h2:{runtime}"] += 1
        for e in sc["log"]:
            rec.dist["life-h2-op:" + e.split("@")[0]] += 1
        for o in sc["oracle"]:
            bad += 1
            rec.fail("life-" + o["clause"], {"kind": "h2"}, {"scenario": {k: sc[k] for k in ("ka", "max_streams", "runtime", "seed", "steps")},
                                                               "log": sc["log"], "oracle": o, "replay_with": "connlife.h2_scenario(seed, runtime)"})
        if driver:
            ans = driver.run(h2_model_lines(sc))
            for (n, now, impl), m in zip(sc["checks"], ans):
                if model_cut(m) != impl:
                    rec.disagree("life-h2", {"seed": seed, "runtime": runtime, "log": sc["log"][:n], "now": now, "impl": impl, "model": m,
                                             "steps": sc["steps"]})
                    break
    if n_h1:
        states, body, log = h1_revive_replay()
        rec.evals += 1
        rec.dist["life-h1:witness h1_closed_revives replayed -> " + "/".join(states)] += 1
        if driver:
            ans = driver.run(["life1 none " + ",".join(log + ["q@0:0"])])[0]
            if h1_model_cut(ans).split("|")[0] != states[-1]:
                rec.disagree("life-h1", {"witness": "h1_closed_revives", "impl_states": states, "log": log, "model": ans})
    for i in range(n_h1):
        seed = rng.randrange(1 << 30)
        sc = h1_scenario(seed)
        rec.evals += 1
        rec.distinct.add(("h1", tuple(sc["log"])))
        rec.dist["life-h1"] += 1
        for e in sc["log"]:
            rec.dist["life-h1-op:" + e.split("@")[0]] += 1
        for o in sc["oracle"]:
            bad += 1
            rec.fail("life-" + o["clause"], {"kind": "h1"}, {"scenario": {k: sc[k] for k in ("ka", "seed", "steps")}, "log": sc["log"], "oracle": o,
                                                               "replay_with": "connlife.h1_scenario(seed)"})
        if driver:
            ans = driver.run(h1_model_lines(sc))
            for (n, now, r, impl), m in zip(sc["checks"], ans):
                if h1_model_cut(m) != impl:
                    rec.disagree("life-h1", {"seed": seed, "log": sc["log"][:n], "now": now, "readable": r, "impl": impl, "model": m, "steps": sc["steps"]})
                    break
    if n_h2:
        for rt in ("asyncio", "trio"):
            o = h2_reset_during_upload(rt)
            rec.evals += 1
            if o.get("inconclusive"):
                rec.dist["life-h2:reset-during-upload:inconclusive"] += 1
                continue
            rec.dist[f"life-h2:reset-during-upload:{o.get('outcome_a')}"] += 1
            if o.get("error") or o.get("outcome_a") != "RemoteProtocolError" or o.get("registered_after") != [] or o.get("state_after") != "IDLE":
                bad += 1
                rec.fail("life-failed-request-keeps-its-stream", {"kind": "h2"}, {"runtime": rt, "observed": o,
                                                                                    "replay_with": "connlife.h2_reset_during_upload(runtime)"})
    # a lock-step that never sees a completed exchange / an opened stream says nothing: treat a degenerate generator as a broken tie
    if n_h1 >= 100 and (rec.dist["life-h1-op:prog11"] == 0 or rec.dist["life-h1-op:prog00"] == 0 or rec.dist["life-h1-op:aclose"] == 0):
        rec.ctx.broken.append({"kind": "correspondence", "family": "life-h1", "what": "generator degenerate: no completed / failed / externally closed exchange"})
    if n_h2 >= 50 and (rec.dist["life-h2-op:open"] == 0 or rec.dist["life-h2-op:settle"] == 0 or rec.dist["life-h2-op:back0"] == 0):
        rec.ctx.broken.append({"kind": "correspondence", "family": "life-h2", "what": "generator degenerate: no stream opened / closed / request backed out"})
    return bad


if __name__ == "__main__":
    import sys
    import core
    core.use_repo()
    d = core.Driver()
    kind = sys.argv[1]
    for seed in range(int(sys.argv[2]), int(sys.argv[3])):
        if kind == "h1":
            sc = h1_scenario(seed)
            ans = d.run(h1_model_lines(sc))
            for (n, now, r, impl), m in zip(sc["checks"], ans):
                if h1_model_cut(m) != impl:
                    print("DISAGREE", seed, sc["log"][:n], now, r, "\n impl ", impl, "\n model", m)
                    break
            if sc["oracle"]:
                print("ORACLE", seed, sc["oracle"][:2], sc["steps"])
        else:
            sc = h2_scenario(seed, kind)
            ans = d.run(h2_model_lines(sc))
            for (n, now, impl), m in zip(sc["checks"], ans):
                if model_cut(m) != impl:
                    print("DISAGREE", seed, sc["log"][:n], now, "\n impl ", impl, "\n model", m, "\n", sc["steps"])
                    break
            if sc["oracle"]:
                print("ORACLE", seed, sc["oracle"][:2], sc["steps"])
    print("done")
