"""C18: one scenario, two variants.  A scenario is data (steps); it is interpreted against httpcore.ConnectionPool with the
synchronous simulated back end and against httpcore.AsyncConnectionPool with the asynchronous one (asyncio, nothing gated, so a
single task runs it start to end).  Observations: every network operation with its arguments, every step's result (status,
headers, body or exception class), the pool's connection states and the open sockets after every step."""
from __future__ import annotations

import simnet
import sweep


def gen_scenario(rng):
    kind = rng.choice(sweep.KINDS)
    steps = []
    for i in range(rng.randint(1, 4)):
        body = rng.choice([None, None, b"", b"abc", [b"ab", b"", b"cd"]])
        read = rng.choice(["all", "all", "all", "none", "one", "close-pool-inside"] if i else ["all", "all", "none", "one"])
        timeout = rng.choice([None, None, {"connect": 1.5, "read": 2.5, "write": 3.5, "pool": 4.5}, {"read": 7.0}])
        steps.append({"op": "request", "tok": f"t{i}", "origin": rng.choice([0, 0, 1]), "body": body, "read": read, "timeout": timeout})
    steps.append({"op": "close"})
    fault = None
    if rng.random() < 0.7:
        fault = (rng.randrange(0, 40), rng.random() < 0.3)
    return {"kind": kind, "max_connections": rng.choice([1, 2, 10]), "keepalive": rng.choice([None, 0, 1]), "retries": rng.choice([0, 0, 1]),
            "steps": steps, "fault": fault, "server_close": rng.random() < 0.2}


def _world(sc, is_async):
    w = sweep.build_world(sc["kind"], is_async, max_connections=sc["max_connections"], yield_in_ops=False, retries=sc["retries"])
    pool, net = w["pool"], w["net"]
    pool._max_keepalive_connections = sc["keepalive"] if sc["keepalive"] is not None else pool._max_keepalive_connections
    if sc["keepalive"] is not None:
        pool._max_keepalive_connections = min(sc["keepalive"], pool._max_connections)
    if sc["fault"] is not None:
        k, timeout = sc["fault"]

        class F:
            pass
        import httpcore

        def fault_for(rec):
            name = {"connect_tcp": "ConnectError", "connect_unix_socket": "ConnectError", "start_tls": "ConnectError",
                    "read": "ReadError", "write": "WriteError"}[rec["op"]]
            if timeout:
                name = name.replace("Error", "Timeout")
            raise getattr(httpcore, name)("injected")
        orig_fault = net.behavior._fault

        def _fault(rec):
            orig_fault(rec)
            if rec.get("k") == k:
                rec["fault"] = "injected"
                fault_for(rec)
        net.behavior._fault = _fault
    if sc.get("server_close"):
        import servers
        for_policy = servers.closing_policy
        orig_factory = net.behavior.peer_factory

        def factory(rec):
            p = orig_factory(rec)
            inner = p
            if hasattr(inner, "policy"):
                inner.policy = for_policy
            return p
        net.behavior.peer_factory = factory
    return w


def _norm_log(net):
    out = []
    for r in net.log:
        e = {k: r.get(k) for k in ("op", "sock", "timeout", "max_bytes", "host", "port", "server_hostname", "fault", "ret", "seconds")
             if r.get(k) is not None}
        if "data" in r:
            e["data"] = bytes(r["data"]).hex()
        if "alpn_offer" in r:
            e["alpn"] = r["alpn_offer"]
        out.append(e)
    return out


def _snap(pool, net):
    import re
    return {"conns": [re.sub(r"0x[0-9a-f]+", "", c.info()) for c in pool.connections], "open": list(net.open_sockets()),
            "requests": len(pool._requests)}


def _trace_item(name, info):
    """a trace call, reduced to what both flavours must agree on: the event, the keys of its info, and the exception it reports"""
    item = [name, sorted(info.keys())]
    if "exception" in info:
        e = info["exception"]
        if isinstance(e, GeneratorExit) or type(e).__name__ in ("CancelledError", "Cancelled"):
            # a body iterator that the caller stopped reading: a synchronous generator is closed at once, an asynchronous one when
            # the event loop finalises it - where this event falls among the others is Python's doing, not httpcore's
            return None
        item.append(type(e).__name__ + ":" + str(e)[:80] if isinstance(e, BaseException) else "not-an-exception-instance:" + repr(e)[:80])
    return item


def run_sync(sc):
    w = _world(sc, False)
    pool, net = w["pool"], w["net"]
    results = []
    for st in sc["steps"]:
        if st["op"] == "close":
            try:
                pool.close()
                results.append({"close": "ok", "snap": _snap(pool, net)})
            except BaseException as e:  # noqa
                results.append({"close": "error:" + type(e).__name__, "snap": _snap(pool, net)})
            continue
        r = {}
        try:
            body = st["body"]
            content = iter(body) if isinstance(body, list) else body
            ext = {"timeout": st["timeout"]} if st["timeout"] else {}
            r["trace"] = []
            ext["trace"] = lambda name, info, r=r: r["trace"].append(_trace_item(name, info)) if _trace_item(name, info) else None
            headers = [("Transfer-Encoding", "chunked")] if isinstance(body, list) else None
            with pool.stream("POST" if body is not None else "GET", w["url"](st["origin"], st["tok"]), content=content, extensions=ext,
                             headers=headers) as resp:
                r["status"] = resp.status
                r["headers"] = [(k.hex(), v.hex()) for k, v in resp.headers]
                r["http_version"] = resp.extensions.get("http_version", b"").decode()
                if st["read"] == "all":
                    r["body"] = b"".join(resp.iter_stream()).hex()
                elif st["read"] == "one":
                    for part in resp.iter_stream():
                        r["first"] = part.hex()
                        break
                elif st["read"] == "close-pool-inside":
                    pool.close()
                    r["body"] = b"".join(resp.iter_stream()).hex()
            r["outcome"] = "ok"
        except simnet.Starved:
            r["outcome"] = "starved"
        except BaseException as e:  # noqa
            r["outcome"] = "error:" + type(e).__name__
        r["snap"] = _snap(pool, net)
        results.append(r)
    return {"results": results, "log": _norm_log(net)}


def run_async(sc):
    import asyncio
    w = _world(sc, True)
    pool, net = w["pool"], w["net"]
    results = []

    async def agen(chunks):
        for c in chunks:
            yield c

    async def main():
        for st in sc["steps"]:
            if st["op"] == "close":
                try:
                    await pool.aclose()
                    results.append({"close": "ok", "snap": _snap(pool, net)})
                except BaseException as e:  # noqa
                    results.append({"close": "error:" + type(e).__name__, "snap": _snap(pool, net)})
                continue
            r = {}
            try:
                body = st["body"]
                content = agen(body) if isinstance(body, list) else body
                ext = {"timeout": st["timeout"]} if st["timeout"] else {}
                r["trace"] = []

                async def tracer(name, info, r=r):
                    if _trace_item(name, info):
                        r["trace"].append(_trace_item(name, info))
                ext["trace"] = tracer
                headers = [("Transfer-Encoding", "chunked")] if isinstance(body, list) else None
                async with pool.stream("POST" if body is not None else "GET", w["url"](st["origin"], st["tok"]), content=content, extensions=ext,
                                       headers=headers) as resp:
                    r["status"] = resp.status
                    r["headers"] = [(k.hex(), v.hex()) for k, v in resp.headers]
                    r["http_version"] = resp.extensions.get("http_version", b"").decode()
                    if st["read"] == "all":
                        r["body"] = b"".join([p async for p in resp.aiter_stream()]).hex()
                    elif st["read"] == "one":
                        async for part in resp.aiter_stream():
                            r["first"] = part.hex()
                            break
                    elif st["read"] == "close-pool-inside":
                        await pool.aclose()
                        r["body"] = b"".join([p async for p in resp.aiter_stream()]).hex()
                r["outcome"] = "ok"
            except simnet.Starved:
                r["outcome"] = "starved"
            except BaseException as e:  # noqa
                r["outcome"] = "error:" + type(e).__name__
            r["snap"] = _snap(pool, net)
            results.append(r)

    asyncio.run(main())
    return {"results": results, "log": _norm_log(net)}


def first_difference(a, b):
    if a["results"] != b["results"]:
        for i, (x, y) in enumerate(zip(a["results"], b["results"])):
            if x != y:
                keys = [k for k in set(x) | set(y) if x.get(k) != y.get(k)]
                return {"where": f"step {i}", "keys": keys, "sync": {k: x.get(k) for k in keys}, "async": {k: y.get(k) for k in keys}}
        return {"where": "number of steps"}
    if a["log"] != b["log"]:
        for i, (x, y) in enumerate(zip(a["log"], b["log"])):
            if x != y:
                return {"where": f"network operation {i}", "sync": x, "async": y}
        return {"where": "number of network operations", "sync": len(a["log"]), "async": len(b["log"]),
                "extra": (a["log"] + b["log"])[min(len(a["log"]), len(b["log"]))]}
    return None


# ---------------------------------------------------------------------------------------------------------------------
# the repository's own mock back ends (hand-written twins in httpcore/_backends/mock.py)
# ---------------------------------------------------------------------------------------------------------------------

def gen_mock_scenario(rng):
    full = [b"HTTP/1.1 200 OK\r\n", b"Content-Type: plain/text\r\n", b"Content-Length: 13\r\n", b"\r\n", b"Hello, world!"]
    kinds = {"full": full, "truncated-body": full[:4] + [b"Hello"], "truncated-head": full[:2], "empty": [],
             "two": full + full, "chunked": [b"HTTP/1.1 200 OK\r\nTransfer-Encoding: chunked\r\n\r\n", b"5\r\nHello\r\n", b"0\r\n\r\n"],
             "close-delimited": [b"HTTP/1.1 200 OK\r\n\r\n", b"abc"]}
    k = rng.choice(sorted(kinds))
    steps = []
    for i in range(rng.randint(1, 3)):
        steps.append(rng.choice(["request-read", "request-read", "request-noread", "request-one-then-close-conn", "request-close-pool-then-read",
                                 "request-one-close-conn-read"]))
    return {"buffer": k, "chunks": kinds[k], "steps": steps, "http2": False}


def run_mock(sc, is_async):
    import asyncio

    import httpcore
    results = []

    def conn_infos(pool):
        import re
        return [re.sub(r"0x[0-9a-f]+", "", c.info()) for c in pool.connections]

    if not is_async:
        pool = httpcore.ConnectionPool(network_backend=httpcore.MockBackend(list(sc["chunks"])))
        for st in sc["steps"]:
            r = {}
            try:
                with pool.stream("GET", "https://example.com/") as resp:
                    r["status"] = resp.status
                    if st == "request-read":
                        r["body"] = b"".join(resp.iter_stream()).hex()
                    elif st == "request-one-then-close-conn":
                        for p in resp.iter_stream():
                            r["first"] = p.hex()
                            break
                        for c in pool.connections:
                            c.close()
                    elif st == "request-one-close-conn-read":
                        it = resp.iter_stream()
                        for p in it:
                            r["first"] = p.hex()
                            break
                        for c in pool.connections:
                            c.close()
                        r["rest"] = b"".join(resp.iter_stream()).hex()
                    elif st == "request-close-pool-then-read":
                        pool.close()
                        r["body"] = b"".join(resp.iter_stream()).hex()
                r["outcome"] = "ok"
            except BaseException as e:  # noqa
                r["outcome"] = "error:" + type(e).__name__
            r["conns"] = conn_infos(pool)
            results.append(r)
        try:
            pool.close()
        except BaseException as e:  # noqa
            results.append({"close": type(e).__name__})
        return results

    async def main():
        pool = httpcore.AsyncConnectionPool(network_backend=httpcore.AsyncMockBackend(list(sc["chunks"])))
        for st in sc["steps"]:
            r = {}
            try:
                async with pool.stream("GET", "https://example.com/") as resp:
                    r["status"] = resp.status
                    if st == "request-read":
                        r["body"] = b"".join([p async for p in resp.aiter_stream()]).hex()
                    elif st == "request-one-then-close-conn":
                        async for p in resp.aiter_stream():
                            r["first"] = p.hex()
                            break
                        for c in pool.connections:
                            await c.aclose()
                    elif st == "request-one-close-conn-read":
                        async for p in resp.aiter_stream():
                            r["first"] = p.hex()
                            break
                        for c in pool.connections:
                            await c.aclose()
                        r["rest"] = b"".join([p async for p in resp.aiter_stream()]).hex()
                    elif st == "request-close-pool-then-read":
                        await pool.aclose()
                        r["body"] = b"".join([p async for p in resp.aiter_stream()]).hex()
                r["outcome"] = "ok"
            except BaseException as e:  # noqa
                r["outcome"] = "error:" + type(e).__name__
            r["conns"] = conn_infos(pool)
            results.append(r)
        try:
            await pool.aclose()
        except BaseException as e:  # noqa
            results.append({"close": type(e).__name__})
    asyncio.run(main())
    return results
