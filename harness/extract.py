"""Tie A: regenerate lean/HttpcoreModel/Generated.lean from the *current* source tree.

Only closed, table-like facts whose translation is unambiguous are extracted (constants, dict
literals, tuples in `except` clauses, scheme tests, time-out keys at call sites, exception maps).
Any shape that is not recognised raises ExtractError: the tie is then reported as broken instead
of guessing.  Output is deterministic, so an unchanged source regenerates a byte-identical file.
"""
from __future__ import annotations

import ast
import fractions
import os
import sys

EXC_NAMES = [
    "ConnectionNotAvailable", "ProxyError", "UnsupportedProtocol", "ProtocolError",
    "RemoteProtocolError", "LocalProtocolError", "TimeoutException", "PoolTimeout",
    "ConnectTimeout", "ReadTimeout", "WriteTimeout", "NetworkError", "ConnectError",
    "ReadError", "WriteError",
]


class ExtractError(Exception):
    pass


def _parse(repo, rel):
    path = os.path.join(repo, rel)
    with open(path, "r") as f:
        src = f.read()
    return ast.parse(src, filename=path)


def _find_func(tree, name, cls=None):
    for node in ast.walk(tree):
        if cls is not None:
            if isinstance(node, ast.ClassDef) and node.name == cls:
                for sub in node.body:
                    if isinstance(sub, (ast.FunctionDef, ast.AsyncFunctionDef)) and sub.name == name:
                        return sub
        elif isinstance(node, (ast.FunctionDef, ast.AsyncFunctionDef)) and node.name == name:
            return node
    raise ExtractError(f"function {cls or ''}.{name} not found")


def _const(node):
    if isinstance(node, ast.Constant):
        return node.value
    if isinstance(node, ast.UnaryOp) and isinstance(node.op, ast.USub) and isinstance(node.operand, ast.Constant):
        return -node.operand.value
    if isinstance(node, ast.BinOp) and isinstance(node.op, ast.Mult):
        return _const(node.left) * _const(node.right)
    if isinstance(node, ast.BinOp) and isinstance(node.op, ast.Pow):
        return _const(node.left) ** _const(node.right)
    raise ExtractError(f"not a constant: {ast.dump(node)}")


def lean_str(s):
    return '"' + s.replace("\\", "\\\\").replace('"', '\\"') + '"'


def lean_list(items):
    return "[" + ", ".join(items) + "]"


def lean_bytes(b: bytes):
    return lean_list(str(x) for x in b)


# ---------------------------------------------------------------------------------------------
# exception tree
# ---------------------------------------------------------------------------------------------

def exc_tree(repo):
    tree = _parse(repo, "httpcore/_exceptions.py")
    parents = {}
    for node in tree.body:
        if isinstance(node, ast.ClassDef):
            if len(node.bases) != 1 or not isinstance(node.bases[0], ast.Name):
                raise ExtractError(f"exception class {node.name}: unexpected bases")
            parents[node.name] = node.bases[0].id
    for n in EXC_NAMES:
        if n not in parents:
            raise ExtractError(f"exception class {n} missing from _exceptions.py")
    for n in parents:
        if n not in EXC_NAMES:
            raise ExtractError(f"unknown exception class {n} in _exceptions.py (model has no constructor for it)")
    return parents


def subclasses_closure(names, parents):
    """All model exception constructors caught by `except (names)`.

    'Exception' catches every httpcore class and `other`; 'BaseException' additionally `cancelled`.
    """
    out = []
    for n in EXC_NAMES:
        cur = n
        while cur is not None:
            if cur in names:
                out.append(n)
                break
            cur = parents.get(cur) if cur in parents else ("BaseException" if cur == "Exception" else None)
    if "Exception" in names or "BaseException" in names:
        out.append("other")
    if "BaseException" in names:
        out.append("cancelled")
    return out


# ---------------------------------------------------------------------------------------------
# C20: back-off and retry loop
# ---------------------------------------------------------------------------------------------

def extract_backoff(repo, parents):
    tree = _parse(repo, "httpcore/_async/connection.py")
    factor = None
    for node in tree.body:
        if isinstance(node, ast.Assign) and len(node.targets) == 1 and getattr(node.targets[0], "id", None) == "RETRIES_BACKOFF_FACTOR":
            factor = fractions.Fraction(str(_const(node.value)))
    if factor is None or factor < 0:
        raise ExtractError("RETRIES_BACKOFF_FACTOR not found / negative")
    fn = _find_func(tree, "exponential_backoff")
    body = [s for s in fn.body if not (isinstance(s, ast.Expr) and isinstance(s.value, ast.Constant) and isinstance(s.value.value, str))]
    # expected: `yield <c0>` ; `for n in itertools.count(): yield factor * <base>**n`
    if len(body) != 2:
        raise ExtractError("exponential_backoff: unexpected body shape")
    y0, loop = body
    if not (isinstance(y0, ast.Expr) and isinstance(y0.value, ast.Yield)):
        raise ExtractError("exponential_backoff: first statement is not a yield")
    first = fractions.Fraction(str(_const(y0.value.value)))
    if not (isinstance(loop, ast.For) and isinstance(loop.iter, ast.Call) and ast.unparse(loop.iter) == "itertools.count()"
            and len(loop.body) == 1 and isinstance(loop.body[0], ast.Expr) and isinstance(loop.body[0].value, ast.Yield)):
        raise ExtractError("exponential_backoff: loop shape not recognised")
    y = loop.body[0].value.value
    var = loop.target.id
    ok = (isinstance(y, ast.BinOp) and isinstance(y.op, ast.Mult) and isinstance(y.left, ast.Name) and y.left.id == "factor"
          and isinstance(y.right, ast.BinOp) and isinstance(y.right.op, ast.Pow)
          and isinstance(y.right.right, ast.Name) and y.right.right.id == var)
    if not ok:
        raise ExtractError("exponential_backoff: yield expression is not `factor * <base>**n`")
    base = _const(y.right.left)
    if not isinstance(base, int) or base < 0:
        raise ExtractError("exponential_backoff: base is not a natural number")

    # the retry loop of _connect
    conn = _find_func(tree, "_connect", cls="AsyncHTTPConnection")
    loops = [n for n in conn.body if isinstance(n, ast.While)]
    if len(loops) != 1 or ast.unparse(loops[0].test) != "True" or len(loops[0].body) != 1 or not isinstance(loops[0].body[0], ast.Try):
        raise ExtractError("_connect: expected `while True:` whose body is one try statement")
    handlers = loops[0].body[0].handlers
    if len(handlers) != 1:
        raise ExtractError("_connect: the retry loop's try statement must have exactly one except clause")
    h = handlers[0]
    if h.type is None:
        names = ["BaseException"]
    elif isinstance(h.type, ast.Tuple):
        names = [ast.unparse(e).split(".")[-1] for e in h.type.elts]
    else:
        names = [ast.unparse(h.type).split(".")[-1]]
    retryable = subclasses_closure(names, parents)
    # `if retries_left <= 0: raise` ; `retries_left -= 1`
    tests = [n for n in h.body if isinstance(n, ast.If)]
    if len(tests) != 1 or not (len(tests[0].body) == 1 and isinstance(tests[0].body[0], ast.Raise) and tests[0].body[0].exc is None):
        raise ExtractError("_connect: handler does not start with `if <test>: raise`")
    t = tests[0].test
    if not (isinstance(t, ast.Compare) and isinstance(t.left, ast.Name) and t.left.id == "retries_left"
            and len(t.ops) == 1 and isinstance(t.ops[0], (ast.LtE, ast.Lt, ast.Eq))):
        raise ExtractError("_connect: give-up test is not `retries_left <=|<|== c`")
    giveup_const = _const(t.comparators[0])
    giveup_op = {ast.LtE: "le", ast.Lt: "lt", ast.Eq: "eq"}[type(t.ops[0])]
    decs = [n for n in h.body if isinstance(n, ast.AugAssign) and isinstance(n.op, ast.Sub) and getattr(n.target, "id", "") == "retries_left"]
    if len(decs) != 1 or _const(decs[0].value) != 1:
        raise ExtractError("_connect: `retries_left -= 1` not found")
    # initial value: retries_left = self._retries
    inits = [n for n in conn.body if isinstance(n, ast.Assign) and getattr(n.targets[0], "id", "") == "retries_left"]
    if len(inits) != 1 or ast.unparse(inits[0].value) != "self._retries":
        raise ExtractError("_connect: `retries_left = self._retries` not found")
    dl = [n for n in conn.body if isinstance(n, ast.Assign) and getattr(n.targets[0], "id", "") == "delays"]
    if len(dl) != 1 or ast.unparse(dl[0].value) != "exponential_backoff(factor=RETRIES_BACKOFF_FACTOR)":
        raise ExtractError("_connect: `delays = exponential_backoff(factor=RETRIES_BACKOFF_FACTOR)` not found")
    den = factor.denominator * first.denominator
    L = []
    L.append("/-- `RETRIES_BACKOFF_FACTOR` as an exact rational `backoffNum / backoffDen` -/")
    L.append(f"def backoffNum : Nat := {factor.numerator * first.denominator}")
    L.append(f"def backoffDen : Nat := {den}")
    L.append(f"/-- first value yielded by `exponential_backoff`, in units of 1/backoffDen -/")
    L.append(f"def backoffFirstScaled : Nat := {first.numerator * factor.denominator}")
    L.append(f"def backoffBase : Nat := {base}")
    L.append("/-- model exception constructors caught by the `except` clause of `_connect` -/")
    L.append("def retryable : List Exc := " + lean_list("." + n for n in retryable))
    L.append(f"/-- the give-up test `retries_left {giveup_op} {giveup_const}` -/")
    L.append(f"def giveUp (retriesLeft : Int) : Bool := " + {
        "le": f"decide (retriesLeft ≤ {giveup_const})",
        "lt": f"decide (retriesLeft < {giveup_const})",
        "eq": f"decide (retriesLeft = {giveup_const})"}[giveup_op])
    return L


# ---------------------------------------------------------------------------------------------
# C19 / C10: ports, origin, URL parsing entry point
# ---------------------------------------------------------------------------------------------

def _bytes_int_dict(node, what):
    if not isinstance(node, ast.Dict):
        raise ExtractError(f"{what}: not a dict literal")
    rows = []
    for k, v in zip(node.keys, node.values):
        kk, vv = _const(k), _const(v)
        if not isinstance(kk, bytes) or not isinstance(vv, int) or vv < 0:
            raise ExtractError(f"{what}: entry is not bytes -> natural number")
        rows.append((kk, vv))
    return rows


def _lean_ports(rows):
    return lean_list(f"({lean_bytes(k)}, {v})" for k, v in rows)


def extract_models(repo, parents):
    tree = _parse(repo, "httpcore/_models.py")
    dp = None
    for node in tree.body:
        if isinstance(node, ast.Assign) and getattr(node.targets[0], "id", None) == "DEFAULT_PORTS":
            dp = _bytes_int_dict(node.value, "DEFAULT_PORTS")
    if dp is None:
        raise ExtractError("DEFAULT_PORTS not found")
    init = _find_func(tree, "__init__", cls="URL")
    calls = [n for n in ast.walk(init) if isinstance(n, ast.Call) and ast.unparse(n.func).startswith("urllib.parse.")]
    if len(calls) != 1:
        raise ExtractError("URL.__init__: expected exactly one urllib.parse call")
    fn = ast.unparse(calls[0].func).split(".")[-1]
    if fn not in ("urlparse", "urlsplit"):
        raise ExtractError(f"URL.__init__: unexpected parser urllib.parse.{fn}")
    if len(calls[0].args) != 1 or calls[0].keywords:
        raise ExtractError("URL.__init__: parser called with extra arguments")
    org = _find_func(tree, "origin", cls="URL")
    dicts = [n for n in ast.walk(org) if isinstance(n, ast.Subscript) and isinstance(n.value, ast.Dict)]
    if len(dicts) != 1 or ast.unparse(dicts[0].slice) != "self.scheme":
        raise ExtractError("URL.origin: `{...}[self.scheme]` not found")
    od = _bytes_int_dict(dicts[0].value, "URL.origin default ports")
    ocalls = [n for n in ast.walk(org) if isinstance(n, ast.Call) and ast.unparse(n.func) == "Origin"]
    if len(ocalls) != 1:
        raise ExtractError("URL.origin: Origin(...) call not found")
    kws = {k.arg: k.value for k in ocalls[0].keywords}
    if ast.unparse(kws.get("scheme")) != "self.scheme" or ast.unparse(kws.get("host")) != "self.host":
        raise ExtractError("URL.origin: scheme/host arguments changed")
    pexpr = ast.unparse(kws.get("port"))
    if pexpr == "self.port or default_port":
        uses_or = True
    elif pexpr in ("default_port if self.port is None else self.port", "self.port if self.port is not None else default_port"):
        uses_or = False
    else:
        raise ExtractError(f"URL.origin: port expression not recognised: {pexpr}")
    L = []
    L.append("/-- `_models.DEFAULT_PORTS` (used for the synthesised Host header) -/")
    L.append("def hostDefaultPorts : List (Bytes × Nat) := " + _lean_ports(dp))
    L.append("/-- the dict literal in `URL.origin` -/")
    L.append("def originDefaultPorts : List (Bytes × Nat) := " + _lean_ports(od))
    L.append(f"/-- `URL.__init__` calls urllib.parse.{fn} -/")
    L.append("def urlUsesParamSplit : Bool := " + ("true" if fn == "urlparse" else "false"))
    L.append(f"/-- `URL.origin` computes the port as `{pexpr}` -/")
    L.append("def originPortUsesOr : Bool := " + ("true" if uses_or else "false"))
    return L


# ---------------------------------------------------------------------------------------------
# pool: the surplus-idle test
# ---------------------------------------------------------------------------------------------

def extract_pool(repo, parents):
    tree = _parse(repo, "httpcore/_async/connection_pool.py")
    fn = _find_func(tree, "_assign_requests_to_connections", cls="AsyncConnectionPool")
    cmps = [n for n in ast.walk(fn) if isinstance(n, ast.Compare) and len(n.comparators) == 1
            and ast.unparse(n.comparators[0]) == "self._max_keepalive_connections"]
    if len(cmps) != 1 or not isinstance(cmps[0].ops[0], ast.Gt):
        raise ExtractError("_assign_requests_to_connections: `<count> > self._max_keepalive_connections` not found exactly once")
    left = cmps[0].left
    txt = ast.unparse(left)
    idle_only = None
    if isinstance(left, ast.Call) and ast.unparse(left.func) == "len" and len(left.args) == 1 and isinstance(left.args[0], ast.ListComp):
        lc = left.args[0]
        if len(lc.generators) == 1 and ast.unparse(lc.generators[0].iter) == "self._connections":
            var = ast.unparse(lc.generators[0].target)
            ifs = [ast.unparse(i) for i in lc.generators[0].ifs]
            if not ifs and ast.unparse(lc.elt) == f"{var}.is_idle()":
                idle_only = False          # a list of booleans: its length is the number of ALL connections
            elif ifs == [f"{var}.is_idle()"]:
                idle_only = True
    if idle_only is None:
        raise ExtractError(f"surplus-idle count expression not recognised: {txt}")
    lims = [n for n in ast.walk(fn) if isinstance(n, ast.Compare) and ast.unparse(n) == "len(self._connections) < self._max_connections"]
    if len(lims) != 1:
        raise ExtractError("`len(self._connections) < self._max_connections` not found exactly once")
    # reservation: idle connections that have been handed to a request are exempt from the surplus rule and from eviction for room
    src = ast.unparse(fn)
    marks = ["reserved = [request.connection for request in self._requests if request.connection is not None]",
             "connection.is_idle() and connection not in reserved and (len(",
             "idle_connections = [connection for connection in self._connections if connection.is_idle() and connection not in reserved]",
             "pool_request.assign_to_connection(connection)\n            reserved.append(connection)"]
    present = [m in src for m in marks]
    if any(present) and not all(present):
        raise ExtractError("_assign_requests_to_connections: `reserved` is used in some but not all of the places the model knows")
    if not any(present) and "reserved" in src:
        raise ExtractError("_assign_requests_to_connections: unknown use of `reserved`")
    # the house-keeping loop: an if / elif chain whose branches the model knows, in this order
    loops = [n for n in fn.body if isinstance(n, ast.For) and ast.unparse(n.iter) == "list(self._connections)"]
    if len(loops) != 1 or len(loops[0].body) != 1 or not isinstance(loops[0].body[0], ast.If):
        raise ExtractError("_assign_requests_to_connections: house-keeping loop `for connection in list(self._connections): if ...` not found")
    chain, node = [], loops[0].body[0]
    while True:
        chain.append((ast.unparse(node.test), [ast.unparse(b) for b in node.body]))
        if len(node.orelse) == 1 and isinstance(node.orelse[0], ast.If):
            node = node.orelse[0]
        elif not node.orelse:
            break
        else:
            raise ExtractError("house-keeping loop: unexpected else branch")
    drop, close = ["self._connections.remove(connection)"], ["self._connections.remove(connection)", "closing_connections.append(connection)"]
    if len(chain) < 3 or chain[0] != ("connection.is_closed()", drop) or chain[1] != ("connection.has_expired()", close) \
            or not chain[2][0].startswith("connection.is_idle() and ") or chain[2][1] != close:
        raise ExtractError(f"house-keeping loop: the closed / expired / surplus-idle branches are not the ones the model knows: {chain[:3]}")
    reclaim = False
    if len(chain) == 4:
        if chain[3] != ("connection not in reserved and (not connection.is_idle())", close):
            raise ExtractError(f"house-keeping loop: fourth branch not recognised: {chain[3]}")
        if not all(present):
            raise ExtractError("house-keeping loop: the abandoned-connection rule is there without the reservation list")
        reclaim = True
    elif len(chain) != 3:
        raise ExtractError(f"house-keeping loop: {len(chain)} branches")
    # the chain itself, as a decision function: which branch takes a connection, and does that branch close it
    atoms = {"connection.is_closed()": "closed", "connection.has_expired()": "expired", "connection.is_idle()": "idle",
             "connection not in reserved": "(!reserved)", "connection in reserved": "reserved",
             "len([c for c in self._connections if c.is_idle()]) > self._max_keepalive_connections": "decide (idleNow > maxKeepalive)",
             "len([c.is_idle() for c in self._connections]) > self._max_keepalive_connections": "decide (total > maxKeepalive)"}

    def trc(e):
        t = ast.unparse(e)
        if t in atoms:
            return atoms[t]
        if isinstance(e, ast.BoolOp):
            return "(" + (" && " if isinstance(e.op, ast.And) else " || ").join(trc(v) for v in e.values) + ")"
        if isinstance(e, ast.UnaryOp) and isinstance(e.op, ast.Not):
            return "(!" + trc(e.operand) + ")"
        raise ExtractError(f"house-keeping loop: test not recognised: {t}")
    node, k, dec = loops[0].body[0], 0, ""
    while True:
        body = [ast.unparse(b) for b in node.body]
        if body not in (drop, close):
            raise ExtractError(f"house-keeping loop: branch body not recognised: {body}")
        dec += f"if {trc(node.test)} then ({k}, {'true' if body == close else 'false'}) else "
        k += 1
        if len(node.orelse) == 1 and isinstance(node.orelse[0], ast.If):
            node = node.orelse[0]
        else:
            break
    dec += f"({k}, false)"
    # the assignment loop's chain: reuse / create / evict-and-create / wait
    aloops = [n for n in fn.body if isinstance(n, ast.For) and ast.unparse(n.iter) == "queued_requests"]
    if len(aloops) != 1:
        raise ExtractError("_assign_requests_to_connections: `for pool_request in queued_requests` not found")
    achain = [n for n in aloops[0].body if isinstance(n, ast.If)]
    if len(achain) != 1:
        raise ExtractError("assignment loop: exactly one if / elif chain expected")
    aatoms = {"available_connections": "availNonEmpty", "idle_connections": "idleNonEmpty",
              "len(self._connections) < self._max_connections": "decide (len < maxConn)"}
    node, k, adec = achain[0], 0, ""
    while True:
        t = ast.unparse(node.test)
        if t not in aatoms:
            raise ExtractError(f"assignment loop: test not recognised: {t}")
        body = ast.unparse(node.body)
        creates = "self.create_connection(origin)" in body
        evicts = "self._connections.remove(connection)" in body and "closing_connections.append(connection)" in body
        assigns = "pool_request.assign_to_connection(connection)" in body
        if not assigns:
            raise ExtractError("assignment loop: a branch does not assign a connection")
        adec += f"if {aatoms[t]} then ({k}, {'true' if creates else 'false'}, {'true' if evicts else 'false'}) else "
        k += 1
        if len(node.orelse) == 1 and isinstance(node.orelse[0], ast.If):
            node = node.orelse[0]
        elif not node.orelse:
            break
        else:
            raise ExtractError("assignment loop: unexpected else branch")
    adec += f"({k}, false, false)"
    assign_lines = ["/-- the if / elif chain of the assignment loop, translated: (index of the branch - the last index means \"keeps waiting\" -, does it",
                    "create a connection, does it evict an idle one first) -/",
                    "def poolAssignDecision (availNonEmpty idleNonEmpty : Bool) (len maxConn : Nat) : Nat × Bool × Bool :=",
                    "  " + adec]
    return assign_lines + ["/-- the if / elif chain of the house-keeping loop, translated: (index of the branch that takes the connection - the last index means",
            "\"kept\" -, does that branch hand it to `_close_connections`) -/",
            "def poolCleanupDecision (closed expired idle reserved : Bool) (idleNow total maxKeepalive : Nat) : Nat × Bool :=",
            "  " + dec,
            f"/-- the surplus-idle test compares `{txt}` with the keep-alive limit -/",
            "def poolCountsIdleOnly : Bool := " + ("true" if idle_only else "false"),
            "/-- the house-keeping loop closes a connection that is neither idle nor held by a request in the queue -/",
            "def poolReclaimsAbandoned : Bool := " + ("true" if reclaim else "false"),
            "/-- an idle connection handed to a request that has not started on it yet is exempt from the surplus rule and from eviction -/",
            "def poolProtectsAssigned : Bool := " + ("true" if all(present) else "false")]


# ---------------------------------------------------------------------------------------------
# C16: which time-out key reaches which network operation (every call site, reached by a scenario or not)
# ---------------------------------------------------------------------------------------------

NET_METHODS = {"read": "read", "write": "write", "connect_tcp": "connect", "connect_unix_socket": "connect", "start_tls": "connect"}
POSITIONAL_TIMEOUT = {"read": 1, "write": 1, "start_tls": 2, "connect_tcp": 2, "connect_unix_socket": 1}


def _func_defs(tree):
    out = []
    for node in ast.walk(tree):
        if isinstance(node, ast.ClassDef):
            for sub in node.body:
                if isinstance(sub, (ast.FunctionDef, ast.AsyncFunctionDef)):
                    out.append((node.name, sub))
    for node in tree.body:
        if isinstance(node, (ast.FunctionDef, ast.AsyncFunctionDef)):
            out.append(("", node))
    return out


def _resolve_timeout(expr, fn):
    """-> ('key', k) | ('param', name) | ('none',) | ('unknown', text)"""
    if expr is None:
        return ("none",)
    if isinstance(expr, ast.Constant) and expr.value is None:
        return ("none",)
    if isinstance(expr, ast.Name):
        params = [a.arg for a in fn.args.args + fn.args.kwonlyargs]
        assigns = [n for n in ast.walk(fn) if isinstance(n, ast.Assign) and len(n.targets) == 1 and getattr(n.targets[0], "id", None) == expr.id]
        keys = set()
        for a in assigns:
            v = a.value
            if (isinstance(v, ast.Call) and ast.unparse(v.func) == "timeouts.get" and v.args and isinstance(v.args[0], ast.Constant)):
                keys.add(v.args[0].value)
            else:
                return ("unknown", ast.unparse(v))
        if len(keys) == 1:
            return ("key", keys.pop())
        if not keys and expr.id in params:
            return ("param", expr.id)
    return ("unknown", ast.unparse(expr))


def extract_timeouts(repo, parents):
    rows = []
    for mod in ("connection", "http11", "http2", "http_proxy", "socks_proxy", "connection_pool"):
        tree = _parse(repo, f"httpcore/_async/{mod}.py")
        defs = _func_defs(tree)
        for cls, fn in defs:
            # dict literals bound to `kwargs` carry the time-out of a following `**kwargs` call
            kwargs_timeouts = []
            for n in ast.walk(fn):
                if isinstance(n, ast.Assign) and getattr(n.targets[0], "id", None) == "kwargs" and isinstance(n.value, ast.Dict):
                    d = {ast.literal_eval(k): v for k, v in zip(n.value.keys, n.value.values) if isinstance(k, ast.Constant)}
                    kwargs_timeouts.append((n.lineno, d.get("timeout")))
            for call in [n for n in ast.walk(fn) if isinstance(n, ast.Call) and isinstance(n.func, ast.Attribute) and n.func.attr in NET_METHODS]:
                op = call.func.attr
                recv = ast.unparse(call.func.value)
                if recv in ("self", "super()"):
                    continue
                if op in ("read", "write") and not any(x in recv for x in ("stream", "_network_stream")):
                    continue
                expr = None
                kw = {k.arg: k.value for k in call.keywords if k.arg}
                if "timeout" in kw:
                    expr = kw["timeout"]
                elif any(k.arg is None for k in call.keywords):       # **kwargs
                    prev = [t for ln, t in kwargs_timeouts if ln < call.lineno]
                    expr = prev[-1] if prev else None
                elif len(call.args) > POSITIONAL_TIMEOUT[op]:
                    expr = call.args[POSITIONAL_TIMEOUT[op]]
                res = _resolve_timeout(expr, fn)
                rows.append([mod, (cls + "." if cls else "") + fn.name, op, res, fn, tree, cls])
    # one interprocedural step: a parameter is resolved through the callers in the same module
    out = []
    for mod, fname, op, res, fn, tree, cls in rows:
        if res[0] == "param":
            keys = set()
            for c2, f2 in _func_defs(tree):
                for call in [n for n in ast.walk(f2) if isinstance(n, ast.Call) and isinstance(n.func, ast.Attribute) and n.func.attr == fn.name
                             and ast.unparse(n.func.value) == "self" and c2 == cls]:
                    kw = {k.arg: k.value for k in call.keywords if k.arg}
                    r2 = _resolve_timeout(kw.get("timeout"), f2) if "timeout" in kw else ("none",)
                    keys.add(r2)
            if not keys and cls == "":
                # a module-level helper: callers use its bare name, possibly with a kwargs dict literal
                for c2, f2 in _func_defs(tree):
                    kd = []
                    for n in ast.walk(f2):
                        if isinstance(n, ast.Assign) and getattr(n.targets[0], "id", None) == "kwargs" and isinstance(n.value, ast.Dict):
                            d = {ast.literal_eval(k): v for k, v in zip(n.value.keys, n.value.values) if isinstance(k, ast.Constant)}
                            kd.append((n.lineno, d.get("timeout")))
                    for call in [n for n in ast.walk(f2) if isinstance(n, ast.Call) and isinstance(n.func, ast.Name) and n.func.id == fn.name]:
                        kw = {k.arg: k.value for k in call.keywords if k.arg}
                        if "timeout" in kw:
                            keys.add(_resolve_timeout(kw["timeout"], f2))
                        elif any(k.arg is None for k in call.keywords):
                            prev = [t for ln, t in kd if ln < call.lineno]
                            keys.add(_resolve_timeout(prev[-1] if prev else None, f2))
                        else:
                            keys.add(("none",))
            if not keys:
                res = ("caller", res[1])       # public pass-through (e.g. the upgrade stream handed to the caller)
            elif len(keys) == 1:
                res = keys.pop()
            else:
                res = ("unknown", "callers disagree: " + repr(sorted(keys)))
        if res[0] == "unknown":
            raise ExtractError(f"time-out argument of {mod}.{fname} {op} not understood: {res[1]}")
        out.append((mod, fname, op, res))
    out = sorted(set(out), key=repr)
    L = ["/-- every call of a network operation in `_async/*.py`: (module, function, operation, time-out key that reaches it);",
         "`none` = no time-out is passed, `caller` = the caller of a public pass-through supplies it -/",
         "def timeoutSites : List (String × String × String × String) := ["]
    items = []
    for mod, fname, op, res in out:
        key = res[1] if res[0] == "key" else res[0]
        items.append(f"  ({lean_str(mod)}, {lean_str(fname)}, {lean_str(op)}, {lean_str(key)})")
    L.append(",\n".join(items) + "]")
    return L


# ---------------------------------------------------------------------------------------------
# C10: the scheme tests that select the connection kind and decide about TLS
# ---------------------------------------------------------------------------------------------

def _scheme_test(node, subject):
    """`<subject> == b"x"` or `<subject> in (b"x", b"y")` -> list of bytes"""
    if isinstance(node, ast.Compare) and len(node.ops) == 1 and ast.unparse(node.left) == subject:
        c = node.comparators[0]
        if isinstance(node.ops[0], ast.Eq) and isinstance(c, ast.Constant) and isinstance(c.value, bytes):
            return [c.value]
        if isinstance(node.ops[0], ast.In) and isinstance(c, (ast.Tuple, ast.List)) and all(isinstance(e, ast.Constant) and isinstance(e.value, bytes) for e in c.elts):
            return [e.value for e in c.elts]
    return None


def _find_scheme_tests(fn, subject):
    out = []
    for n in ast.walk(fn):
        if isinstance(n, ast.Compare):
            r = _scheme_test(n, subject)
            if r is not None:
                out.append((n, r))
    return out


def _guards_start_tls(fn, subject):
    """the scheme test guarding the (single) start_tls call of fn; None if the call is unconditional"""
    calls = [n for n in ast.walk(fn) if isinstance(n, ast.Call) and isinstance(n.func, ast.Attribute) and n.func.attr == "start_tls"]
    if len(calls) != 1:
        raise ExtractError(f"{fn.name}: expected exactly one start_tls call")
    call = calls[0]
    guards = []
    for n in ast.walk(fn):
        if isinstance(n, ast.If) and any(c is call for b in n.body for c in ast.walk(b)):
            r = _scheme_test(n.test, subject)
            if r is None:
                # tests that are not about the scheme ("not yet connected") are allowed only in this known form
                if ast.unparse(n.test) not in ("self._connection is None", "not self._connected", "self._uds is None"):
                    raise ExtractError(f"{fn.name}: start_tls is guarded by a test that is not understood: {ast.unparse(n.test)}")
                continue
            guards.append(r)
    if len(guards) > 1:
        raise ExtractError(f"{fn.name}: start_tls is guarded by several scheme tests")
    return guards[0] if guards else None


def extract_schemes(repo, parents):
    L = []
    conn = _parse(repo, "httpcore/_async/connection.py")
    g = _guards_start_tls(_find_func(conn, "_connect", cls="AsyncHTTPConnection"), "self._origin.scheme")
    if g is None:
        raise ExtractError("_connect: start_tls is not guarded by a scheme test")
    L.append("/-- direct connections: TLS iff the origin scheme is one of these -/")
    L.append("def directTlsSchemes : List Bytes := " + lean_list(lean_bytes(b) for b in g))
    pool = _parse(repo, "httpcore/_async/connection_pool.py")
    cc = _find_func(pool, "create_connection", cls="AsyncConnectionPool")
    socks = _find_scheme_tests(cc, "self._proxy.url.scheme")
    fwd = _find_scheme_tests(cc, "origin.scheme")
    if len(socks) != 1 or len(fwd) != 1:
        raise ExtractError("create_connection: expected one proxy-scheme test and one origin-scheme test")
    L.append("/-- proxy URL schemes that select a SOCKS5 connection -/")
    L.append("def socksProxySchemes : List Bytes := " + lean_list(lean_bytes(b) for b in socks[0][1]))
    L.append("/-- origin schemes that are *forwarded* through an HTTP proxy (all others are tunnelled with CONNECT) -/")
    L.append("def forwardSchemes : List Bytes := " + lean_list(lean_bytes(b) for b in fwd[0][1]))
    sp = _parse(repo, "httpcore/_async/socks_proxy.py")
    g = _guards_start_tls(_find_func(sp, "handle_async_request", cls="AsyncSocks5Connection"), "self._remote_origin.scheme")
    if g is None:
        raise ExtractError("socks: start_tls is not guarded by a scheme test")
    L.append("/-- SOCKS5 connections: TLS iff the origin scheme is one of these -/")
    L.append("def socksTlsSchemes : List Bytes := " + lean_list(lean_bytes(b) for b in g))
    hp = _parse(repo, "httpcore/_async/http_proxy.py")
    g = _guards_start_tls(_find_func(hp, "handle_async_request", cls="AsyncTunnelHTTPConnection"), "self._remote_origin.scheme")
    L.append("/-- CONNECT tunnels: `none` = the stream is always upgraded to TLS; `some l` = iff the origin scheme is in `l` -/")
    L.append("def tunnelTlsSchemes : Option (List Bytes) := " + ("none" if g is None else "some " + lean_list(lean_bytes(b) for b in g)))
    # supported schemes test in the pool
    har = _find_func(pool, "handle_async_request", cls="AsyncConnectionPool")
    sup = [n for n in ast.walk(har) if isinstance(n, ast.Compare) and isinstance(n.ops[0], ast.NotIn) and ast.unparse(n.left) == "scheme"]
    if len(sup) != 1 or not isinstance(sup[0].comparators[0], (ast.Tuple, ast.List)):
        raise ExtractError("pool.handle_async_request: `scheme not in (...)` not found")
    L.append("/-- schemes the pool accepts -/")
    L.append("def supportedSchemes : List Bytes := " + lean_list(lean_bytes(e.value.encode()) for e in sup[0].comparators[0].elts))
    return L


# ---------------------------------------------------------------------------------------------
# C15: exception maps of the back ends, map_exceptions sites of the async package
# ---------------------------------------------------------------------------------------------

def _exc_ctor(name):
    base = name.split(".")[-1]
    return "." + base if base in EXC_NAMES else None


def extract_exception_maps(repo, parents):
    rows = []
    for backend in ("sync", "anyio", "trio"):
        tree = _parse(repo, f"httpcore/_backends/{backend}.py")
        for cls, fn in _func_defs(tree):
            for n in ast.walk(fn):
                value = None
                if isinstance(n, ast.AnnAssign) and getattr(n.target, "id", "") == "exc_map":
                    value = n.value
                elif isinstance(n, ast.Assign) and getattr(n.targets[0], "id", "") == "exc_map":
                    value = n.value
                if value is None:
                    continue
                if not isinstance(value, ast.Dict):
                    raise ExtractError(f"{backend}.{cls}.{fn.name}: exc_map is not a dict literal")
                pairs = []
                for k, v in zip(value.keys, value.values):
                    tgt = _exc_ctor(ast.unparse(v))
                    if tgt is None:
                        raise ExtractError(f"{backend}.{cls}.{fn.name}: exc_map maps to a class that is not an httpcore exception: {ast.unparse(v)}")
                    pairs.append((ast.unparse(k), tgt))
                rows.append((backend, cls, fn.name, pairs))
    if len(rows) < 9:
        raise ExtractError("fewer back-end exception maps than expected")
    L = ["/-- `exc_map` literals of the three back ends: (back end, class, method, [(source class, httpcore class)]) -/",
         "def backendExcMaps : List (String × String × String × List (String × Exc)) := ["]
    L.append(",\n".join("  (%s, %s, %s, %s)" % (lean_str(b), lean_str(c), lean_str(m), lean_list("(%s, %s)" % (lean_str(k), t) for k, t in pairs))
                         for b, c, m, pairs in sorted(rows)) + "]")
    sites = []
    for mod in ("connection", "http11", "http2", "http_proxy", "socks_proxy", "connection_pool"):
        tree = _parse(repo, f"httpcore/_async/{mod}.py")
        for cls, fn in _func_defs(tree):
            for n in ast.walk(fn):
                if isinstance(n, ast.Call) and ast.unparse(n.func) == "map_exceptions" and n.args and isinstance(n.args[0], ast.Dict):
                    for k, v in zip(n.args[0].keys, n.args[0].values):
                        tgt = _exc_ctor(ast.unparse(v))
                        if tgt is None:
                            raise ExtractError(f"{mod}.{fn.name}: map_exceptions target is not an httpcore exception")
                        sites.append((mod, (cls + "." if cls else "") + fn.name, ast.unparse(k), tgt))
    tree = _parse(repo, "httpcore/_synchronization.py")
    for cls, fn in _func_defs(tree):
        for n in ast.walk(fn):
            if isinstance(n, (ast.AnnAssign, ast.Assign)) and isinstance(getattr(n, "value", None), ast.Dict) and "exc_map" in ast.unparse(n.targets[0] if isinstance(n, ast.Assign) else n.target):
                for k, v in zip(n.value.keys, n.value.values):
                    tgt = _exc_ctor(ast.unparse(v))
                    if tgt is not None:
                        sites.append(("_synchronization", (cls + "." if cls else "") + fn.name, ast.unparse(k), tgt))
    sites = sorted(set(sites))
    L.append("/-- every `map_exceptions({...})` literal of the async package: (module, function, library class, httpcore class) -/")
    L.append("def mapSites : List (String × String × String × Exc) := [")
    L.append(",\n".join("  (%s, %s, %s, %s)" % (lean_str(a), lean_str(b), lean_str(c), d) for a, b, c, d in sites) + "]")
    return L



# ---------------------------------------------------------------------------------------------
# C12 / C13 / C14: HTTP/2 bookkeeping expressions and the ConnectionNotAvailable sites
# ---------------------------------------------------------------------------------------------

def _lean_bool_expr(node, names, ints=()):
    """Python truthiness expression over natural-number names -> Lean Bool expression"""
    if isinstance(node, ast.BoolOp):
        op = " && " if isinstance(node.op, ast.And) else " || "
        return "(" + op.join(_lean_bool_expr(v, names, ints) for v in node.values) + ")"
    if isinstance(node, ast.UnaryOp) and isinstance(node.op, ast.Not):
        return "(!" + _lean_bool_expr(node.operand, names, ints) + ")"
    if isinstance(node, ast.Name) and node.id in names:
        return f"decide ({names[node.id]} ≠ 0)"
    if isinstance(node, ast.Compare) and len(node.ops) == 1:
        ops = {ast.Gt: ">", ast.GtE: "≥", ast.Lt: "<", ast.LtE: "≤", ast.Eq: "=", ast.NotEq: "≠"}
        if type(node.ops[0]) in ops:
            def term(n):
                if isinstance(n, ast.Name) and n.id in names:
                    return names[n.id]
                if isinstance(n, ast.Constant) and isinstance(n.value, int) and not isinstance(n.value, bool) and n.value >= 0:
                    return str(n.value)
                raise ExtractError(f"term not recognised: {ast.unparse(n)}")
            return f"decide ({term(node.left)} {ops[type(node.ops[0])]} {term(node.comparators[0])})"
    raise ExtractError(f"boolean expression not recognised: {ast.unparse(node)}")


SEND_CALLS = ("_send_request_headers", "_send_request_body", "_send_event", "_send_stream_data", "_send_end_stream", "handle_async_request")


def extract_h2(repo, parents):
    out = []
    tree = _parse(repo, "httpcore/_async/http2.py")
    cls = "AsyncHTTP2Connection"
    # ---- GOAWAY rule ---------------------------------------------------------------------------
    fn = _find_func(tree, "_receive_events", cls=cls)
    raises = [n for n in ast.walk(fn) if isinstance(n, ast.If) and any(isinstance(b, ast.Raise) and "ConnectionNotAvailable" in ast.unparse(b)
                                                                      for b in n.body)]
    if len(raises) != 1:
        raise ExtractError("_receive_events: exactly one `if ...: raise ConnectionNotAvailable()` expected")
    rule = raises[0]
    assigns = {ast.unparse(t): ast.unparse(a.value) for a in ast.walk(fn) if isinstance(a, ast.Assign) for t in a.targets}
    if assigns.get("last_stream_id") != "self._connection_terminated.last_stream_id":
        raise ExtractError("_receive_events: last_stream_id is not read from the stored GOAWAY event")
    expr = _lean_bool_expr(rule.test, {"stream_id": "sid", "last_stream_id": "last"})
    guard_outer = [n for n in ast.walk(fn) if isinstance(n, ast.If) and rule in n.body]
    if len(guard_outer) != 1 or ast.unparse(guard_outer[0].test) != "self._connection_terminated is not None":
        raise ExtractError("_receive_events: the GOAWAY rule is not under `if self._connection_terminated is not None`")
    after = guard_outer[0].body[guard_outer[0].body.index(rule) + 1:]
    if len(after) != 1 or not isinstance(after[0], ast.Raise) or "RemoteProtocolError" not in ast.unparse(after[0]):
        raise ExtractError("_receive_events: the GOAWAY rule is not followed by `raise RemoteProtocolError(...)`")
    out.append(f"/-- `_receive_events`, GOAWAY stored: `if {ast.unparse(rule.test)}: raise ConnectionNotAvailable()` else RemoteProtocolError;")
    out.append("`sid = 0` stands for `stream_id is None` (both falsy) -/")
    out.append(f"def goawayRetry (sid last : Nat) : Bool := {expr}")
    # ---- h2 configuration: is the library's own validation of what we send switched on? ---------------
    cdef = next((n for n in tree.body if isinstance(n, ast.ClassDef) and n.name == cls), None)
    confs = [n for n in (cdef.body if cdef else []) if isinstance(n, ast.Assign) and [ast.unparse(t) for t in n.targets] == ["CONFIG"]]
    if len(confs) != 1 or not (isinstance(confs[0].value, ast.Call) and ast.unparse(confs[0].value.func) == "h2.config.H2Configuration"
                               and not confs[0].value.args):
        raise ExtractError("AsyncHTTP2Connection.CONFIG is not one `h2.config.H2Configuration(keyword=...)` call")
    kws = {}
    for kw in confs[0].value.keywords:
        if kw.arg is None or not (isinstance(kw.value, ast.Constant) and isinstance(kw.value.value, bool)):
            raise ExtractError(f"H2Configuration: keyword not a literal bool: {ast.unparse(kw)}")
        kws[kw.arg] = kw.value.value
    unknown = set(kws) - {"validate_inbound_headers", "validate_outbound_headers", "normalize_outbound_headers", "client_side"}
    if unknown:
        raise ExtractError(f"H2Configuration: keywords the model does not know: {sorted(unknown)}")
    if kws.get("client_side", True) is not True:
        raise ExtractError("H2Configuration(client_side=False)")
    uses = [ast.unparse(n) for n in ast.walk(tree) if isinstance(n, ast.Call) and ast.unparse(n.func) == "h2.connection.H2Connection"]
    if uses != ["h2.connection.H2Connection(config=self.CONFIG)"]:
        raise ExtractError(f"the h2 state machine is not created as H2Connection(config=self.CONFIG): {uses}")
    out.append("/-- `CONFIG = h2.config.H2Configuration(...)`: h2 validates / normalises the header block it is handed (library default: both on) -/")
    out.append(f"def h2ValidatesOutbound : Bool := {'true' if kws.get('validate_outbound_headers', True) else 'false'}")
    out.append(f"def h2NormalizesOutbound : Bool := {'true' if kws.get('normalize_outbound_headers', True) else 'false'}")
    # ---- flow-control wait loop ---------------------------------------------------------------
    fn = _find_func(tree, "_wait_for_outgoing_flow", cls=cls)
    loops = [n for n in fn.body if isinstance(n, ast.While)]
    if len(loops) != 1:
        raise ExtractError("_wait_for_outgoing_flow: one while loop expected")
    loop = loops[0]
    want_pre = ["local_flow: int = self._h2_state.local_flow_control_window(stream_id)",
                "max_frame_size: int = self._h2_state.max_outbound_frame_size", "flow = min(local_flow, max_frame_size)"]
    pre = [ast.unparse(n) for n in fn.body if not isinstance(n, (ast.While, ast.Return, ast.Expr))]
    if pre != want_pre:
        raise ExtractError(f"_wait_for_outgoing_flow: preamble not recognised: {pre}")
    body = [ast.unparse(n) for n in loop.body]
    want_body = ["await self._receive_events(request)", "local_flow = self._h2_state.local_flow_control_window(stream_id)",
                 "max_frame_size = self._h2_state.max_outbound_frame_size", "flow = min(local_flow, max_frame_size)"]
    # the wait reads the network for *any* stream's frames (no positional stream id: it must not be satisfied by events that are already
    # queued for its own stream); since repair e601641 it names its stream as `flow_stream_id` so that a reset already filed is noticed
    sees_resets = False
    if body and body[0] == "await self._receive_events(request, flow_stream_id=stream_id)":
        body = ["await self._receive_events(request)"] + body[1:]
        fre = _find_func(tree, "_receive_events", cls=cls)
        src_re = ast.unparse(fre)
        guard = "if flow_stream_id is not None:\n            for event in self._events.get(flow_stream_id, []):\n                if isinstance(event, h2.events.StreamReset):\n                    raise RemoteProtocolError(event)"
        sees_resets = guard in src_re and src_re.index(guard) < src_re.index("self._read_incoming_data")
    if body != want_body:
        raise ExtractError(f"_wait_for_outgoing_flow: loop body not recognised (both the window and the frame size must be re-read): {body}")
    if not (isinstance(fn.body[-1], ast.Return) and ast.unparse(fn.body[-1].value) == "flow"):
        raise ExtractError("_wait_for_outgoing_flow: does not return flow")
    t = loop.test
    if not (isinstance(t, ast.Compare) and ast.unparse(t.left) == "flow" and len(t.ops) == 1 and ast.unparse(t.comparators[0]) == "0"):
        raise ExtractError(f"_wait_for_outgoing_flow: loop test not recognised: {ast.unparse(t)}")
    ops = {ast.LtE: "≤", ast.Eq: "=", ast.Lt: "<"}
    if type(t.ops[0]) not in ops:
        raise ExtractError(f"_wait_for_outgoing_flow: loop test not recognised: {ast.unparse(t)}")
    out.append(f"/-- `_wait_for_outgoing_flow`: `flow = min(local window, max frame size)`, re-read after every `_receive_events`, `while {ast.unparse(t)}` -/")
    out.append(f"def flowWaits (flow : Int) : Bool := decide (flow {ops[type(t.ops[0])]} 0)")
    out.append("/-- the flow wait names its own stream (`flow_stream_id=stream_id`) and `_receive_events` raises RemoteProtocolError for a StreamReset")
    out.append("already filed for that stream, under the read lock and before it reads the network -/")
    out.append("def flowWaitSeesResets : Bool := " + ("true" if sees_resets else "false"))
    # ---- whatever a read made h2 queue (PING / SETTINGS acknowledgements, window updates) leaves with the reader ------------
    fre2 = _find_func(tree, "_receive_events", cls=cls)
    last = fre2.body[-1]
    flushes = isinstance(last, ast.Expr) and ast.unparse(last.value) == "await self._write_outgoing_data(request)"
    out.append("/-- the last statement of `_receive_events`, outside the read lock and under no condition, is `await self._write_outgoing_data(request)` -/")
    out.append("def receiveEventsAlwaysFlushes : Bool := " + ("true" if flushes else "false"))
    fn = _find_func(tree, "_send_stream_data", cls=cls)
    want = ["while data:\n    max_flow = await self._wait_for_outgoing_flow(request, stream_id)\n    chunk_size = min(len(data), max_flow)\n"
            "    chunk, data = (data[:chunk_size], data[chunk_size:])\n    self._h2_state.send_data(stream_id, chunk)\n"
            "    await self._write_outgoing_data(request)"]
    got = [ast.unparse(n) for n in fn.body if not isinstance(n, ast.Expr)]
    if got != want:
        raise ExtractError(f"_send_stream_data: body not recognised: {got}")
    out.append("/-- `_send_stream_data` takes `min(len(data), flow)` bytes per DATA frame until the chunk is sent -/")
    out.append("def sendTakesMinLenFlow : Bool := true")
    # ---- credit -------------------------------------------------------------------------------
    fn = _find_func(tree, "_receive_response_body", cls=cls)
    acks = [n for n in ast.walk(fn) if isinstance(n, ast.Call) and ast.unparse(n.func) == "self._h2_state.acknowledge_received_data"]
    if len(acks) != 1 or [ast.unparse(a) for a in acks[0].args] != ["amount", "stream_id"]:
        raise ExtractError("_receive_response_body: acknowledge_received_data(amount, stream_id) not found exactly once")
    amt = [ast.unparse(a.value) for a in ast.walk(fn) if isinstance(a, ast.Assign) and ast.unparse(a.targets[0]) == "amount"]
    if len(amt) != 1:
        raise ExtractError("_receive_response_body: `amount = ...` not found exactly once")
    out.append(f"/-- `_receive_response_body` acknowledges `{amt[0]}` per DataReceived event -/")
    out.append("def ackUsesFlowControlledLength : Bool := " + ("true" if amt[0] == "event.flow_controlled_length" else "false"))
    # ---- response assembly -----------------------------------------------------------------------
    fn = _find_func(tree, "_receive_stream_event", cls=cls)
    ifs = [n for n in ast.walk(fn) if isinstance(n, ast.If) and "StreamReset" in ast.unparse(n.test)]
    ok = (len(ifs) == 1 and ast.unparse(ifs[0].test) == "isinstance(event, h2.events.StreamReset)" and len(ifs[0].body) == 1
          and isinstance(ifs[0].body[0], ast.Raise) and "RemoteProtocolError" in ast.unparse(ifs[0].body[0]) and not ifs[0].orelse)
    out.append("/-- `_receive_stream_event`: `if isinstance(event, StreamReset): raise RemoteProtocolError(event)`, unconditionally -/")
    out.append("def h2ResetAlwaysFails : Bool := " + ("true" if ok else "false"))
    fn = _find_func(tree, "_receive_response_body", cls=cls)
    breaks = [n for n in ast.walk(fn) if isinstance(n, ast.If) and any(isinstance(b, ast.Break) for b in n.body)]
    ok = len(breaks) == 1 and ast.unparse(breaks[0].test) == "isinstance(event, h2.events.StreamEnded)" and \
        not any(isinstance(n, ast.Return) for n in ast.walk(fn))
    out.append("/-- `_receive_response_body` leaves its loop on StreamEnded and on nothing else -/")
    out.append("def h2BodyEndsOnlyOnStreamEnded : Bool := " + ("true" if ok else "false"))
    # ---- stream slots ---------------------------------------------------------------------------
    fn = _find_func(tree, "handle_async_request", cls=cls)
    src_lines = {}
    for n in ast.walk(fn):
        txt = None
        if isinstance(n, ast.Assign) and ast.unparse(n.targets[0]) == "self._max_streams":
            src_lines["init_max"] = (n.lineno, _const(n.value))
        if isinstance(n, ast.Await) and ast.unparse(n.value) == "self._max_streams_semaphore.acquire()":
            src_lines.setdefault("acquires", []).append(n.lineno)
        if isinstance(n, ast.Call) and ast.unparse(n.func) == "self._h2_state.get_next_available_stream_id":
            src_lines["stream_id"] = n.lineno
    if "init_max" not in src_lines or "stream_id" not in src_lines or len(src_lines.get("acquires", [])) != 2:
        raise ExtractError("handle_async_request: slot bookkeeping statements not recognised")
    fn2 = _find_func(tree, "_send_connection_init", cls=cls)
    local_max = None
    for n in ast.walk(fn2):
        if isinstance(n, ast.Dict):
            for k, v in zip(n.keys, n.values):
                if ast.unparse(k).endswith("MAX_CONCURRENT_STREAMS"):
                    local_max = _const(v)
    if local_max is None:
        raise ExtractError("_send_connection_init: local MAX_CONCURRENT_STREAMS not found")
    out.append("/-- `_max_streams` right after the connection preface; the local MAX_CONCURRENT_STREAMS setting -/")
    out.append(f"def h2InitialMaxStreams : Nat := {src_lines['init_max'][1]}")
    out.append(f"def h2LocalMaxStreams : Nat := {local_max}")
    out.append("/-- the request takes its stream slot before it reserves a stream id -/")
    out.append("def slotBeforeStreamId : Bool := " + ("true" if max(src_lines["acquires"]) < src_lines["stream_id"] else "false"))
    fn3 = _find_func(tree, "_receive_remote_settings_change", cls=cls)
    txt = ast.unparse(fn3)
    for frag in ["new_max_streams = min(max_concurrent_streams.new_value, self._h2_state.local_settings.max_concurrent_streams)",
                 "if new_max_streams and new_max_streams != self._max_streams:",
                 "while new_max_streams > self._max_streams:\n                if self._max_streams_debt > 0:\n                    self._max_streams_debt -= 1\n"
                 "                else:\n                    await self._max_streams_semaphore.release()\n                self._max_streams += 1",
                 "if new_max_streams < self._max_streams:\n                self._max_streams_debt += self._max_streams - new_max_streams\n"
                 "                self._max_streams = new_max_streams"]:
        if frag not in txt:
            raise ExtractError(f"_receive_remote_settings_change: not recognised, missing `{frag.splitlines()[0]}`")
    if "acquire" in txt:
        raise ExtractError("_receive_remote_settings_change: the reader must not wait for the semaphore")
    fn4 = _find_func(tree, "_response_closed", cls=cls)
    if ("if self._max_streams_debt > 0:\n        self._max_streams_debt -= 1\n    else:\n        await self._max_streams_semaphore.release()"
            not in ast.unparse(fn4)):
        raise ExtractError("_response_closed: `debt -= 1 if debt else release()` not recognised")
    loops = [n for n in ast.walk(fn) if isinstance(n, ast.While) and "self._max_streams_semaphore.acquire()" in ast.unparse(n.body[0])]
    want_loop = ("while True:\n    await self._max_streams_semaphore.acquire()\n    if self._max_streams_debt > 0:\n"
                 "        self._max_streams_debt -= 1\n        continue\n    break")
    if len(loops) != 1 or ast.unparse(loops[0]) != want_loop:
        raise ExtractError("handle_async_request: the acquire loop (withhold permits while debt is outstanding) not recognised")
    out.append("/-- `_receive_remote_settings_change`, `_response_closed` and the acquire loop have the shapes modelled by `H2.Slots` "
               "(raise: pay debt, then release; lower: add debt, never wait; close: pay debt or release; acquire: withhold while debt) -/")
    out.append("def settingsChangeShapeKnown : Bool := true")
    # ---- every `raise ConnectionNotAvailable()` -------------------------------------------------
    rows = []
    for mod in ("connection", "connection_pool", "http11", "http2", "http_proxy", "socks_proxy", "interfaces"):
        t = _parse(repo, f"httpcore/_async/{mod}.py")
        for clsname, f in _func_defs(t):
            qual = (clsname + "." if clsname else "") + f.name
            first_send = min([n.lineno for n in ast.walk(f) if isinstance(n, ast.Call) and isinstance(n.func, ast.Attribute)
                              and n.func.attr in SEND_CALLS] + [10 ** 9])
            for n in ast.walk(f):
                if isinstance(n, ast.Raise) and n.exc is not None and "ConnectionNotAvailable" in ast.unparse(n.exc):
                    is_rule = (mod == "http2" and n.lineno in [b.lineno for b in rule.body])
                    before = f.name == "handle_async_request" and n.lineno < first_send and not _in_handler_after(f, n, first_send)
                    rows.append(f'("{mod}", "{qual}", {"true" if before else "false"}, '
                                f'{"true" if is_rule else "false"})')
    out.append("/-- every `raise ConnectionNotAvailable()` in `_async/*.py`: (module, function, it precedes every statement of the function that")
    out.append("sends request bytes, it is the GOAWAY rule above) -/")
    out.append("def cnaSites : List (String × String × Bool × Bool) := " + lean_list(rows))
    # ---- the pool's retry loop --------------------------------------------------------------------
    t = _parse(repo, "httpcore/_async/connection_pool.py")
    f = _find_func(t, "handle_async_request", cls="AsyncConnectionPool")
    loops = [n for n in ast.walk(f) if isinstance(n, ast.While)]
    if len(loops) != 1:
        raise ExtractError("pool.handle_async_request: one loop expected")
    tries = [n for n in loops[0].body if isinstance(n, ast.Try)]
    if len(tries) != 1 or len(tries[0].handlers) != 1 or not tries[0].orelse or not isinstance(tries[0].orelse[0], ast.Break):
        raise ExtractError("pool.handle_async_request: `try: send / except X: retry / else: break` not recognised")
    h = tries[0].handlers[0]
    names = [ast.unparse(e) for e in (h.type.elts if isinstance(h.type, ast.Tuple) else [h.type])]
    if any(isinstance(x, (ast.Raise, ast.Break, ast.Return)) for x in ast.walk(h)):
        raise ExtractError("pool.handle_async_request: the retry handler leaves the loop")
    for nme in names:
        if nme not in parents:
            raise ExtractError(f"pool.handle_async_request: retries on unknown class {nme}")
    out.append("/-- the exception classes on which the pool sends the request again -/")
    out.append("def poolRetriesOn : List Exc := " + lean_list([f".{x}" for x in names]))
    return out


def _in_handler_after(fn, node, first_send):
    """is `node` inside an except handler / finally of a try statement whose body contains a send call?"""
    for t in ast.walk(fn):
        if isinstance(t, ast.Try):
            body_sends = any(isinstance(n, ast.Call) and isinstance(n.func, ast.Attribute) and n.func.attr in SEND_CALLS
                             for b in t.body for n in ast.walk(b))
            if body_sends:
                for part in list(t.handlers) + list(t.finalbody):
                    if any(n is node for n in ast.walk(part)):
                        return True
    return False


# ---------------------------------------------------------------------------------------------
# C18: the substitution table of scripts/unasync.py
# ---------------------------------------------------------------------------------------------

def extract_unasync(repo, parents):
    tree = _parse(repo, "scripts/unasync.py")
    subs = None
    compiled = None
    for node in tree.body:
        if isinstance(node, ast.Assign) and ast.unparse(node.targets[0]) == "SUBS":
            subs = ast.literal_eval(node.value)
        if isinstance(node, ast.Assign) and ast.unparse(node.targets[0]) == "COMPILED_SUBS":
            compiled = ast.unparse(node.value)
    if subs is None:
        raise ExtractError("scripts/unasync.py: SUBS not found")
    if compiled != "[(re.compile('(^|\\\\b)' + regex + '($|\\\\b)'), repl) for regex, repl in SUBS]":
        raise ExtractError(f"scripts/unasync.py: COMPILED_SUBS not recognised: {compiled}")
    fn = _find_func(tree, "unasync_line")
    if "line = re.sub(regex, repl, line)" not in ast.unparse(fn):
        raise ExtractError("scripts/unasync.py: unasync_line does not apply re.sub per pattern")
    rows = []
    for regex, repl in subs:
        if regex == "Async([A-Z][A-Za-z0-9_]*)" and repl == "\\2":
            rows.append(".asyncClass")
            continue
        if any(ch in regex for ch in "\\[](){}*+?|^$") or "\\" in repl:
            raise ExtractError(f"scripts/unasync.py: pattern outside the modelled fragment: {regex!r} -> {repl!r}")
        rows.append(f".lit {lean_str(regex)}.toList {lean_str(repl)}")
    out = ["/-- a pattern of `scripts/unasync.py` (`.` in a literal is the regex wildcard) -/",
           "inductive UPat | lit (src : List Char) (dst : String) | asyncClass",
           "/-- `SUBS`, in order; each is compiled as `(^|\\b)` + regex + `($|\\b)` and applied with re.sub per line -/",
           "def unasyncSubs : List UPat := " + lean_list(rows)]
    return out


# ---------------------------------------------------------------------------------------------
# C01: when is an HTTP/1.1 connection offered again
# ---------------------------------------------------------------------------------------------

def extract_h1_reuse(repo, parents):
    tree = _parse(repo, "httpcore/_async/http11.py")
    cls = "AsyncHTTP11Connection"
    fn = _find_func(tree, "_response_closed", cls=cls)
    txt = ast.unparse(fn)
    ifs = [n for n in ast.walk(fn) if isinstance(n, ast.If) and "our_state" in ast.unparse(n.test)]
    if len(ifs) != 1:
        raise ExtractError("_response_closed: the reuse test was not found exactly once")
    test = ast.unparse(ifs[0].test)
    both = test == "self._h11_state.our_state is h11.DONE and self._h11_state.their_state is h11.DONE"
    body = ast.unparse(ifs[0].body)
    orelse = ast.unparse(ifs[0].orelse)
    if "self._state = HTTPConnectionState.IDLE" not in body or "start_next_cycle" not in body:
        raise ExtractError("_response_closed: the reuse branch does not return the connection to IDLE with start_next_cycle()")
    if "await self.aclose()" not in orelse:
        raise ExtractError("_response_closed: the other branch does not close the connection")
    fn2 = _find_func(tree, "is_available", cls=cls)
    avail = ast.unparse(fn2.body[-1])
    out = [f"/-- `_response_closed`: `if {test}:` back to IDLE (start_next_cycle) `else:` close -/",
           "def h1ReuseNeedsBothDone : Bool := " + ("true" if both else "false"),
           f"/-- `is_available`: `{avail}` -/",
           "def h1AvailableIffIdle : Bool := " + ("true" if avail == "return self._state == HTTPConnectionState.IDLE" else "false")]
    fn3 = _find_func(tree, "handle_async_request", cls=cls)
    gate = [n for n in ast.walk(fn3) if isinstance(n, ast.If) and ast.unparse(n.test).startswith("self._state in")]
    ok = (len(gate) == 1 and ast.unparse(gate[0].test) == "self._state in (HTTPConnectionState.NEW, HTTPConnectionState.IDLE)"
          and "self._state = HTTPConnectionState.ACTIVE" in ast.unparse(gate[0].body) and "ConnectionNotAvailable" in ast.unparse(gate[0].orelse))
    out += ["/-- the gate: only a NEW or IDLE connection becomes ACTIVE, under the state lock; otherwise ConnectionNotAvailable -/",
            "def h1GateFromNewOrIdleOnly : Bool := " + ("true" if ok else "false")]
    # the test-and-set of the gate is one critical section of the connection's state lock (what makes it atomic between threads)
    locked = False
    if len(gate) == 1:
        for w in ast.walk(fn3):
            if isinstance(w, (ast.AsyncWith, ast.With)) and [ast.unparse(i.context_expr) for i in w.items] == ["self._state_lock"] \
                    and any(gate[0] is d for d in ast.walk(w)):
                locked = True
    out += ["/-- the gate's test-and-set is inside `async with self._state_lock:` -/",
            "def h1GateUnderStateLock : Bool := " + ("true" if locked else "false")]
    # HTTP/2: when does a connection offer itself to further requests?
    tree2 = _parse(repo, "httpcore/_async/http2.py")
    fa = _find_func(tree2, "is_available", cls="AsyncHTTP2Connection")
    rets = [n for n in fa.body if isinstance(n, ast.Return)]
    if len(fa.body) != 1 or len(rets) != 1:
        raise ExtractError("http2.is_available: a single return statement expected")
    names = {"self._state != HTTPConnectionState.CLOSED": "(!closed)", "self._connection_error": "connErr",
             "self._used_all_stream_ids": "usedAll", "self._h2_state.state_machine.state == h2.connection.ConnectionState.CLOSED": "h2Closed"}

    def tr(e):
        t = ast.unparse(e)
        if t in names:
            return names[t]
        if isinstance(e, ast.BoolOp):
            op = " && " if isinstance(e.op, ast.And) else " || "
            return "(" + op.join(tr(v) for v in e.values) + ")"
        if isinstance(e, ast.UnaryOp) and isinstance(e.op, ast.Not):
            return "(!" + tr(e.operand) + ")"
        raise ExtractError(f"http2.is_available: sub-expression not recognised: {t}")
    out += [f"/-- HTTP/2 `is_available`: `{ast.unparse(rets[0].value)}` -/",
            f"def h2Available (closed connErr usedAll h2Closed : Bool) : Bool := {tr(rets[0].value)}"]
    fn4 = _find_func(tree, "aclose", cls=cls)
    body = [ast.unparse(n) for n in fn4.body if not (isinstance(n, ast.Expr) and isinstance(n.value, ast.Constant))]
    first = body == ["self._state = HTTPConnectionState.CLOSED", "await self._network_stream.aclose()"]
    out += ["/-- `aclose()` (lock-free): the state is set to CLOSED *before* the network stream is closed, so that whoever passes the gate",
            "from then on gets ConnectionNotAvailable instead of a dying socket -/",
            "def h1CloseMarksClosedFirst : Bool := " + ("true" if first else "false")]
    return out


# ---------------------------------------------------------------------------------------------
# C08: every mutation of the pool's lists happens under the thread lock
# ---------------------------------------------------------------------------------------------

def extract_pool_locking(repo, parents):
    tree = _parse(repo, "httpcore/_async/connection_pool.py")
    rows = []

    def is_lock_with(node):
        return isinstance(node, ast.With) and any(ast.unparse(i.context_expr) in ("self._optional_thread_lock", "self._pool._optional_thread_lock")
                                                  for i in node.items)

    def visit(node, fname, locked):
        for child in ast.iter_child_nodes(node):
            l = locked or is_lock_with(child)
            if isinstance(child, (ast.Expr, ast.Assign, ast.AugAssign)):
                txt = ast.unparse(child)
                mutates = any(frag in txt for frag in ("._connections.append(", "._connections.remove(", "._requests.append(", "._requests.remove(",
                                                       "._assign_requests_to_connections()", ".clear_connection()")) or \
                    (isinstance(child, ast.Assign) and ast.unparse(child.targets[0]) in ("self._connections", "self._requests"))
                if mutates:
                    rows.append((fname, txt.replace('"', "'")[:80], l))
            visit(child, fname, l)

    for clsname, f in _func_defs(tree):
        qual = (clsname + "." if clsname else "") + f.name
        if f.name == "__init__":
            continue
        # the pass itself runs with the lock held by its callers (each call site is a row of its own)
        visit(f, qual, f.name == "_assign_requests_to_connections")
    if not rows:
        raise ExtractError("connection_pool.py: no mutation of the pool's lists found")
    out = ["/-- every statement of `connection_pool.py` that mutates `_connections` / `_requests` or runs the assignment pass:",
           "(function, statement, is it lexically inside `with self._optional_thread_lock:` - or inside the pass, whose callers hold it) -/",
           "def poolMutations : List (String × String × Bool) := " +
           lean_list([f'({lean_str(a)}, {lean_str(b)}, {"true" if c else "false"})' for a, b, c in rows])]
    return out


def extract_pool_pass_follows(repo, parents):
    """C07: every change of the request queue (a request added, removed, or given its connection back) is followed - as the very next
    thing the pool does, before any suspension point - by an unconditional assignment pass."""
    tree = _parse(repo, "httpcore/_async/connection_pool.py")
    rows = []
    CHANGES = ("._requests.append(", "._requests.remove(", ".clear_connection()")

    def block_of(parent, stmt):
        for field in ("body", "orelse", "finalbody"):
            b = getattr(parent, field, None)
            if isinstance(b, list) and any(x is stmt for x in b):
                return b
        if isinstance(parent, ast.Try):
            for h in parent.handlers:
                if any(x is stmt for x in h.body):
                    return h.body
        return None

    for clsname, f in _func_defs(tree):
        par = {}
        for n in ast.walk(f):
            for c in ast.iter_child_nodes(n):
                par[id(c)] = n

        def parent_stmt(n):
            q = par.get(id(n))
            while q is not None and not isinstance(q, ast.stmt) and not isinstance(q, ast.ExceptHandler):
                q = par.get(id(q))
            return q

        def succ(stmt):
            """the statement executed after `stmt` completes normally (None = leaves the function)"""
            q = parent_stmt(stmt)
            if q is None or q is f:
                blk = f.body
                q = f
            else:
                container = q
                if isinstance(q, ast.ExceptHandler):
                    blk = q.body
                else:
                    blk = block_of(q, stmt)
                if blk is None:
                    return None
            i = [k for k, x in enumerate(blk) if x is stmt][0]
            if i + 1 < len(blk):
                return blk[i + 1]
            if q is f:
                return None
            if isinstance(q, ast.ExceptHandler):
                return succ(par[id(q)])          # after the handler: after the try statement
            if isinstance(q, ast.While) and ast.unparse(q.test) == "True":
                return q.body[0]                  # loop back
            if isinstance(q, (ast.With, ast.AsyncWith, ast.Try)):
                return succ(q)
            return None

        def first_effect(stmt, depth=0):
            """descend through transparent wrappers to the first simple statement"""
            while stmt is not None and depth < 20:
                depth += 1
                if isinstance(stmt, (ast.With, ast.AsyncWith)):
                    stmt = stmt.body[0]
                elif isinstance(stmt, ast.While) and ast.unparse(stmt.test) == "True":
                    stmt = stmt.body[0]
                elif isinstance(stmt, ast.Try):
                    stmt = stmt.body[0]
                else:
                    return stmt
            return stmt

        for n in ast.walk(f):
            if isinstance(n, (ast.Expr, ast.Assign)) and any(fr in ast.unparse(n) for fr in CHANGES):
                nxt = first_effect(succ(n))
                ok = nxt is not None and isinstance(nxt, (ast.Assign, ast.Expr)) and "_assign_requests_to_connections()" in ast.unparse(nxt)
                qual = (clsname + "." if clsname else "") + f.name
                rows.append((qual, ast.unparse(n).replace('"', "'")[:80], ok))
    if len(rows) < 3:
        raise ExtractError("connection_pool.py: the queue changes of the request protocol were not found")
    return ["/-- every statement that changes the request queue (append / remove / clear_connection) and whether the next statement the pool",
            "executes after it - through `with`, `try` and the `while True` back edge, before any suspension point - is an unconditional",
            "`_assign_requests_to_connections()` -/",
            "def poolPassFollows : List (String × String × Bool) := " +
            lean_list([f'({lean_str(a)}, {lean_str(b)}, {"true" if c else "false"})' for a, b, c in rows])]


def extract_establish_locking(repo, parents):
    """the three connection classes that establish lazily: the `already established?` test is made with the connect lock held
    (otherwise two threads - or two tasks of an HTTP/2-capable pool - that share the connection both establish it)"""
    rows = []
    for path, cls, lock, tests in [("httpcore/_async/connection.py", "AsyncHTTPConnection", "self._request_lock", ["self._connection is None"]),
                                   ("httpcore/_async/socks_proxy.py", "AsyncSocks5Connection", "self._connect_lock", ["self._connection is None"]),
                                   ("httpcore/_async/http_proxy.py", "AsyncTunnelHTTPConnection", "self._connect_lock", ["not self._connected"])]:
        tree = _parse(repo, path)
        fn = _find_func(tree, "handle_async_request", cls=cls)
        found = []

        def visit(node, locked):
            for child in ast.iter_child_nodes(node):
                l = locked or (isinstance(child, (ast.AsyncWith, ast.With)) and any(ast.unparse(i.context_expr) == lock for i in child.items))
                if isinstance(child, ast.If) and ast.unparse(child.test) in tests:
                    found.append(l)
                visit(child, l)
        visit(fn, False)
        if len(found) != 1:
            raise ExtractError(f"{cls}.handle_async_request: the test `{tests[0]}` was found {len(found)} times")
        rows.append((cls, found[0]))
    return ["/-- (class, is its `already established?` test lexically inside `async with <connect lock>:`) -/",
            "def establishChecks : List (String × Bool) := " + lean_list([f'({lean_str(a)}, {"true" if b else "false"})' for a, b in rows])]


def extract_h2_reader(repo, parents):
    """`_receive_events`: the test "are there events for my stream already?" and the network read it guards are one critical section of
    the read lock - whoever waited for the lock while another request read its frames must see them instead of reading again."""
    tree = _parse(repo, "httpcore/_async/http2.py")
    fn = _find_func(tree, "_receive_events", cls="AsyncHTTP2Connection")
    ok = False
    for w in ast.walk(fn):
        if isinstance(w, (ast.AsyncWith, ast.With)) and [ast.unparse(i.context_expr) for i in w.items] == ["self._read_lock"]:
            for n in ast.walk(w):
                if isinstance(n, ast.If) and ast.unparse(n.test) == "stream_id is None or not self._events.get(stream_id)" \
                        and "_read_incoming_data" in ast.unparse(n.body):
                    ok = True
    # and no read of the network outside the lock
    reads_outside = False
    for n in ast.walk(fn):
        if isinstance(n, ast.Call) and ast.unparse(n.func) == "self._read_incoming_data":
            inside = any(isinstance(w, (ast.AsyncWith, ast.With)) and [ast.unparse(i.context_expr) for i in w.items] == ["self._read_lock"]
                         and any(n is d for d in ast.walk(w)) for w in ast.walk(fn))
            if not inside:
                reads_outside = True
    # the writer: h2's outgoing buffer is emptied and written under one and the same hold of the write lock
    fw = _find_func(tree, "_write_outgoing_data", cls="AsyncHTTP2Connection")
    takes = [n for n in ast.walk(fw) if isinstance(n, ast.Call) and ast.unparse(n.func) == "self._h2_state.data_to_send"]
    writes = [n for n in ast.walk(fw) if isinstance(n, ast.Call) and ast.unparse(n.func) == "self._network_stream.write"]
    wlocks = [w for w in ast.walk(fw) if isinstance(w, (ast.AsyncWith, ast.With)) and [ast.unparse(i.context_expr) for i in w.items] == ["self._write_lock"]]
    wok = len(takes) == 1 and len(writes) == 1 and len(wlocks) == 1 and \
        any(takes[0] is d for d in ast.walk(wlocks[0])) and any(writes[0] is d for d in ast.walk(wlocks[0]))
    others = [ast.unparse(n.func) for f2 in ast.walk(tree) if isinstance(f2, (ast.AsyncFunctionDef, ast.FunctionDef)) and f2.name != "_write_outgoing_data"
              for n in ast.walk(f2) if isinstance(n, ast.Call) and ast.unparse(n.func) in ("self._h2_state.data_to_send", "self._network_stream.write")]
    writer = ["/-- `_write_outgoing_data`: `self._h2_state.data_to_send()` and the `write` of what it returned are inside one",
              "`async with self._write_lock:`, and nothing else in `http2.py` takes from h2's buffer or writes to the stream - frames reach the",
              "wire in the order h2 produced them (the HPACK encoder state depends on it) -/",
              "def h2BufferWrittenUnderWriteLock : Bool := " + ("true" if wok and not others else "false")]
    # every handler of `_read_incoming_data` / `_write_outgoing_data` that remembers the failure also takes the connection out of service
    marks = True
    nh = 0
    for fname, attr in (("_read_incoming_data", "self._read_exception"), ("_write_outgoing_data", "self._write_exception")):
        ff = _find_func(tree, fname, cls="AsyncHTTP2Connection")
        for n in ast.walk(ff):
            if isinstance(n, ast.ExceptHandler):
                body = [ast.unparse(b) for b in n.body]
                if any(b.startswith(attr + " = ") for b in body):
                    nh += 1
                    if "self._connection_error = True" not in body:
                        marks = False
    if nh < 2:
        raise ExtractError("http2.py: the handlers that remember a read / write failure were not found")
    writer += ["/-- every `except` handler of `_read_incoming_data` / `_write_outgoing_data` that stores the failure (`_read_exception`,",
               "`_write_exception`) also sets `_connection_error = True`: a connection on which an exchange has failed is never offered again -/",
               "def h2IoFailureMarksConnection : Bool := " + ("true" if marks else "false")]
    return writer + ["/-- `_receive_events`: `if stream_id is None or not self._events.get(stream_id):` guards `_read_incoming_data` *inside*",
            "`async with self._read_lock:`; the network is not read outside that lock -/",
            "def h2EventsRecheckedUnderReadLock : Bool := " + ("true" if ok and not reads_outside else "false")]


def extract_merge_headers(repo, parents):
    """C11: `merge_headers` is the function the model knows - it works on *copies* of its arguments (the configured proxy headers are
    shared by every request) and returns defaults-not-overridden + overrides"""
    tree = _parse(repo, "httpcore/_async/http_proxy.py")
    fn = _find_func(tree, "merge_headers")
    body = [ast.unparse(x) for x in fn.body if not (isinstance(x, ast.Expr) and isinstance(x.value, ast.Constant))]
    want = ["default_headers = [] if default_headers is None else list(default_headers)",
            "override_headers = [] if override_headers is None else list(override_headers)",
            "has_override = set((key.lower() for key, value in override_headers))",
            "default_headers = [(key, value) for key, value in default_headers if key.lower() not in has_override]",
            "return default_headers + override_headers"]
    ok = body == want
    # the call sites: what is merged into what
    calls = []
    for n in ast.walk(tree):
        if isinstance(n, ast.Call) and ast.unparse(n.func) == "merge_headers":
            calls.append(", ".join(ast.unparse(a) for a in n.args))
    sites_ok = sorted(calls) == sorted(["self._proxy_headers, request.headers", "[(b'Host', target), (b'Accept', b'*/*')], self._proxy_headers"])
    # the requests httpcore builds for the proxy itself (CONNECT, forwarded request) do not inherit the caller's `target` extension
    built = []
    for cls in ("AsyncForwardHTTPConnection", "AsyncTunnelHTTPConnection"):
        f = _find_func(tree, "handle_async_request", cls=cls)
        for n in ast.walk(f):
            if isinstance(n, ast.Call) and ast.unparse(n.func) == "Request":
                ext = [k.value for k in n.keywords if k.arg == "extensions"]
                ok_ext = False
                if len(ext) == 1 and isinstance(ext[0], ast.Name):
                    # the name must be bound, in this function, to {key: value for key, value in request.extensions.items() if key != 'target'}
                    for a in ast.walk(f):
                        if isinstance(a, ast.Assign) and len(a.targets) == 1 and ast.unparse(a.targets[0]) == ext[0].id and \
                                ast.unparse(a.value) == "{key: value for key, value in request.extensions.items() if key != 'target'}":
                            ok_ext = True
                built.append((cls, ok_ext))
    drops = len(built) == 2 and all(o for _, o in built)
    drop_lines = ["/-- the CONNECT request and the forwarded request are built with the caller's extensions *minus* `target` (which describes the",
                  "request line of the caller's own request and is part of `request.url` already) -/",
                  "def proxyRequestsDropTargetExtension : Bool := " + ("true" if drops else "false")]
    return drop_lines + ["/-- `merge_headers` has the body the model `Establish.mergeHeaders` stands for (copies of both arguments, overridden defaults",
            "dropped case-insensitively, defaults before overrides; no in-place change of an argument), and it is called with",
            "(proxy headers, request headers) for forwarded requests and (Host + Accept, proxy headers) for CONNECT -/",
            "def mergeHeadersAsModelled : Bool := " + ("true" if ok and sites_ok else "false")]


def extract_backend_write(repo, parents):
    tree = _parse(repo, "httpcore/_backends/sync.py")
    fn = _find_func(tree, "write", cls="SyncStream")
    loops = [n for n in ast.walk(fn) if isinstance(n, ast.While)]
    ok = False
    if len(loops) == 1 and ast.unparse(loops[0].test) == "buffer" and not loops[0].orelse:
        body = [ast.unparse(x) for x in loops[0].body if "settimeout" not in ast.unparse(x)]
        ok = body == ["n = self._sock.send(buffer)", "buffer = buffer[n:]"]
    # nothing but the empty-buffer shortcut and the loop touches the socket
    other = [ast.unparse(n) for n in ast.walk(fn) if isinstance(n, ast.Call) and ast.unparse(n.func).startswith("self._sock.")
             and ast.unparse(n.func) not in ("self._sock.settimeout", "self._sock.send")]
    return ["/-- `SyncStream.write`: `while buffer: n = self._sock.send(buffer); buffer = buffer[n:]` and no other use of the socket -/",
            "def syncWriteLoopShape : Bool := " + ("true" if ok and not other else "false")]


def extract_life(repo, parents):
    import lifetrans
    try:
        return lifetrans.translate(lambda rel: _parse(repo, rel)) + [""] + lifetrans.translate_wrappers(lambda rel: _parse(repo, rel))
    except lifetrans.ExtractError as e:
        raise ExtractError(str(e))


SECTIONS = [extract_establish_locking, extract_models, extract_pool, extract_timeouts, extract_schemes, extract_exception_maps, extract_h2, extract_unasync, extract_h1_reuse, extract_pool_locking, extract_life, extract_backend_write, extract_h2_reader, extract_pool_pass_follows, extract_merge_headers]


def generate(repo):
    parents = exc_tree(repo)
    out = []
    out.append("-- GENERATED by harness/extract.py from the current source tree. Do not edit.")
    out.append("import HttpcoreModel.Basic")
    out.append("import HttpcoreModel.LifeBase")
    out.append("namespace Httpcore.Gen")
    out.append("open Httpcore")
    out.append("")
    out.append("/-- parent class of each httpcore exception (`none` = Exception) -/")
    rows = []
    for n in EXC_NAMES:
        p = parents[n]
        rows.append(f"(.{n}, " + ("none" if p == "Exception" else f"some .{p}") + ")")
    out.append("def excParent : List (Exc × Option Exc) := " + lean_list(rows))
    out.append("")
    out.extend(extract_backoff(repo, parents))
    for sec in SECTIONS:
        out.append("")
        out.extend(sec(repo, parents))
    out.append("")
    out.append("end Httpcore.Gen")
    return "\n".join(out) + "\n"


def regenerate(repo, lean_dir):
    text = generate(repo)
    path = os.path.join(lean_dir, "HttpcoreModel", "Generated.lean")
    old = None
    if os.path.exists(path):
        with open(path) as f:
            old = f.read()
    if old != text:
        with open(path, "w") as f:
            f.write(text)
        return True
    return False


if __name__ == "__main__":
    repo = sys.argv[1] if len(sys.argv) > 1 else os.environ.get("VERIF_REPO", "/repo")
    here = os.path.dirname(os.path.abspath(__file__))
    changed = regenerate(repo, os.path.join(here, "..", "lean"))
    print("Generated.lean", "rewritten" if changed else "unchanged")
