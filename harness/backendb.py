"""Tie B for `Backend.writeLoop`: the real `SyncStream.write` on a scripted socket whose `send` accepts what the script says."""
from __future__ import annotations

import httpcore
from httpcore._backends.sync import SyncStream


class ScriptSock:
    def __init__(self, sends):
        self.sends = list(sends)
        self.pieces = []
        self.timeouts = []

    def settimeout(self, t):
        self.timeouts.append(t)

    def send(self, buf):
        if not self.sends:
            raise OSError("script exhausted")
        n = self.sends.pop(0)
        self.pieces.append(bytes(buf[:n]))
        return n


def gen_case(rng):
    size = rng.choice([0, 1, 2, 5, 17, 64, 300])
    buf = bytes(rng.randrange(256) for _ in range(size))
    sends = []
    left = size
    style = rng.choice(["ones", "random", "whole", "short-script"])
    while left > 0:
        n = 1 if style == "ones" else (left if style == "whole" else rng.randint(1, max(1, left)))
        if rng.random() < 0.05:
            n = left + rng.randint(0, 5)          # more than was offered: Python's slice takes what is there
        sends.append(n)
        left -= min(n, left)
    if style == "short-script" and sends:
        sends = sends[: rng.randrange(len(sends))]
    return buf, sends


def run_impl(buf, sends):
    sock = ScriptSock(sends)
    st = SyncStream(sock)
    try:
        st.write(buf, timeout=1.5)
        outcome = "done"
    except httpcore.WriteError:
        outcome = "WriteError"
    return sock.pieces, outcome, sock.timeouts


def model_line(buf, sends):
    return f"bwrite {buf.hex() or '-'} {','.join(map(str, sends)) or '-'}"


def run(rec, driver, rng, n):
    cases = [gen_case(rng) for _ in range(n)]
    ans = driver.run([model_line(b, s) for b, s in cases]) if driver else [None] * n
    for (buf, sends), a in zip(cases, ans):
        pieces, outcome, touts = run_impl(buf, sends)
        rec.evals += 1
        rec.distinct.add(("bwrite", buf, tuple(sends)))
        rec.dist[f"backend-write:{outcome}"] += 1
        sent = b"".join(pieces)
        if outcome == "done" and sent != buf:
            rec.fail("backend-write-not-exact", {}, {"buffer": buf.hex(), "sends": sends, "pieces": [p.hex() for p in pieces]})
        if not buf.startswith(sent):
            rec.fail("backend-write-reordered", {}, {"buffer": buf.hex(), "sends": sends, "pieces": [p.hex() for p in pieces]})
        if any(t != 1.5 for t in touts):
            rec.fail("backend-write-timeout-not-applied", {}, {"timeouts": touts})
        if a is not None:
            m_p = a.split(" ")[0].split("=", 1)[1]
            m_r = a.split(" ")[1].split("=", 1)[1]
            model_pieces = [bytes.fromhex(x) for x in m_p.split(",")] if m_p not in ("", "-") else []
            # the implementation's script runs out exactly where the model's does; the model's remaining buffer is what was never sent
            impl_rest = buf[len(sent):]
            if model_pieces != pieces or (b"" if m_r in ("", "-") else bytes.fromhex(m_r)) != impl_rest:
                rec.disagree("backend-write", {"buffer": buf.hex(), "sends": sends, "impl": [p.hex() for p in pieces], "model": a})
