"""Single-caller scenarios on the real synchronous pool over the simulated network (B2): a small world with a
few origins, HTTP/1.1 or HTTP/2 servers, a virtual clock, and operations request / open / close / tick / server-close."""
from __future__ import annotations

import servers
import simnet


def h2_handler_factory(log):
    import h2.events

    def handler(peer, ev):
        if isinstance(ev, h2.events.RequestReceived):
            hs = dict(ev.headers)
            peer.reqs[ev.stream_id] = {"path": hs.get(b":path"), "headers": list(ev.headers), "body": b""}
        elif isinstance(ev, h2.events.DataReceived):
            peer.reqs[ev.stream_id]["body"] += ev.data
            peer.conn.acknowledge_received_data(ev.flow_controlled_length, ev.stream_id)
        elif isinstance(ev, h2.events.StreamEnded):
            r = peer.reqs[ev.stream_id]
            log.append((peer, ev.stream_id, r))
            if (r["path"] or b"").startswith(b"/rst"):
                peer.conn.reset_stream(ev.stream_id, error_code=2)        # the server refuses this one request; the connection lives on
                return
            body = b"echo:" + r["path"] + b":" + r["body"]
            peer.conn.send_headers(ev.stream_id, [(":status", "200"), ("content-length", str(len(body)))])
            peer.conn.send_data(ev.stream_id, body, end_stream=True)
    return handler


class World:
    def __init__(self, max_connections=10, max_keepalive_connections=None, keepalive_expiry=None, http2=False, scheme="http",
                 origin_policy=None):
        import httpcore
        self.httpcore = httpcore
        self.clock = servers.Clock()
        self.h2log = []
        self.peers = []          # (socket id, host, peer)
        self.scheme = scheme
        self.http2 = http2
        self.origin_policy = origin_policy

        def factory(rec):
            host = rec.get("host")
            if http2 and scheme == "https":
                p = simnet.H2Peer(handler=h2_handler_factory(self.h2log))
                p.reqs = {}
                p.server_closed = False
                orig_read = p.on_read

                def on_read(max_bytes, p=p, orig_read=orig_read):
                    if not p.out and p.server_closed:
                        return b""
                    return orig_read(max_bytes)
                p.on_read = on_read
                p.readable = lambda p=p: bool(p.out) or p.server_closed
            else:
                p = servers.H1Server(policy=self.origin_policy)
            p.host = host
            self.peers.append(p)
            return p

        self.net = simnet.Net(simnet.Behavior(peer_factory=factory))
        self.pool = httpcore.ConnectionPool(network_backend=simnet.SimBackend(self.net), max_connections=max_connections,
                                            max_keepalive_connections=max_keepalive_connections, keepalive_expiry=keepalive_expiry,
                                            http2=http2, ssl_context=simnet.RecordingSSLContext() if scheme == "https" else None)
        self.open = {}
        self.counter = 0

    def url(self, origin, path=None):
        self.counter += 1
        return f"{self.scheme}://o{origin}.example/" + (path if path is not None else f"r{self.counter}")

    def connects(self):
        out = {}
        for rec in self.net.log:
            if rec["op"] == "connect_tcp" and "sock" in rec:
                out[rec["host"]] = out.get(rec["host"], 0) + 1
        return out

    def snapshot(self):
        return {"conns": [c.info() for c in self.pool.connections], "open_sockets": self.net.open_sockets(),
                "connects": self.connects(), "now": self.clock.now}

    def do(self, op):
        """-> (kind, detail)"""
        kind = op[0]
        try:
            if kind == "req":
                u = self.url(op[1])
                r = self.pool.request("GET", u, extensions={"timeout": {"pool": 0}})
                return ("ok", {"status": r.status, "body": r.content, "url": u})
            if kind == "req_rst":
                u = self.url(op[1], path=f"rst{self.counter}" if self.http2 else None)
                r = self.pool.request("GET", u, extensions={"timeout": {"pool": 0}})
                return ("ok", {"status": r.status, "body": r.content, "url": u})
            if kind == "open":
                u = self.url(op[1])
                cm = self.pool.stream("GET", u, extensions={"timeout": {"pool": 0}})
                r = cm.__enter__()
                hid = len(self.open)
                self.open[hid] = (cm, r, u)
                return ("ok", {"status": r.status, "handle": hid, "url": u})
            if kind == "close":
                if op[1] not in self.open:
                    return ("noop", {})
                cm, r, u = self.open.pop(op[1])
                cm.__exit__(None, None, None)
                return ("ok", {})
            if kind == "read_close":
                if op[1] not in self.open:
                    return ("noop", {})
                cm, r, u = self.open.pop(op[1])
                body = r.read()
                cm.__exit__(None, None, None)
                return ("ok", {"body": body, "url": u})
            if kind == "tick":
                self.clock.tick(op[1])
                return ("ok", {})
            if kind == "srvclose":
                n = 0
                for p in self.peers:
                    if p.host == f"o{op[1]}.example" and not getattr(p, "closed_by_client", False) and not getattr(p, "closed", False):
                        p.server_closed = True
                        n += 1
                return ("ok", {"n": n})
            if kind == "poolclose":
                self.pool.close()
                return ("ok", {})
        except BaseException as e:  # noqa
            return ("error:" + simnet.exc_name(e), {"exc": repr(e)[:200]})
        raise ValueError(op)
