"""Interactive (gated) exploration of the real async pool under asyncio(anyio) and trio: the harness makes
every scheduling choice — which parked network operation completes and how, who is cancelled and when, clock
ticks, arrivals, releases of held responses, server-side closes — lets the runtime run to quiescence after each
choice, and evaluates direct oracles on the quiescent state (DESIGN §2.2 B3, §4)."""
from __future__ import annotations

import collections
import random

import servers
import simnet

FAULTS = ["ConnectError", "ConnectTimeout", "ReadError", "ReadTimeout", "WriteError", "WriteTimeout"]


def mk_exc(name):
    import httpcore
    return getattr(httpcore, name)("injected")


class Caller:
    def __init__(self, idx, origin, hold=False, pool_timeout=None, body=None, mode="read"):
        self.idx, self.origin, self.hold = idx, origin, hold
        self.mode = mode              # read | abandon (close without reading) | partial (first part, then close)
        self.partial = None
        self.pool_timeout = pool_timeout
        self.state = "new"            # new -> running -> holding -> done
        self.outcome = None
        self.token = f"c{idx}"
        self.body = None
        self.scope = None
        self.task = None
        self.release = None
        self.cancel_requested = False
        self.req_body = body


class Explorer:
    """One world: pool + simulated network + callers, driven step by step."""

    def __init__(self, runtime, cfg, rng):
        self.runtime, self.cfg, self.rng = runtime, cfg, rng
        self.trace = []
        self.violations = []          # (clause, detail)
        self.callers = []
        self.h2 = cfg.get("http2", False)
        # HTTP/2 offered by the pool, HTTP/1.1 chosen by every origin (ALPN): requests are handed a connection that is still being
        # established as if it could be shared, find out that it cannot, and are queued again
        self.h2_pool = self.h2 or cfg.get("h2_fallback", False)
        self.peers = []
        self.wrappers_peers = []      # proxy / SOCKS servers in front of the origin peers (kinds other than "direct")
        self.steplog = []             # per step: (callers done so far, ids of pooled connections)

    # ---- world ----------------------------------------------------------------------------------
    def peer_factory(self, rec):
        """what answers a new socket: the origin itself, or an HTTP proxy / SOCKS5 server in front of a fresh origin peer"""
        kind = self.cfg.get("kind", "direct")
        if kind in ("forward", "tunnel"):
            p = servers.ProxyServer(inner_factory=lambda _t=None: self.origin_peer(rec))
            if kind == "forward":
                p.forward = self.origin_peer(rec, h2=False)
            self.wrappers_peers.append(p)
            return p
        if kind == "socks5":
            p = servers.SocksServer(inner_factory=lambda _t=None: self.origin_peer(rec))
            self.wrappers_peers.append(p)
            return p
        return self.origin_peer(rec)

    def origin_peer(self, rec, h2=None):
        import scen
        if self.h2 if h2 is None else h2:
            p = simnet.H2Peer(handler=scen.h2_handler_factory([]), settings=self.cfg.get("h2_settings"))
            p.reqs = {}
            p.server_closed = False
            orig = p.on_read

            def on_read(max_bytes, p=p, orig=orig):
                if not p.out and p.server_closed:
                    return b""
                return orig(max_bytes)
            p.on_read = on_read
            p.readable = lambda p=p: bool(p.out) or p.server_closed
        else:
            pol = servers.closing_policy if self.rng.random() < self.cfg.get("p_conn_close", 0.0) else None
            if self.cfg.get("policies"):
                pol = getattr(servers, self.rng.choice(self.cfg["policies"]))
            seg = None
            if self.cfg.get("h1_segment"):
                sr = random.Random(self.rng.randrange(1 << 30))

                def seg(data, sr=sr):
                    out, i = [], 0
                    while i < len(data):
                        n = sr.choice([1, 3, 17, 200, 5000])
                        out.append(data[i:i + n])
                        i += n
                    return out
            p = servers.H1Server(policy=pol, segmenter=seg)
        p.host = rec.get("host")
        self.peers.append(p)
        return p

    def make_pool(self):
        import httpcore
        self.net = simnet.Net(simnet.Behavior(peer_factory=self.peer_factory), gated=True)
        if self.cfg.get("gate_close"):
            self.net.ungated_ops = set()
        kw = dict(max_connections=self.cfg["max_connections"], max_keepalive_connections=self.cfg.get("max_keepalive"),
                  keepalive_expiry=self.cfg.get("keepalive_expiry"), http2=self.h2_pool, retries=self.cfg.get("retries", 0),
                  network_backend=simnet.AsyncSimBackend(self.net))
        if self.h2 or self.tls():
            kw["ssl_context"] = simnet.RecordingSSLContext()
        kind = self.cfg.get("kind", "direct")
        if kind in ("forward", "tunnel"):
            kw["proxy"] = httpcore.Proxy("http://proxy.example:3128")
        elif kind == "socks5":
            kw["proxy"] = httpcore.Proxy("socks5://socks.example:1080")
        self.pool = httpcore.AsyncConnectionPool(**kw)

    def tls(self):
        kind = self.cfg.get("kind", "direct")
        return kind == "tunnel" or (kind != "forward" and (self.h2_pool or self.cfg.get("tls", False)))

    def url(self, c):
        scheme = "https" if self.tls() else "http"
        return f"{scheme}://o{c.origin}.example/{c.token}"

    # ---- caller coroutine -----------------------------------------------------------------------
    async def caller_main(self, c):
        import anyio
        c.state = "running"
        simnet.CUR_CALLER.set(c.idx)        # network operations record which caller performs them
        ext = {}
        if c.pool_timeout is not None:
            ext["timeout"] = {"pool": c.pool_timeout}
        try:
            with anyio.CancelScope() as scope:
                c.scope = scope
                async with self.pool.stream("POST" if c.req_body else "GET", self.url(c), content=c.req_body, extensions=ext) as resp:
                    c.status = resp.status
                    if c.hold:
                        c.state = "holding"
                        c.release = anyio.Event()
                        await c.release.wait()
                        c.state = "running"
                    chunks = []
                    if c.mode == "read":
                        async for part in resp.aiter_stream():
                            chunks.append(part)
                        c.body = b"".join(chunks)
                    elif c.mode == "partial":
                        async for part in resp.aiter_stream():
                            c.partial = part
                            break
                c.outcome = "ok" if c.mode == "read" else "abandoned"
            if scope.cancelled_caught:
                c.outcome = "cancelled"
        except BaseException as e:  # noqa
            c.outcome = "error:" + simnet.exc_name(e)
            c.exc = repr(e)[:160]
            if type(e).__name__ in ("CancelledError", "Cancelled"):
                if not getattr(c, "cancel_requested", False) and not getattr(self, "tearing_down", False):
                    # nobody cancelled this caller: a cancellation that belongs to another request has been handed to it
                    c.outcome = "error:Other"
                    c.exc = "spurious " + repr(e)[:160]
                    c.state = "done"
                    return
                c.outcome = "cancelled"
                c.state = "done"
                raise
        finally:
            c.state = "done"

    # ---- scheduling primitives -------------------------------------------------------------------
    def eligible_ok(self, p):
        rec = p.rec
        if rec["op"] == "read":
            sock = self.net.sockets[rec["sock"]]
            return (not sock.open) or sock.peer.readable()
        return True

    def choices(self):
        out = []
        for p in list(self.net.pending):
            if p.done:
                continue
            if self.eligible_ok(p):
                out.append(("ok", p))
        return out

    def snapshot(self):
        return {
            "conns": [c.info() for c in self.pool.connections],
            "open": self.net.open_sockets(),
            "callers": [(c.idx, c.state, c.outcome) for c in self.callers],
            "pending": [(p.rec["op"], p.rec.get("sock")) for p in self.net.pending if not p.done],
            "repr": repr(self.pool),
        }

    # ---- oracles on a quiescent state -------------------------------------------------------------
    def check_quiescent(self, where):
        pool = self.pool
        maxc = self.cfg["max_connections"]
        conns = pool.connections
        if len(conns) > maxc:
            self.violations.append(("C04:limit-exceeded", {"where": where, "conns": [c.info() for c in conns]}))
        closes = sum(1 for p in self.net.pending if not p.done and p.rec["op"] == "close")
        if len(self.net.open_sockets()) > maxc + closes:
            self.violations.append(("C04:streams-exceed-limit", {"where": where, "open": self.net.open_sockets(), "max": maxc,
                                                                   "conns": [c.info() for c in conns]}))
        # C07: no serviceable waiter (skipped while some task is still inside a connection close: its pass follows)
        closing_in_progress = any(p.rec["op"] == "close" or p.rec.get("in_close") for p in self.net.pending if not p.done)
        for pr in ([] if closing_in_progress else list(pool._requests)):
            if pr.is_queued():
                origin = pr.request.url.origin
                avail = [c for c in conns if c.can_handle_request(origin) and c.is_available()]
                # an idle connection that some request holds is about to be used and is not free to be evicted (C07.pass_complete, `freeIdle`)
                held = {id(r.connection) for r in pool._requests if r.connection is not None}
                idle = [c for c in conns if c.is_idle() and id(c) not in held]
                stale = [c for c in conns if c.is_closed() or c.has_expired()]
                if avail or len(conns) < maxc or idle or stale:
                    why = "available" if avail else "room" if len(conns) < maxc else "idle" if idle else "stale"
                    self.violations.append(("C07:serviceable-waiter", {"where": where, "why": why, "conns": [c.info() for c in conns],
                                                                         "repr": repr(pool)}))

    def check_final(self):
        """all callers are done: nothing may be left counted, no connection in limbo (C05); responses belong (C01)"""
        pool = self.pool
        if pool._requests:
            self.violations.append(("C05:request-still-counted", {"repr": repr(pool), "n": len(pool._requests)}))
        for c in pool.connections:
            ok = c.is_idle() or c.is_closed() or c.has_expired()
            if not ok:
                self.violations.append(("C05:connection-in-limbo", {"info": c.info(), "repr": repr(pool)}))
        self.check_crosstalk()

    def check_crosstalk(self):
        """C01: every response (or part of one) a caller received is the echo of its own request; no socket was reused early"""
        if getattr(self, "_crosstalk_done", False):
            return
        self._crosstalk_done = True
        for c in self.callers:
            target = (self.url(c).encode() if self.cfg.get("kind") == "forward" else b"/" + c.token.encode())   # forwarding proxies see the absolute URL
            want = b"echo:" + target + b":" + (c.req_body or b"")
            if c.outcome == "ok":
                if c.body not in (want, want + b":" + b"z" * 3000):
                    self.violations.append(("C01:wrong-response", {"caller": c.idx, "got": repr(c.body)[:80], "want": repr(want)[:80]}))
            if c.partial is not None and not (want + b":" + b"z" * 3000).startswith(c.partial):
                self.violations.append(("C01:wrong-response", {"caller": c.idx, "got": repr(c.partial)[:80], "want": repr(want)[:80], "partial": True}))
        for p in self.peers:
            for v in getattr(p, "reuse_violations", []):
                self.violations.append(("C01:reused-before-exchange-finished", dict(v, first_bytes=repr(v["first_bytes"]))))

    def check_after_close(self):
        if self.net.open_sockets():
            self.violations.append(("C06:stream-left-open", {"open": self.net.open_sockets(),
                                                               "targets": [self.net.sockets[i].target for i in self.net.open_sockets()]}))


# -----------------------------------------------------------------------------------------------------
# runtimes
# -----------------------------------------------------------------------------------------------------

def conn_serial(ex, conn):
    """a stable identity for a connection object (id() is reused once an object has been collected, which made the signature of a
    finding depend on the allocator)"""
    n = getattr(conn, "_verif_serial", None)
    if n is None:
        ex._serials = getattr(ex, "_serials", 0) + 1
        n = ex._serials
        try:
            conn._verif_serial = n
        except Exception:  # noqa
            n = id(conn)
    return n


def make_vloop():
    import asyncio

    class VLoop(asyncio.SelectorEventLoop):
        """asyncio loop on a virtual clock: time only moves when the harness ticks it"""
        _vtime = 1000.0

        def time(self):
            return self._vtime

    return VLoop()


def run_asyncio(ex, schedule_fn):
    import asyncio

    async def main():
        import anyio
        loop = asyncio.get_running_loop()

        async def settle():
            quiet = False
            for _ in range(3):
                # run until nobody but us is ready (three rounds: wake-ups scheduled via call_soon chains)
                quiet = False
                for _ in range(2000):
                    await asyncio.sleep(0)
                    if len(loop._ready) == 0:
                        quiet = True
                        break
            # a task that is still runnable after thousands of turns does not wait for anything: it spins (the asyncio counterpart of
            # the step budget of the trio runner)
            ex.spin_rounds = 0 if quiet else getattr(ex, "spin_rounds", 0) + 1
            if ex.spin_rounds >= 8:
                ex.livelock = True

        ex.tick = lambda dt: setattr(loop, "_vtime", loop._vtime + dt)
        ex.now = lambda: loop._vtime
        async with anyio.create_task_group() as tg:
            ex.make_pool()

            def spawn(c):
                async def runner():
                    try:
                        await ex.caller_main(c)
                    except BaseException:  # noqa  (native cancellation)
                        pass
                c.task = asyncio.ensure_future(runner())

            await schedule_fn(ex, spawn, settle)
            if getattr(ex, "livelock", False):
                ex.violations.append(("C07:live-lock", {"callers": [(c.idx, c.state) for c in ex.callers if c.state != "done"], "repr": repr(ex.pool),
                                                        "conns": [c.info() for c in ex.pool.connections], "runtime": "asyncio"}))
            # stop anything still blocked so that the loop can end
            ex.tearing_down = True
            for c in ex.callers:
                if c.task is not None and not c.task.done():
                    c.task.cancel()
            await settle()
            tg.cancel_scope.cancel()

    asyncio.run(main(), loop_factory=make_vloop)


def run_trio(ex, schedule_fn):
    import trio
    import trio.testing

    class StepBudget(trio.abc.Instrument):
        """Tasks that keep each other runnable for ever (a request bounced between the pool and a connection without ever waiting)
        would keep `wait_all_tasks_blocked` from returning: after too many task steps without quiescence the run is cut short."""
        steps = 0
        scope = None

        def before_task_step(self, task):
            self.steps += 1
            if self.steps > 400000 and self.scope is not None and not getattr(ex, "livelock", False):
                ex.livelock = True
                ex.tearing_down = True
                self.scope.cancel()

    budget = StepBudget()

    async def main():
        async def settle():
            budget.steps = 0
            await trio.testing.wait_all_tasks_blocked()

        ex.tick = lambda dt: clock.jump(dt)
        ex.now = lambda: clock.current_time()
        async with trio.open_nursery() as nursery:
            budget.scope = nursery.cancel_scope
            ex.make_pool()

            def spawn(c):
                async def runner():
                    try:
                        await ex.caller_main(c)
                    except BaseException:  # noqa
                        pass
                nursery.start_soon(runner)

            await schedule_fn(ex, spawn, settle)
            ex.tearing_down = True
            nursery.cancel_scope.cancel()

    clock = trio.testing.MockClock()
    import trio._core._run as trio_run
    trio_run._r.seed(getattr(ex, "trio_seed", 0))      # trio reverses run batches at random: make it replayable
    trio.run(main, clock=clock, instruments=[budget])
    if getattr(ex, "livelock", False):
        ex.violations.append(("C07:live-lock", {"callers": [(c.idx, c.state) for c in ex.callers if c.state != "done"], "repr": repr(ex.pool),
                                                "conns": [c.info() for c in ex.pool.connections]}))


# -----------------------------------------------------------------------------------------------------
# the random schedule
# -----------------------------------------------------------------------------------------------------

async def random_schedule(ex, spawn, settle):
    rng, cfg = ex.rng, ex.cfg
    ncallers = cfg["callers"]
    to_spawn = list(range(ncallers))
    steps = 0
    p_fault, p_cancel = cfg.get("p_fault", 0.0), cfg.get("p_cancel", 0.0)
    while steps < cfg.get("max_steps", 120):
        steps += 1
        opts = []
        if to_spawn:
            opts += ["spawn"] * 3
        ch = ex.choices()
        if ch:
            opts += ["ok"] * 6
        pend = [p for p in ex.net.pending if not p.done]
        if pend and p_fault:
            opts += ["fault"] * max(1, int(10 * p_fault))
        running = [c for c in ex.callers if c.state in ("running", "holding") and not c.cancel_requested]
        if running and p_cancel:
            opts += ["cancel"] * max(1, int(10 * p_cancel))
        holding = [c for c in ex.callers if c.state == "holding"]
        if holding:
            opts += ["release"] * 2
        if cfg.get("srvclose") and ex.peers:
            opts += ["srvclose"]
        if cfg.get("pool_timeout") is not None and any(c.state == "running" for c in ex.callers):
            opts += ["tick"]
        if not opts:
            break
        a = rng.choice(opts)
        if a == "spawn":
            i = to_spawn.pop(0)
            c = Caller(i, rng.randrange(cfg["origins"]), hold=rng.random() < cfg.get("p_hold", 0.3),
                       pool_timeout=(None if ("p_no_timeout" in cfg and rng.random() < cfg["p_no_timeout"]) else cfg.get("pool_timeout")), body=(b"B%d" % i if rng.random() < cfg.get("p_body", 0.0) else None),
                       mode=(rng.choice(cfg["modes"]) if cfg.get("modes") else "read"))     # no extra draw without "modes": stored replays stay valid
            ex.callers.append(c)
            spawn(c)
            ex.trace.append(("spawn", i, c.origin, c.hold))
        elif a == "ok":
            kind, p = rng.choice(ch)
            ex.trace.append(("ok", p.rec["op"], p.rec.get("sock")))
            p.event.set()
        elif a == "fault":
            p = rng.choice(pend)
            op = p.rec["op"]
            name = rng.choice({"connect_tcp": ["ConnectError", "ConnectTimeout"], "start_tls": ["ConnectError", "ConnectTimeout"],
                               "read": ["ReadError", "ReadTimeout"], "write": ["WriteError", "WriteTimeout"]}.get(op, ["ReadError"]))
            if op in ("close", "sleep"):
                continue
            p.inject = mk_exc(name)
            ex.trace.append(("fault", op, p.rec.get("sock"), name))
            p.event.set()
        elif a == "cancel":
            c = rng.choice(running)
            c.cancel_requested = True
            mode = "scope"
            if ex.runtime == "asyncio" and cfg.get("native_cancel") and rng.random() < 0.5:
                mode = "native"
            # is some *other* caller in the middle of establishing a connection (the cancelled one may merely be waiting for it)?
            shared = any(p.rec["op"] in ("connect_tcp", "start_tls") and p.rec.get("caller") not in (None, c.idx)
                         for p in ex.net.pending if not p.done)
            ex.trace.append(("cancel", c.idx, mode, "while-another-caller-establishes" if shared else "-"))
            if mode == "scope" and c.scope is not None:
                c.scope.cancel()
            elif mode == "native" and c.task is not None:
                c.task.cancel()
            else:
                continue
        elif a == "release":
            c = rng.choice(holding)
            ex.trace.append(("release", c.idx))
            c.release.set()
        elif a == "tick":
            dt = rng.choice([cfg["pool_timeout"] / 2, cfg["pool_timeout"], cfg["pool_timeout"] * 2])
            ex.trace.append(("tick", dt))
            ex.tick(dt)
            await settle()          # timers fire on the next loop iteration
        elif a == "srvclose":
            p = rng.choice(ex.peers)
            p.server_closed = True
            ex.trace.append(("srvclose", ex.peers.index(p)))
        await settle()
        ex.steplog.append(({c.idx for c in ex.callers if c.state == "done"}, [conn_serial(ex, c) for c in ex.pool.connections]))
        ex.check_quiescent(len(ex.trace))
        if not to_spawn and all(c.state == "done" for c in ex.callers):
            break
    # ---- drain fairly: resolve everything, release everything -------------------------------------------
    for _ in range(400):
        progressed = False
        if cfg.get("pool_timeout") is not None:
            ex.tick(0.0)
        for c in ex.callers:
            if c.state == "holding":
                c.release.set()
                progressed = True
        ch = ex.choices()
        if ch:
            ch[0][1].event.set()
            progressed = True
        elif to_spawn:
            i = to_spawn.pop(0)
            c = Caller(i, rng.randrange(cfg["origins"]), pool_timeout=cfg.get("pool_timeout"))
            ex.callers.append(c)
            spawn(c)
            progressed = True
        await settle()
        ex.check_quiescent("drain")
        if not progressed:
            break
    stuck = [c for c in ex.callers if c.state != "done"]
    if not stuck:
        # capacity probe (C05.capacity / C07): the pool's full capacity must still be available to fresh requests
        probes = []
        for j in range(cfg["max_connections"]):
            c = Caller(1000 + j, 100 + j)
            probes.append(c)
            ex.callers.append(c)
            spawn(c)
        for _ in range(60 * len(probes)):
            await settle()
            ch = ex.choices()
            if not ch:
                break
            ch[0][1].event.set()
        await settle()
        lost = [c for c in probes if c.outcome != "ok"]
        if lost:
            ex.violations.append(("C05:capacity-lost", {"probes": [(c.idx, c.state, c.outcome) for c in probes], "snapshot": ex.snapshot()}))
            ex.violations.append(("C07:caller-blocked-forever", {"callers": [(c.idx, c.state) for c in lost], "snapshot": ex.snapshot(),
                                                                   "phase": "capacity-probe"}))
            stuck = []
            ex.probe_failed = True
        else:
            ex.callers = [c for c in ex.callers if c not in probes] + []
            ex.probes_ok = True
    if stuck:
        ex.violations.append(("C07:caller-blocked-forever", {"callers": [(c.idx, c.state) for c in stuck], "snapshot": ex.snapshot()}))
    elif not getattr(ex, "probe_failed", False):
        ex.check_final()
    ex.check_crosstalk()
    ex.net.gated = False            # the closing operations of pool.aclose() complete at once
    if not stuck and not getattr(ex, "probe_failed", False):
        await ex.pool.aclose()
        await settle()
        ex.check_after_close()


class virtual_time:
    """While a schedule runs, every httpcore module that imported `time` sees the explorer's virtual clock."""

    def __init__(self, ex):
        self.ex = ex
        self.saved = []

    def __enter__(self):
        import sys
        import time as real_time
        ex = self.ex

        class VTime:
            @staticmethod
            def monotonic():
                now = getattr(ex, "now", None)
                return now() if now else 1000.0

            @staticmethod
            def time():
                return VTime.monotonic()

            def __getattr__(self, name):
                return getattr(real_time, name)

        vt = VTime()
        for name, m in list(sys.modules.items()):
            if (name == "httpcore" or name.startswith("httpcore.")) and getattr(m, "time", None) is real_time:
                self.saved.append(m)
                m.time = vt
        return self

    def __exit__(self, *a):
        import time as real_time
        for m in self.saved:
            m.time = real_time


def run_schedule(ex, schedule_fn):
    with virtual_time(ex):
        if ex.runtime == "asyncio":
            run_asyncio(ex, schedule_fn)
        else:
            run_trio(ex, schedule_fn)
    return ex


def run_one(runtime, cfg, seed):
    rng = random.Random(seed)
    ex = Explorer(runtime, cfg, rng)
    ex.trio_seed = seed
    return run_schedule(ex, random_schedule)


def gen_cfg(rng, profile):
    cfg = {"max_connections": rng.choice([1, 1, 2]), "origins": rng.choice([1, 2, 3]), "callers": rng.randint(2, 5),
           "max_keepalive": rng.choice([None, None, 0, 1]), "p_hold": 0.3, "http2": False, "p_conn_close": rng.choice([0.0, 0.3])}
    cfg.update(profile)
    if "kind" not in cfg:
        # how the pool reaches the origin: directly (half of the runs), through a forwarding / tunnelling HTTP proxy or a SOCKS5 proxy
        kinds = ["direct", "direct", "direct", "tunnel", "socks5", "socks5"] + ([] if cfg.get("http2") else ["forward"])
        cfg["kind"] = rng.choice(kinds)
        cfg["tls"] = rng.random() < 0.5
    return cfg


def explore(ctx, rec, pid, profile, n_quick, n_thorough, want_prefixes, runtimes=("asyncio", "trio")):
    """Run random schedules; report violations whose clause starts with one of want_prefixes for this property."""
    rng = ctx.rng
    n = n_quick if ctx.quick else n_thorough
    if ctx.broken and ctx.quick:
        n *= 5          # a proof obligation or a tie no longer checks: this is the search for a failing input - look harder
    import core
    corpus = []
    if not getattr(ctx, "_corpus_done_" + pid, False):
        setattr(ctx, "_corpus_done_" + pid, True)
        for k in core.load_known():
            ra = k.get("replay_args")
            if k["property"] == pid and ra and ra.get("engine") == "concur":
                corpus.append((ra["runtime"], ra["cfg"], ra["seed"]))
    for i in range(len(corpus) + n):
        if i < len(corpus):
            rt, cfg, seed = corpus[i]
            rec.dist[f"{pid}:corpus"] += 1
        else:
            cfg = gen_cfg(rng, profile)
            seed = rng.randrange(1 << 30)
            rt = runtimes[i % len(runtimes)]
        ex = run_one(rt, cfg, seed)
        rec.evals += 1
        rec.distinct.add((rt, tuple(map(str, ex.trace))))
        rec.dist[f"{pid}:schedules:{rt}"] += 1
        rec.dist[f"{pid}:steps"] += len(ex.trace)
        for c in ex.callers:
            rec.dist[f"{pid}:outcome:{c.outcome}"] += 1
        for clause, detail in ex.violations:
            if not clause.startswith(tuple(want_prefixes)):
                rec.dist["other-property:" + clause] += 1
                continue
            sig = signature_of(clause, detail, cfg, ex)
            rec.fail(clause, sig, {"runtime": rt, "cfg": cfg, "seed": seed, "trace": [list(map(str, t)) for t in ex.trace][-60:],
                                   "detail": detail, "how_to_replay": "concur.run_one(runtime, cfg, seed)"})
        if len(rec.samples) < 6 and len(ex.trace) > 12:
            rec.samples.append({"runtime": rt, "cfg": cfg, "trace_head": [list(map(str, t)) for t in ex.trace][:14],
                                "outcomes": [c.outcome for c in ex.callers]})


# oracles whose failures are attributed to the connection classes (direct / forward / tunnel / SOCKS): the kind is part of the signature.
# The C05 / C07 "blocked" clauses are pool-level (F-C05-f is the same defect whatever the pool's connections are) and stay kind-agnostic.
KIND_SENSITIVE = ("C04:streams-exceed-limit", "C04:limit-exceeded", "C06:stream-left-open", "C07:serviceable-waiter", "C01:wrong-response",
                  "C01:reused-before-exchange-finished")


def signature_of(clause, detail, cfg, ex):
    """Reduce a failing run to what identifies the defect (used to match known findings)."""
    sig = {"proto": "h2" if cfg.get("http2") else "h1"}
    if cfg.get("kind", "direct") != "direct" and clause in KIND_SENSITIVE:
        sig["kind"] = cfg["kind"]
    cancels = [t for t in ex.trace if t[0] == "cancel"]
    faults = [t for t in ex.trace if t[0] == "fault"]
    sig["trigger"] = "native-cancel" if any(t[2] == "native" for t in cancels) else "cancel" if cancels else "fault" if faults else "none"
    def state_of(info):
        return info.split(", ")[2] if info.count(", ") >= 2 else info
    if clause == "C05:connection-in-limbo":
        sig["conn_state"] = state_of(detail.get("info", ""))
    if clause == "C04:streams-exceed-limit":
        first_tls = next((i for i, t in enumerate(ex.trace) if t[0] == "ok" and t[1] == "start_tls"), len(ex.trace))
        first_cancel = next((i for i, t in enumerate(ex.trace) if t[0] == "cancel"), None)
        shared = any(t[0] == "cancel" and len(t) > 3 and t[3] == "while-another-caller-establishes" for t in ex.trace)
        sig["pattern"] = "cancel-during-shared-establishment" if (cfg.get("http2") and (shared or (first_cancel is not None and first_cancel < first_tls))) else "other"
    if clause in ("C05:capacity-lost", "C07:caller-blocked-forever"):
        snap = detail.get("snapshot", {})
        sig["conn_states"] = sorted(set(state_of(i) for i in snap.get("conns", [])))
        # how many callers left in the very step in which the orphaned connection appeared in the pool?
        limbo_ids = [conn_serial(ex, c) for c in ex.pool.connections if not (c.is_idle() or c.is_closed() or c.has_expired())]
        exits = None
        for lid in limbo_ids:
            prev_done, prev_ids = set(), []
            for done, ids in ex.steplog:
                if lid in ids and lid not in prev_ids:
                    exits = len(done - prev_done)
                    break
                prev_done, prev_ids = done, ids
        sig["exits_in_creation_step"] = "unknown" if exits is None else ("2+" if exits >= 2 else str(exits))
        if any(t[0] == "tick" for t in ex.trace) and sig["trigger"] in ("none", "fault", "cancel"):
            sig["trigger"] = "pool-timeout-or-" + sig["trigger"] if sig["trigger"] != "none" else "pool-timeout"
    return sig


def run_c07(ctx, rec):
    explore(ctx, rec, "C07", {"p_fault": 0.15, "p_cancel": 0.0, "pool_timeout": None}, 60, 4000, ["C07:"])
    explore(ctx, rec, "C07", {"p_fault": 0.1, "p_cancel": 0.12, "pool_timeout": None, "gate_close": True, "p_conn_close": 0.4}, 120, 8000, ["C07:"])
    explore(ctx, rec, "C07", {"p_fault": 0.05, "p_cancel": 0.05, "pool_timeout": 4.0, "gate_close": True, "p_conn_close": 0.4,
                              "max_connections": 1}, 120, 8000, ["C07:"])
    # HTTP/2 enabled: requests share a connection (also one that is still being established - directly, through a tunnel or SOCKS)
    explore(ctx, rec, "C07", {"p_fault": 0.0, "p_cancel": 0.0, "http2": True, "p_conn_close": 0.0, "pool_timeout": None}, 60, 3000, ["C07:"])
    explore(ctx, rec, "C07", {"p_fault": 0.05, "p_cancel": 0.05, "http2": True, "p_conn_close": 0.0, "pool_timeout": None,
                              "max_connections": 1}, 60, 3000, ["C07:"])
    # some callers wait with a pool time-out, others without one: a waiter that leaves with PoolTimeout hands on what it was given
    explore(ctx, rec, "C07", {"p_fault": 0.0, "p_cancel": 0.0, "pool_timeout": 4.0, "p_no_timeout": 0.5, "gate_close": True, "p_conn_close": 0.2,
                              "max_connections": 1, "p_hold": 0.5, "callers": 4}, 40, 3000, ["C07:"])
    # HTTP/2 offered, HTTP/1.1 negotiated: the request that finds the shared connection taken is queued again and must be served by
    # whatever capacity there is (room for a new connection, an idle one to evict) without waiting for another event
    explore(ctx, rec, "C07", {"p_fault": 0.0, "p_cancel": 0.0, "h2_fallback": True, "p_conn_close": 0.0, "pool_timeout": None, "p_hold": 0.6},
            80, 3000, ["C07:"])
    explore(ctx, rec, "C07", {"p_fault": 0.05, "p_cancel": 0.05, "h2_fallback": True, "p_conn_close": 0.2, "pool_timeout": None, "p_hold": 0.5,
                              "origins": 1}, 60, 3000, ["C07:"])
