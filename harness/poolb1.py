"""B1 lock-step on the assignment pass: the real ConnectionPool._assign_requests_to_connections run on
stub connections whose status bits the harness sets, compared with the Lean `Pool.pass`."""
from __future__ import annotations

import sys

import core


def origin_of(i):
    import httpcore
    return httpcore.Origin(b"http", b"h%d" % i, 80)


def make_stub_class():
    import httpcore

    class Stub(httpcore.ConnectionInterface):
        def __init__(self, cid, origin_idx, closed=False, expired=False, idle=False, available=False):
            self.cid, self.origin_idx = cid, origin_idx
            self.origin = origin_of(origin_idx)
            self.closed, self.expired, self.idle, self.available = closed, expired, idle, available
            self.close_calls = 0

        def can_handle_request(self, origin):
            return origin == self.origin

        def is_available(self):
            return self.available

        def has_expired(self):
            return self.expired

        def is_idle(self):
            return self.idle

        def is_closed(self):
            return self.closed

        def close(self):
            self.close_calls += 1

        def info(self):
            return f"stub {self.cid}"

        def handle_request(self, request):
            raise RuntimeError("stub")

    return Stub


def gen_case(rng):
    maxc = rng.choice([1, 1, 2, 2, 3, 4])
    mk = rng.choice([0, 1, 1, 2, 3, None])
    nconn = rng.randint(0, maxc)
    conns = []
    for cid in range(nconn):
        kind = rng.choice(["idle", "idle", "active", "active-avail", "closed", "expired-idle", "expired-active", "new", "odd"])
        bits = {"idle": (0, 0, 1, 1), "active": (0, 0, 0, 0), "active-avail": (0, 0, 0, 1), "closed": (1, 0, 0, 0),
                "expired-idle": (0, 1, 1, 1), "expired-active": (0, 1, 0, 1), "new": (0, 0, 0, rng.randint(0, 1)),
                "odd": tuple(rng.randint(0, 1) for _ in range(4))}[kind]
        conns.append((cid, rng.randint(0, 2), bits))
    reqs = []
    for rid in range(rng.randint(0, 4)):
        assigned = rng.choice([None, None, None, rng.randrange(nconn) if nconn else None])
        reqs.append((rid, rng.randint(0, 3), assigned))
    return {"maxc": maxc, "mk": mk, "new_avail": rng.randint(0, 1), "conns": conns, "reqs": reqs}


def model_line(case):
    maxc, mk = case["maxc"], case["mk"]
    eff_mk = maxc if mk is None else min(maxc, mk)
    cs = ",".join(f"{cid}:{o}:{''.join(map(str, bits))}" for cid, o, bits in case["conns"]) or "-"
    rs = ",".join(f"{rid}:{o}:{'-' if a is None else a}" for rid, o, a in case["reqs"]) or "-"
    return f"poolpass {maxc} {eff_mk} {case['new_avail']} {cs} {rs} {len(case['conns'])}"


def run_impl(case):
    """-> dict(conns=[ids], closing=[ids], reqs=[(rid, conn id|None)], created=[ids])"""
    import httpcore
    from httpcore._sync.connection_pool import PoolRequest
    Stub = make_stub_class()
    counter = [len(case["conns"])]
    created = []

    class P(httpcore.ConnectionPool):
        def create_connection(self, origin):
            idx = int(origin.host[1:])
            s = Stub(counter[0], idx, available=bool(case["new_avail"]))
            counter[0] += 1
            created.append(s)
            return s

    pool = P(max_connections=case["maxc"], max_keepalive_connections=case["mk"])
    stubs = [Stub(cid, o, *map(bool, bits)) for cid, o, bits in case["conns"]]
    pool._connections = list(stubs)
    prs = []
    for rid, o, a in case["reqs"]:
        pr = PoolRequest(httpcore.Request("GET", httpcore.URL(scheme=b"http", host=b"h%d" % o, port=80, target=b"/")))
        if a is not None:
            pr.assign_to_connection(stubs[a])
        prs.append(pr)
    pool._requests = list(prs)
    closing = pool._assign_requests_to_connections()
    return {
        "conns": [c.cid for c in pool._connections],
        "closing": [c.cid for c in closing],
        "reqs": [(rid, None if pr.connection is None else pr.connection.cid) for (rid, _, _), pr in zip(case["reqs"], prs)],
        "created": [c.cid for c in created],
        "stubs": {s.cid: s for s in stubs + created},
    }


def parse_model(ans):
    d = core.kv(ans)
    ids = lambda s: [] if s == "-" else [int(x) for x in s.split(",")]
    reqs = [] if d["reqs"] == "-" else [(int(a), None if b == "-" else int(b)) for a, b in (x.split(":") for x in d["reqs"].split(","))]
    return {"conns": ids(d["conns"]), "closing": ids(d["closing"]), "reqs": reqs}


def compare(impl, model):
    for k in ("conns", "closing", "reqs"):
        if impl[k] != model[k]:
            return f"{k}: impl={impl[k]} model={model[k]}"
    return None
