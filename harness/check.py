"""Entry point of every registered check:  bin/check <Cxx> [--tier quick|thorough] [--replay file]

Exit codes: 0 property held on everything explored (known findings are printed, not alarms);
1 a VIOLATION line was printed; 2 harness error / time-out (never a violation)."""
from __future__ import annotations

import argparse
import importlib
import json
import os
import sys
import time
import traceback

HERE = os.path.dirname(os.path.abspath(__file__))
sys.path.insert(0, HERE)
import core  # noqa: E402


def main():
    ap = argparse.ArgumentParser()
    ap.add_argument("pid")
    ap.add_argument("--tier", default=os.environ.get("VERIF_TIER", "quick"))
    ap.add_argument("--replay", default=None)
    a = ap.parse_args()
    tier = a.tier if a.tier in ("quick", "thorough") else "quick"
    seed = int(os.environ.get("VERIF_SEED", "0") or 0)
    pid = a.pid.upper()
    ctx = core.Ctx(pid, tier, seed)
    core.use_repo()
    mod = importlib.import_module(f"props.{pid.lower()}")

    if a.replay:
        return mod.replay(ctx, a.replay)

    # 1. regenerate + build -----------------------------------------------------------------
    b = core.build([mod.MODULE])
    if not b.extract_ok:
        ctx.broken.append({"kind": "tie-A-extractor", "what": b.extract_err})
    if not b.props_ok:
        ctx.broken.append({"kind": "lean-build", "modules": b.failed_modules, "at": b.failed_decls[:20],
                           "log_tail": b.log[-3000:]})

    # 2. audit --------------------------------------------------------------------------------
    discharged = 0
    audit_rows = {}
    if b.props_ok:
        res, raw = core.audit(mod.MODULE, mod.THEOREMS)
        for t, ax in res.items():
            if ax is None:
                ctx.broken.append({"kind": "theorem-missing", "theorem": t})
            elif not set(ax) <= core.STD_AXIOMS:
                ctx.broken.append({"kind": "non-standard-axioms", "theorem": t, "axioms": ax})
            else:
                discharged += 1
            audit_rows[t] = ax
        hits = core.grep_forbidden(core.lean_sources())
        if hits:
            ctx.broken.append({"kind": "forbidden-construct", "hits": hits[:20]})
        if tier == "thorough":
            ok, out = core.leanchecker([mod.MODULE])
            ctx.stats["leanchecker"] = "ok" if ok else out[-1500:]
            if not ok:
                ctx.broken.append({"kind": "leanchecker", "log_tail": out[-1500:]})

    # 3./4. correspondence, oracles, known findings --------------------------------------------
    driver = core.Driver() if b.driver_ok else None
    if driver is None:
        ctx.broken.append({"kind": "driver-build", "log_tail": b.log[-3000:]})
    cov = mod.run(ctx, driver)

    # 5. verdict ------------------------------------------------------------------------------
    for line in ctx.known_lines:
        print(line)
    rc = 0
    if ctx.violations:
        rc = 1
        seen = set()
        for v in ctx.violations:
            if v["replay"] in seen:
                continue
            seen.add(v["replay"])
            print(f"VIOLATION property={pid} replay={v['replay']}")
    elif ctx.broken:
        rc = 1
        path = core.write_replay(ctx, "unproved", {
            "property": pid,
            "what": "a proof obligation or the model/implementation correspondence no longer checks; "
                    "the failing-input search found no input on which the property fails",
            "no_longer_checks": ctx.broken,
        })
        print(f"VIOLATION property={pid} replay={path} no-failing-input-found")

    coverage = {
        "obligations": len(mod.THEOREMS),
        "discharged": discharged,
        "checker_cmd": f"cd lean && lake build {mod.MODULE} && lake env lean <#print axioms of the {len(mod.THEOREMS)} property theorems>"
                       + (" && lake env leanchecker " + mod.MODULE if tier == "thorough" else ""),
        "trusted_base": mod.TRUSTED,
        "theorems": audit_rows,
        "broken": ctx.broken,
        "known_findings_reported": ctx.known_lines,
    }
    coverage.update(cov or {})
    coverage.update(ctx.stats)
    core.write_evidence(ctx, coverage, mod.ASSUMPTIONS, len(ctx.violations) + (1 if (ctx.broken and not ctx.violations) else 0))
    print(f"[{pid}] tier={tier} seed={seed} theorems={discharged}/{len(mod.THEOREMS)} "
          f"evaluations={coverage.get('evaluations')} distinct={coverage.get('distinct_nontrivial')} "
          f"disagreements={coverage.get('disagreements', 0)} known={len(ctx.known_lines)} "
          f"violations={len(ctx.violations)} wall={time.time() - ctx.t0:.1f}s")
    return rc


def _watchdog(signum, frame):
    import faulthandler
    sys.stderr.write("check timed out (harness watchdog)\n")
    faulthandler.dump_traceback(file=sys.stderr)
    os._exit(2)


if __name__ == "__main__":
    import signal
    signal.signal(signal.SIGALRM, _watchdog)
    signal.alarm(int(os.environ.get("VERIF_TIMEOUT", "900" if os.environ.get("VERIF_TIER", "quick") != "thorough" and "thorough" not in sys.argv else "5400")))
    try:
        sys.exit(main())
    except SystemExit:
        raise
    except BaseException:
        traceback.print_exc()
        sys.exit(2)
