"""Simulated peers: an HTTP/1.1 origin server, an HTTP proxy (forward + CONNECT tunnel), a SOCKS5 server.
All are `simnet.Peer`s working in immediate mode: they react to what the client writes and queue what it will read."""
from __future__ import annotations

import simnet


def parse_h1_requests(buf: bytearray):
    """Incremental independent request parser: pops complete requests off `buf`. -> list of dict"""
    out = []
    while True:
        i = buf.find(b"\r\n\r\n")
        if i < 0:
            return out
        head = bytes(buf[:i])
        lines = head.split(b"\r\n")
        parts = lines[0].split(b" ")
        hs = []
        for l in lines[1:]:
            n, _, v = l.partition(b":")
            hs.append((n, v.strip(b" \t")))
        low = {}
        for n, v in hs:
            low.setdefault(n.lower(), v)
        rest = buf[i + 4:]
        if low.get(b"transfer-encoding", b"").lower() == b"chunked":
            body = b""
            pos = 0
            done = False
            while True:
                j = rest.find(b"\r\n", pos)
                if j < 0:
                    break
                try:
                    n = int(bytes(rest[pos:j]).split(b";")[0], 16)
                except ValueError:
                    return out
                if n == 0:
                    k = rest.find(b"\r\n\r\n", j)
                    if rest[j + 2:j + 4] == b"\r\n":
                        pos = j + 4
                        done = True
                    elif k >= 0:
                        pos = k + 4
                        done = True
                    break
                if len(rest) < j + 2 + n + 2:
                    break
                body += bytes(rest[j + 2:j + 2 + n])
                pos = j + 2 + n + 2
            if not done:
                return out
            consumed = i + 4 + pos
        else:
            n = int(low.get(b"content-length", b"0") or b"0")
            if len(rest) < n:
                return out
            body = bytes(rest[:n])
            consumed = i + 4 + n
        out.append({"method": parts[0], "target": parts[1] if len(parts) > 1 else b"", "version": parts[2] if len(parts) > 2 else b"",
                    "headers": hs, "body": body, "raw_head": head})
        del buf[:consumed]


class H1Server(simnet.Peer):
    """Echo-style origin server.  `policy(server, req, index) -> bytes | None` builds the response for the
    index-th request on this connection (default: 200 with a body naming the request target)."""

    def __init__(self, policy=None, segmenter=None, name="origin", alpn="http/1.1"):
        self.inbuf = bytearray()
        self.written = bytearray()
        self.out = []
        self.requests = []
        self.policy = policy or default_policy
        self.segmenter = segmenter or (lambda b: [b])
        self.name = name
        self.alpn = alpn
        self.server_closed = False      # the server has sent FIN: reads return b"" once `out` is drained
        self.close_after_response = False
        self.closed_by_client = False
        self.tls_seen = []
        self.reuse_violations = []      # C01: a further request arrived while the previous response was not completely read

    def on_tls(self, offer, server_hostname):
        self.tls_seen.append((offer, server_hostname))
        return self.alpn if (offer and self.alpn in offer) else (offer[0] if offer and self.alpn is not None else None)

    def on_write(self, data):
        self.written += data
        if data and not self.inbuf and self.requests and self.out:
            self.reuse_violations.append({"request_index": len(self.requests), "unread_response_bytes": sum(len(x) for x in self.out),
                                          "server_had_closed": self.server_closed, "first_bytes": bytes(data[:40])})
        self.inbuf += data
        for req in parse_h1_requests(self.inbuf):
            idx = len(self.requests)
            self.requests.append(req)
            resp = self.policy(self, req, idx)
            if resp is not None:
                self.out.extend(s for s in self.segmenter(resp) if s)
            if self.close_after_response:
                self.server_closed = True

    def on_read(self, max_bytes):
        if not self.out:
            if self.server_closed:
                return b""
            raise simnet.Starved()
        c = self.out.pop(0)
        if len(c) > max_bytes:
            self.out.insert(0, c[max_bytes:])
            c = c[:max_bytes]
        return c

    def readable(self):
        return bool(self.out) or self.server_closed

    def on_close(self):
        self.closed_by_client = True


def default_policy(server, req, idx):
    body = b"echo:" + req["target"] + b":" + req["body"]
    return b"HTTP/1.1 200 OK\r\nContent-Length: %d\r\n\r\n" % len(body) + body


def closing_policy(server, req, idx):
    body = b"echo:" + req["target"] + b":" + req["body"]
    server.close_after_response = True
    return b"HTTP/1.1 200 OK\r\nConnection: close\r\nContent-Length: %d\r\n\r\n" % len(body) + body


def http10_policy(server, req, idx):
    """an HTTP/1.0 peer: no keep-alive, the connection is closed after the response"""
    body = b"echo:" + req["target"] + b":" + req["body"]
    server.close_after_response = True
    return b"HTTP/1.0 200 OK\r\nContent-Length: %d\r\n\r\n" % len(body) + body


def until_close_policy(server, req, idx):
    """close-delimited body"""
    body = b"echo:" + req["target"] + b":" + req["body"]
    server.close_after_response = True
    return b"HTTP/1.1 200 OK\r\n\r\n" + body


def chunked_policy(server, req, idx):
    body = b"echo:" + req["target"] + b":" + req["body"]
    cut = max(1, len(body) // 2)
    return (b"HTTP/1.1 200 OK\r\nTransfer-Encoding: chunked\r\n\r\n" + b"%x\r\n" % cut + body[:cut] + b"\r\n" +
            b"%x\r\n" % (len(body) - cut) + body[cut:] + b"\r\n0\r\n\r\n" if len(body) > cut else
            b"HTTP/1.1 200 OK\r\nTransfer-Encoding: chunked\r\n\r\n" + b"%x\r\n" % len(body) + body + b"\r\n0\r\n\r\n")


def long_policy(server, req, idx):
    """a body long enough to need several reads"""
    body = b"echo:" + req["target"] + b":" + req["body"] + b":" + b"z" * 3000
    return b"HTTP/1.1 200 OK\r\nContent-Length: %d\r\n\r\n" % len(body) + body


class ProxyServer(simnet.Peer):
    """HTTP proxy.  Forward requests (absolute-form) are answered by `forward_policy`; CONNECT is answered with
    `connect_status`; on 2xx everything afterwards is relayed to `inner_factory(target)` (the origin behind the tunnel)."""

    def __init__(self, inner_factory=None, connect_status=200, connect_reason=b"Connection established", forward_policy=None,
                 connect_extra=b"", alpn="http/1.1", name="proxy"):
        self.inbuf = bytearray()
        self.written = bytearray()          # everything the client wrote on this socket, before and inside the tunnel
        self.pre_tunnel = bytearray()       # bytes written before the tunnel was established
        self.in_tunnel = bytearray()        # bytes written after it
        self.out = []
        self.requests = []
        self.inner = None
        self.inner_factory = inner_factory or (lambda target: H1Server())
        self.connect_status, self.connect_reason, self.connect_extra = connect_status, connect_reason, connect_extra
        self.forward = H1Server(policy=forward_policy, name="proxy-forward")
        self.alpn = alpn
        self.tls_seen = []
        self.name = name
        self.closed_by_client = False
        self.server_closed = False

    def on_tls(self, offer, server_hostname):
        self.tls_seen.append((offer, server_hostname, "inner" if self.inner is not None else "proxy"))
        if self.inner is not None:
            return self.inner.on_tls(offer, server_hostname)
        return self.alpn if (offer and self.alpn in offer) else None

    def on_write(self, data):
        self.written += data
        if self.inner is not None:
            self.in_tunnel += data
            self.inner.on_write(data)
            return
        self.pre_tunnel += data
        if getattr(self, "forward_mode", False):
            before = len(self.forward.requests)
            self.forward.on_write(bytes(data))
            self.requests.extend(self.forward.requests[before:])
            self.out.extend(self.forward.out)
            self.forward.out = []
            return
        self.inbuf += data
        while self.inner is None:
            i = self.inbuf.find(b"\r\n\r\n")
            if i < 0:
                return
            first = bytes(self.inbuf[:self.inbuf.find(b"\r\n")])
            if first.startswith(b"CONNECT "):
                reqs = parse_h1_requests(self.inbuf)
                req = reqs[0]
                self.requests.append(req)
                self.out.append(b"HTTP/1.1 %d %s\r\n%s\r\n" % (self.connect_status, self.connect_reason, self.connect_extra))
                if 200 <= self.connect_status < 300:
                    self.inner = self.inner_factory(req["target"])
                    if self.inbuf:
                        early = bytes(self.inbuf)
                        del self.inbuf[:]
                        self.in_tunnel += early
                        self.inner.on_write(early)
                return
            # forward request: hand to the embedded H1 server (and everything that follows on this connection)
            self.forward_mode = True
            before = len(self.forward.requests)
            self.forward.on_write(bytes(self.inbuf))
            del self.inbuf[:]
            self.requests.extend(self.forward.requests[before:])
            self.out.extend(self.forward.out)
            self.forward.out = []
            return

    def on_read(self, max_bytes):
        if self.out:
            c = self.out.pop(0)
            if len(c) > max_bytes:
                self.out.insert(0, c[max_bytes:])
                c = c[:max_bytes]
            return c
        if self.inner is not None:
            return self.inner.on_read(max_bytes)
        if self.server_closed or self.forward.server_closed:
            return b""
        raise simnet.Starved()

    def readable(self):
        if self.out:
            return True
        if self.inner is not None:
            return self.inner.readable()
        return self.server_closed or self.forward.readable()

    def on_close(self):
        self.closed_by_client = True
        if self.inner is not None:
            self.inner.on_close()


class SocksServer(simnet.Peer):
    """SOCKS5 server: scripted replies to the method offer, optional user/password, and the CONNECT command; then a tunnel."""

    def __init__(self, inner_factory=None, method_reply=None, auth_reply=b"\x01\x00", connect_reply=None, name="socks",
                 raw_replies=None):
        self.written = bytearray()
        self.negotiation = bytearray()     # bytes written before the tunnel was established
        self.in_tunnel = bytearray()
        self.out = []
        self.stage = "methods"
        self.inner = None
        self.inner_factory = inner_factory or (lambda target: H1Server())
        self.method_reply = method_reply            # None = accept the first offered method
        self.auth_reply = auth_reply
        self.connect_reply = connect_reply          # None = success
        self.raw_replies = list(raw_replies) if raw_replies is not None else None   # override every reply (malformed streams)
        self.messages = []
        self.name = name
        self.closed_by_client = False
        self.tls_seen = []
        self.target = None

    def on_tls(self, offer, server_hostname):
        self.tls_seen.append((offer, server_hostname, "inner" if self.inner is not None else "socks"))
        if self.inner is not None:
            return self.inner.on_tls(offer, server_hostname)
        return None

    def _reply(self, default):
        if self.raw_replies is not None:
            return self.raw_replies.pop(0) if self.raw_replies else None
        return default

    def on_write(self, data):
        self.written += data
        if self.inner is not None:
            self.in_tunnel += data
            self.inner.on_write(data)
            return
        self.negotiation += data
        self.messages.append((self.stage, bytes(data)))
        if self.stage == "methods":
            offered = bytes(data[2:2 + data[1]]) if len(data) >= 2 else b""
            chosen = self.method_reply if self.method_reply is not None else (offered[:1] or b"\xff")
            r = self._reply(b"\x05" + chosen)
            if r is not None:
                self.out.append(r)
            self.stage = "auth" if chosen == b"\x02" else "connect"
        elif self.stage == "auth":
            r = self._reply(self.auth_reply)
            if r is not None:
                self.out.append(r)
            self.stage = "connect"
        elif self.stage == "connect":
            self.target = bytes(data)
            r = self._reply(self.connect_reply if self.connect_reply is not None else b"\x05\x00\x00\x01\x7f\x00\x00\x01\x04\x38")
            if r is not None:
                self.out.append(r)
            ok = (self.connect_reply is None and self.raw_replies is None) or (r is not None and len(r) >= 2 and r[1] == 0)
            if ok:
                self.inner = self.inner_factory(self.target)
            self.stage = "done"

    def on_read(self, max_bytes):
        if self.out:
            c = self.out.pop(0)
            if len(c) > max_bytes:
                self.out.insert(0, c[max_bytes:])
                c = c[:max_bytes]
            return c
        if self.inner is not None:
            return self.inner.on_read(max_bytes)
        if self.raw_replies is not None:
            return b""
        raise simnet.Starved()

    def readable(self):
        return bool(self.out) or (self.inner is not None and self.inner.readable())

    def on_close(self):
        self.closed_by_client = True
        if self.inner is not None:
            self.inner.on_close()


class Clock:
    """Virtual clock patched into http11.py / http2.py (they call time.monotonic())."""

    def __init__(self, t0=1000.0):
        self.now = t0

    def monotonic(self):
        return self.now

    def tick(self, dt):
        self.now += dt


class patched_clock:
    def __init__(self, clock):
        self.clock = clock
        self.saved = []

    def __enter__(self):
        import importlib
        for name in ("httpcore._sync.http11", "httpcore._sync.http2", "httpcore._async.http11", "httpcore._async.http2"):
            m = importlib.import_module(name)
            self.saved.append((m, m.time))
            m.time = self.clock
        return self.clock

    def __exit__(self, *a):
        for m, t in self.saved:
            m.time = t
