"""B2 matrix for C10 / C11: one or several requests through every proxy mode, observing the establishment operations,
which socket receives which bytes, and the bytes of the proxy hop."""
from __future__ import annotations

import core
import servers
import simnet

SCHEMES = ["http", "https", "ws", "wss"]
DEFAULT_PORT = {"http": 80, "https": 443, "ws": 80, "wss": 443}
PROXY_MODES = ["none", "http", "https", "socks5", "socks5h"]


def hexs(b):
    return core.hexb(b if isinstance(b, bytes) else b.encode())


def proxy_arg(cfg):
    """model encoding of the proxy configuration"""
    if cfg["proxy"] == "none":
        return "none"
    import httpcore
    px = httpcore.Proxy(url=proxy_url(cfg), auth=cfg.get("auth"), headers=cfg.get("proxy_headers") or None)
    hs = ",".join(core.hexb(k) + ":" + core.hexb(v) for k, v in px.headers) if px.headers else "-"
    auth = cfg.get("auth")
    return "/".join([hexs(cfg["proxy"]), hexs("proxy.example"), str(cfg.get("proxy_port", 3128)),
                     hexs(auth[0]) if auth else "none", hexs(auth[1]) if auth else "none", hs])


def proxy_url(cfg):
    return f"{cfg['proxy']}://proxy.example:{cfg.get('proxy_port', 3128)}"


class AutoOrigin(simnet.Peer):
    """An origin that answers in the protocol the client starts speaking (HTTP/2 preface or HTTP/1.1); its ALPN answer is configured."""

    def __init__(self, alpn_result):
        self.alpn_result = alpn_result
        self.impl = None
        self.is_h2 = False
        self.tls_seen = []

    def on_tls(self, offer, server_hostname):
        self.tls_seen.append((offer, server_hostname))
        return self.alpn_result if (offer and self.alpn_result in offer) else None

    def _make(self, first):
        import scen
        if first.startswith(b"PRI * HTTP/2.0"):
            self.impl = simnet.H2Peer(handler=scen.h2_handler_factory([]))
            self.impl.reqs = {}
            self.is_h2 = True
        else:
            self.impl = servers.H1Server()

    @property
    def reqs(self):
        return getattr(self.impl, "reqs", {})

    @property
    def requests(self):
        return getattr(self.impl, "requests", [])

    def on_write(self, data):
        if self.impl is None:
            if not data:
                return
            self._make(bytes(data))
        self.impl.on_write(data)

    def on_read(self, max_bytes):
        if self.impl is None:
            raise simnet.Starved()
        return self.impl.on_read(max_bytes)

    def readable(self):
        return self.impl is not None and self.impl.readable()

    def on_close(self):
        if self.impl is not None:
            self.impl.on_close()


class World:
    def __init__(self, cfg):
        import httpcore
        import scen
        self.cfg = cfg
        self.peers = []
        alpn_result = cfg.get("alpn_result", "http/1.1")

        def origin_peer(target=None):
            p = AutoOrigin(alpn_result)
            p.role = "origin"
            p.tunnel_target = target
            self.peers.append(p)
            return p

        def factory(rec):
            if cfg["proxy"] in ("http", "https"):
                p = servers.ProxyServer(inner_factory=origin_peer, connect_status=cfg.get("connect_status", 200),
                                        connect_reason=cfg.get("connect_reason", b"OK"))
                p.role = "proxy"
            elif cfg["proxy"].startswith("socks5"):
                p = servers.SocksServer(inner_factory=origin_peer, method_reply=cfg.get("socks_method_reply"),
                                        auth_reply=cfg.get("socks_auth_reply", b"\x01\x00"), connect_reply=cfg.get("socks_connect_reply"))
                p.role = "socks"
            else:
                p = origin_peer()
            p.connect_rec = rec
            self.peers.append(p)
            return p

        self.net = simnet.Net(simnet.Behavior(peer_factory=factory))
        kw = dict(http1=cfg["http1"], http2=cfg["http2"], ssl_context=simnet.RecordingSSLContext("origin"),
                  network_backend=simnet.SimBackend(self.net), max_connections=10)
        if cfg["proxy"] != "none":
            kw["proxy"] = httpcore.Proxy(url=proxy_url(cfg), auth=cfg.get("auth"), headers=cfg.get("proxy_headers") or None,
                                         ssl_context=simnet.RecordingSSLContext("proxy") if cfg["proxy"] == "https" else None)
        self.pool = httpcore.ConnectionPool(**kw)

    def request(self, scheme, host, port, token, headers=None, content=None, sni=None, method="GET", target=None):
        url = f"{scheme}://{host}" + (f":{port}" if port is not None else "") + f"/{token}"
        ext = {}
        if sni is not None:
            ext["sni_hostname"] = sni
        if target is not None:
            ext["target"] = target        # the request target written on the wire, independent of the URL that selects the connection
        nlog = len(self.net.log)
        try:
            r = self.pool.request(method, url, headers=headers, content=content, extensions=ext)
            out = {"outcome": "ok", "status": r.status, "body": r.content}
        except BaseException as e:  # noqa
            out = {"outcome": "error:" + simnet.exc_name(e), "exc": repr(e)[:200]}
        out["log"] = self.net.log[nlog:]
        out["url"] = url
        return out

    def where_is(self, token):
        """sockets (id, tls layer count at write time) that received bytes containing `token`"""
        tok = token.encode() if isinstance(token, str) else token
        hits = []
        for s in self.net.sockets:
            for layers, data in s.written:
                if tok in data:
                    hits.append((s.id, layers))
            p = s.peer
            inner = getattr(p, "inner", None)
            for q in (p, inner):
                if q is not None and getattr(q, "is_h2", False):
                    for sid, r in getattr(q, "reqs", {}).items():
                        if r.get("path") and tok in r["path"]:
                            hits.append((s.id, len(s.tls_layers)))
        return sorted(set(hits))


def establishment_of(net, sock_id):
    """what the log says about how socket `sock_id` was established"""
    recs = [r for r in net.log if r.get("sock") == sock_id]
    conn = [r for r in recs if r["op"] == "connect_tcp"][0]
    tls = [r for r in recs if r["op"] == "start_tls"]
    return conn, tls
