"""Tie A, life-cycle section: a small *translator* from the Python statements that make up the life-cycle of the two connection
objects (the gate of `handle_async_request`, `_response_closed`, `aclose`, `is_available`, `is_idle`, `is_closed`, `has_expired`
of `AsyncHTTP11Connection` and `AsyncHTTP2Connection`) to Lean functions over the structures of `LifeBase.lean`.

Statement language accepted (anything else -> ExtractError, never guessed):
    self.<attr> = <expr> | self.<attr> += 1 | self.<attr> -= 1 | if/elif/else | raise ConnectionNotAvailable()   (tail position only)
    now = time.monotonic()        (the clock is the Lean parameter `now`)
    await self.aclose()           (call of the translated `aclose`)
    await self._network_stream.aclose() | self._h11_state.start_next_cycle() | self._h2_state.close_connection()
    <name> = <bool expr>          (locals of `has_expired`)          return <bool expr>
Expression language: and / or / not, `self._state ==/!=/in <enum>`, `<attr> is (not) None`, `now > self._expire_at`,
    `now + self._keepalive_expiry`, truthiness of the modelled attributes, h11 `our_state/their_state is h11.DONE`,
    `self._network_stream.get_extra_info('is_readable')` (parameter `readable`), the h2 CLOSED test, None / True / False.
An Optional attribute may be used in arithmetic or a comparison only where an enclosing `is not None` test guards it.
"""
import ast


class ExtractError(Exception):
    pass


ENUM = {"HTTPConnectionState.NEW": ".new", "HTTPConnectionState.ACTIVE": ".active", "HTTPConnectionState.IDLE": ".idle",
        "HTTPConnectionState.CLOSED": ".closed"}

# attribute -> (field, kind)
H1_ATTRS = {"self._state": ("st", "enum"), "self._request_count": ("count", "nat"), "self._expire_at": ("expireAt", "optnat"),
            "self._keepalive_expiry": ("ka", "optnat")}
H2_ATTRS = {"self._state": ("st", "enum"), "self._request_count": ("count", "int"), "self._expire_at": ("expireAt", "optnat"),
            "self._keepalive_expiry": ("ka", "optnat"), "self._starting_requests": ("starting", "nat"),
            "self._used_all_stream_ids": ("usedAll", "bool"), "self._connection_error": ("connErr", "bool")}
# read-only truthiness atoms
H1_ATOMS = {"self._h11_state.our_state is h11.DONE": "c.ourDone", "self._h11_state.their_state is h11.DONE": "c.theirDone",
            "self._network_stream.get_extra_info('is_readable')": "readable"}
H2_ATOMS = {"self._events": "decide (c.streams ≠ 0)", "self._connection_terminated": "c.terminated",
            "self._connection_terminated is not None": "c.terminated",
            "self._h2_state.state_machine.state == h2.connection.ConnectionState.CLOSED": "c.h2Closed"}


class Tr:
    def __init__(self, kind):
        self.kind = kind
        self.attrs = H1_ATTRS if kind == "h1" else H2_ATTRS
        self.atoms = H1_ATOMS if kind == "h1" else H2_ATOMS
        self.pre = kind

    # ---- expressions -------------------------------------------------------------------------------------------------
    def bexpr(self, e, known, locals_):
        t = ast.unparse(e)
        if t in self.atoms:
            return self.atoms[t]
        if isinstance(e, ast.Name) and e.id in locals_:
            return e.id
        if isinstance(e, ast.Constant) and isinstance(e.value, bool):
            return "true" if e.value else "false"
        if isinstance(e, ast.BoolOp):
            parts = []
            k = set(known)
            for v in e.values:
                parts.append(self.bexpr(v, k, locals_))
                if isinstance(e.op, ast.And):
                    k |= self.not_none_facts(v)
            return "(" + (" && " if isinstance(e.op, ast.And) else " || ").join(parts) + ")"
        if isinstance(e, ast.UnaryOp) and isinstance(e.op, ast.Not):
            return "(!" + self.bexpr(e.operand, known, locals_) + ")"
        if isinstance(e, ast.Compare) and len(e.ops) == 1:
            l, op, r = e.left, e.ops[0], e.comparators[0]
            lt, rt = ast.unparse(l), ast.unparse(r)
            if lt == "self._state" and isinstance(op, (ast.Eq, ast.NotEq)) and rt in ENUM:
                s = f"(c.st == {ENUM[rt]})"
                return s if isinstance(op, ast.Eq) else f"(!{s})"
            if lt == "self._state" and isinstance(op, (ast.In, ast.NotIn)) and isinstance(r, ast.Tuple):
                alts = []
                for x in r.elts:
                    xt = ast.unparse(x)
                    if xt not in ENUM:
                        raise ExtractError(f"life-cycle: state not recognised: {xt}")
                    alts.append(f"c.st == {ENUM[xt]}")
                s = "(" + " || ".join(alts) + ")"
                return s if isinstance(op, ast.In) else f"(!{s})"
            if lt in self.attrs and self.attrs[lt][1] == "optnat" and isinstance(op, (ast.Is, ast.IsNot)) and rt == "None":
                s = f"c.{self.attrs[lt][0]}.isSome"
                return s if isinstance(op, ast.IsNot) else f"(!{s})"
            if isinstance(op, (ast.Gt, ast.GtE, ast.Lt, ast.LtE)):
                sym = {ast.Gt: ">", ast.GtE: "≥", ast.Lt: "<", ast.LtE: "≤"}[type(op)]
                return f"decide ({self.nexpr(l, known)} {sym} {self.nexpr(r, known)})"
        if t in self.attrs:
            f, k = self.attrs[t]
            if k == "bool":
                return f"c.{f}"
            if k == "nat":
                return f"decide (c.{f} ≠ 0)"
        raise ExtractError(f"life-cycle ({self.kind}): boolean expression not recognised: {t}")

    def not_none_facts(self, e):
        t = ast.unparse(e)
        out = set()
        if isinstance(e, ast.Compare) and len(e.ops) == 1 and isinstance(e.ops[0], ast.IsNot) and ast.unparse(e.comparators[0]) == "None":
            out.add(ast.unparse(e.left))
        if isinstance(e, ast.BoolOp) and isinstance(e.op, ast.And):
            for v in e.values:
                out |= self.not_none_facts(v)
        return out

    def nexpr(self, e, known):
        t = ast.unparse(e)
        if t == "now":
            return "now"
        if t in self.attrs and self.attrs[t][1] == "optnat":
            if t not in known:
                raise ExtractError(f"life-cycle ({self.kind}): {t} used as a number where it may be None")
            return f"c.{self.attrs[t][0]}.getD 0"
        if isinstance(e, ast.BinOp) and isinstance(e.op, ast.Add):
            return f"({self.nexpr(e.left, known)} + {self.nexpr(e.right, known)})"
        raise ExtractError(f"life-cycle ({self.kind}): numeric expression not recognised: {t}")

    # ---- statements -> a Lean expression of the structure type (variable `c` threaded through lets) ------------------
    def block(self, stmts, known, ind, tail=True):
        lines = []
        stmts = [s for s in stmts if not (isinstance(s, ast.Expr) and isinstance(s.value, ast.Constant))]   # doc strings
        for i, s in enumerate(stmts):
            last = i == len(stmts) - 1
            t = ast.unparse(s)
            pad = " " * ind
            if isinstance(s, ast.Assign) and len(s.targets) == 1 and t == "now = time.monotonic()":
                continue
            if isinstance(s, ast.Assign) and len(s.targets) == 1 and ast.unparse(s.targets[0]) in self.attrs:
                f, k = self.attrs[ast.unparse(s.targets[0])]
                vt = ast.unparse(s.value)
                if k == "enum" and vt in ENUM:
                    v = ENUM[vt]
                elif k == "optnat" and vt == "None":
                    v = "none"
                elif k == "optnat":
                    v = f"some {self.nexpr(s.value, known)}"
                elif k == "bool" and vt in ("True", "False"):
                    v = vt.lower()
                else:
                    raise ExtractError(f"life-cycle ({self.kind}): assignment not recognised: {t}")
                lines.append(f"{pad}let c := {{ c with {f} := {v} }}")
                continue
            if isinstance(s, ast.AugAssign) and ast.unparse(s.target) in self.attrs and ast.unparse(s.value) == "1" \
                    and isinstance(s.op, (ast.Add, ast.Sub)):
                f, k = self.attrs[ast.unparse(s.target)]
                if k not in ("nat", "int"):
                    raise ExtractError(f"life-cycle ({self.kind}): counter expected: {t}")
                sym = "+" if isinstance(s.op, ast.Add) else "-"
                lines.append(f"{pad}let c := {{ c with {f} := c.{f} {sym} 1 }}")
                continue
            if t == "await self.aclose()":
                lines.append(f"{pad}let c := {self.pre}Aclose c")
                continue
            if t == "await self._network_stream.aclose()":
                lines.append(f"{pad}let c := {{ c with sockCloses := c.sockCloses + 1 }}")
                continue
            if t == "self._h11_state.start_next_cycle()" and self.kind == "h1":
                lines.append(f"{pad}let c := {{ c with cycles := c.cycles + 1, ourDone := false, theirDone := false }}")
                continue
            if t == "self._h2_state.close_connection()" and self.kind == "h2":
                lines.append(f"{pad}let c := {{ c with h2Closed := true }}")
                continue
            if t == "raise ConnectionNotAvailable()":
                if not (last and tail):
                    raise ExtractError(f"life-cycle ({self.kind}): raise not in tail position")
                lines.append(f"{pad}let c := {{ c with raised := true }}")
                continue
            if isinstance(s, ast.If):
                if not (last and tail) and self.raises(s):
                    raise ExtractError(f"life-cycle ({self.kind}): a branch raises before the end of the block")
                cond = self.bexpr(s.test, known, {})
                k2 = set(known) | self.not_none_facts(s.test)
                lines.append(f"{pad}let c := if {cond} then")
                lines.extend(self.block(s.body, k2, ind + 4, tail=last and tail))
                lines.append(f"{pad}  else")
                if s.orelse:
                    lines.extend(self.block(s.orelse, known, ind + 4, tail=last and tail))
                else:
                    lines.append(f"{pad}    c")
                continue
            raise ExtractError(f"life-cycle ({self.kind}): statement not recognised: {t}")
        lines.append(" " * ind + "c")
        return lines

    def raises(self, node):
        return any(isinstance(n, ast.Raise) for n in ast.walk(node))

    def pred(self, fn, name, params):
        """a predicate method: local boolean assignments, then `return <bool expr>`"""
        body = [s for s in fn.body if not (isinstance(s, ast.Expr) and isinstance(s.value, ast.Constant))]
        lines = []
        locs = {}
        for s in body[:-1]:
            t = ast.unparse(s)
            if t == "now = time.monotonic()":
                continue
            if isinstance(s, ast.Assign) and len(s.targets) == 1 and isinstance(s.targets[0], ast.Name):
                n = s.targets[0].id
                lines.append(f"  let {n} := {self.bexpr(s.value, set(), locs)}")
                locs[n] = True
                continue
            raise ExtractError(f"life-cycle ({self.kind}) {fn.name}: statement not recognised: {t}")
        if not isinstance(body[-1], ast.Return):
            raise ExtractError(f"life-cycle ({self.kind}) {fn.name}: return expected")
        lines.append(f"  {self.bexpr(body[-1].value, set(), locs)}")
        ty = "Life.H1" if self.kind == "h1" else "Life.H2"
        return [f"/-- `{fn.name}` -/", f"def {name} (c : {ty}){params} : Bool :=", *lines]


def _find(tree, cls, name):
    for node in ast.walk(tree):
        if isinstance(node, ast.ClassDef) and node.name == cls:
            for sub in node.body:
                if isinstance(sub, (ast.FunctionDef, ast.AsyncFunctionDef)) and sub.name == name:
                    return sub
    raise ExtractError(f"function {cls}.{name} not found")


def _state_lock_block(fn, what):
    """the statements of the (single) `async with self._state_lock:` block of `fn`"""
    ws = [w for w in ast.walk(fn) if isinstance(w, (ast.AsyncWith, ast.With)) and [ast.unparse(i.context_expr) for i in w.items] == ["self._state_lock"]]
    if len(ws) != 1:
        raise ExtractError(f"life-cycle: {what}: exactly one `with self._state_lock` block expected")
    return ws[0].body


def _fn(t, ty, name, params, stmts, doc):
    return [f"/-- {doc} -/", f"def {name} (c : {ty}){params} : {ty} :=", *t.block(stmts, set(), 2)]


def translate(parse):
    """parse(rel) -> ast tree.  Returns the lines of the life-cycle section."""
    out = ["/-! ### life-cycle of the connection objects: translated statement by statement from `http11.py` / `http2.py` -/"]
    # ---------------- HTTP/1.1
    tree = parse("httpcore/_async/http11.py")
    cls = "AsyncHTTP11Connection"
    t = Tr("h1")
    out += _fn(t, "Life.H1", "h1Aclose", "", _find(tree, cls, "aclose").body, "`AsyncHTTP11Connection.aclose`")
    out += _fn(t, "Life.H1", "h1Gate", "", _state_lock_block(_find(tree, cls, "handle_async_request"), "http11 gate"),
               "the gate of `handle_async_request` (the block under the state lock); `raised` = ConnectionNotAvailable")
    out += _fn(t, "Life.H1", "h1ResponseClosed", " (now : Nat)", _state_lock_block(_find(tree, cls, "_response_closed"), "http11 _response_closed"),
               "`_response_closed` (the block under the state lock)")
    out += t.pred(_find(tree, cls, "is_available"), "h1IsAvailable", "")
    out += t.pred(_find(tree, cls, "is_idle"), "h1IsIdle", "")
    out += t.pred(_find(tree, cls, "is_closed"), "h1IsClosed", "")
    out += t.pred(_find(tree, cls, "has_expired"), "h1HasExpired", " (now : Nat) (readable : Bool)")
    # ---------------- HTTP/2
    tree = parse("httpcore/_async/http2.py")
    cls = "AsyncHTTP2Connection"
    t = Tr("h2")
    out += _fn(t, "Life.H2", "h2Aclose", "", _find(tree, cls, "aclose").body, "`AsyncHTTP2Connection.aclose`")
    out += _fn(t, "Life.H2", "h2Gate", "", _state_lock_block(_find(tree, cls, "handle_async_request"), "http2 gate"),
               "the gate of `handle_async_request` (the block under the state lock); `raised` = ConnectionNotAvailable")
    out += _fn(t, "Life.H2", "h2AfterClose", " (now : Nat)", _state_lock_block(_find(tree, cls, "_response_closed"), "http2 _response_closed"),
               "`_response_closed`, the block under the state lock (after `del self._events[stream_id]`)")
    out += t.pred(_find(tree, cls, "is_available"), "h2IsAvailable", "")
    out += t.pred(_find(tree, cls, "is_idle"), "h2IsIdle", "")
    out += t.pred(_find(tree, cls, "is_closed"), "h2IsClosed", "")
    out += t.pred(_find(tree, cls, "has_expired"), "h2HasExpired", " (now : Nat)")
    # does the request leave the "starting" phase on every path (try/finally around everything between the gate and the stream id)?
    hr = _find(tree, cls, "handle_async_request")
    fin = False
    for n in ast.walk(hr):
        if isinstance(n, ast.Try) and n.finalbody and [ast.unparse(s) for s in n.finalbody] == ["self._starting_requests -= 1"]:
            inner = ast.unparse(n.body)
            if "self._events[stream_id] = []" in inner and "self._init_lock" in inner and "_max_streams_semaphore.acquire()" in inner:
                fin = True
    out += ["/-- everything between the gate and the registration of the stream (`self._events[stream_id] = []`) runs inside",
            "`try: ... finally: self._starting_requests -= 1` -/",
            "def h2StartingReleasedOnEveryPath : Bool := " + ("true" if fin else "false")]
    return out


# ------------------------------------------------------------------------------------------------------------------------
# the wrappers around a protocol connection (direct, CONNECT tunnel, SOCKS5): their four status predicates
# ------------------------------------------------------------------------------------------------------------------------

WRAP_ATOMS = {
    "self._connection is None": "(!hasInner)", "self._connection is not None": "hasInner",
    "self._connection.is_available()": "innerAvail", "self._connection.has_expired()": "innerExpired",
    "self._connection.is_idle()": "innerIdle", "self._connection.is_closed()": "innerClosed",
    "self._http2": "http2", "self._http1": "http1", "self._connect_failed": "connectFailed", "self._connected": "connected",
    "self._origin.scheme == b'https'": "https", "self._remote_origin.scheme == b'https'": "https",
}
WRAP_PARAMS = "(hasInner connectFailed connected http1 http2 https innerAvail innerExpired innerIdle innerClosed : Bool)"


def _wexpr(e):
    t = ast.unparse(e)
    if t in WRAP_ATOMS:
        return WRAP_ATOMS[t]
    if isinstance(e, ast.BoolOp):
        return "(" + (" && " if isinstance(e.op, ast.And) else " || ").join(_wexpr(v) for v in e.values) + ")"
    if isinstance(e, ast.UnaryOp) and isinstance(e.op, ast.Not):
        return "(!" + _wexpr(e.operand) + ")"
    raise ExtractError(f"wrapper predicate: expression not recognised: {t}")


def _wbody(stmts, what):
    stmts = [s for s in stmts if not (isinstance(s, ast.Expr) and isinstance(s.value, ast.Constant))]
    if not stmts:
        raise ExtractError(f"wrapper predicate {what}: empty body")
    s = stmts[0]
    if isinstance(s, ast.Return) and len(stmts) == 1:
        return _wexpr(s.value)
    if isinstance(s, ast.If) and not s.orelse:
        return f"(if {_wexpr(s.test)} then {_wbody(s.body, what)} else {_wbody(stmts[1:], what)})"
    raise ExtractError(f"wrapper predicate {what}: statement not recognised: {ast.unparse(s)[:80]}")


def translate_wrappers(parse):
    out = ["/-! ### the wrappers around a protocol connection: status predicates, translated from `connection.py`, `http_proxy.py`, `socks_proxy.py` -/"]
    for rel, cls, tag in (("httpcore/_async/connection.py", "AsyncHTTPConnection", "Direct"),
                          ("httpcore/_async/http_proxy.py", "AsyncTunnelHTTPConnection", "Tunnel"),
                          ("httpcore/_async/socks_proxy.py", "AsyncSocks5Connection", "Socks")):
        tree = parse(rel)
        for meth, nm in (("is_available", "IsAvailable"), ("has_expired", "HasExpired"), ("is_idle", "IsIdle"), ("is_closed", "IsClosed")):
            fn = _find(tree, cls, meth)
            out += [f"/-- `{cls}.{meth}` -/", f"def wrap{tag}{nm} {WRAP_PARAMS} : Bool :=", "  " + _wbody(fn.body, f"{cls}.{meth}")]
    return out
