"""Shared machinery of every check: build + audit of the Lean side, the model driver, evidence,
known findings, verdicts.  See DESIGN.md §6."""
from __future__ import annotations

import fcntl
import hashlib
import json
import os
import random
import re
import subprocess
import sys
import time

HERE = os.path.dirname(os.path.abspath(__file__))
VERIF = os.path.dirname(HERE)
LEAN_DIR = os.environ.get("VERIF_LEAN_DIR") or os.path.join(VERIF, "lean")   # override: development only (a second build directory)
REPO = os.environ.get("VERIF_REPO", "/repo")
DRIVER = os.path.join(LEAN_DIR, ".lake", "build", "bin", "driver")
STD_AXIOMS = {"propext", "Classical.choice", "Quot.sound"}
FORBIDDEN = re.compile(r"\bsorry\b|\badmit\b|^\s*axiom\s|native_decide|bv_decide|implemented_by|\bunsafe\s|maxHeartbeats\s+0")


def use_repo():
    """Make `import httpcore` resolve to the tree under check."""
    if sys.path[0] != REPO:
        sys.path.insert(0, REPO)
    for m in list(sys.modules):
        if m == "httpcore" or m.startswith("httpcore."):
            f = getattr(sys.modules[m], "__file__", "") or ""
            if not f.startswith(REPO):
                del sys.modules[m]


class Ctx:
    def __init__(self, pid, tier, seed):
        self.pid = pid
        self.tier = tier
        self.seed = seed
        self.rng = random.Random(seed * 1000003 + int(pid[1:]))
        self.t0 = time.time()
        self.notes = []
        self.known_lines = []
        self.violations = []   # list of dicts {clause, replay, found_input}
        self.broken = []       # names of theorems / correspondence families that no longer check
        self.stats = {}

    @property
    def quick(self):
        return self.tier == "quick"


# -------------------------------------------------------------------------------------------
# Lean side
# -------------------------------------------------------------------------------------------

class BuildResult:
    def __init__(self):
        self.extract_ok = True
        self.extract_err = ""
        self.driver_ok = False
        self.props_ok = False
        self.log = ""
        self.failed_modules = []
        self.failed_decls = []


def _run(cmd, cwd=None, timeout=3000, input=None):
    p = subprocess.run(cmd, cwd=cwd, stdout=subprocess.PIPE, stderr=subprocess.STDOUT, text=True, timeout=timeout, input=input)
    return p.returncode, p.stdout


def build(targets):
    """Regenerate Generated.lean from REPO, then build the driver and the property modules."""
    sys.path.insert(0, HERE)
    import extract
    res = BuildResult()
    os.makedirs(os.path.join(LEAN_DIR, ".lake"), exist_ok=True)
    lock = open(os.path.join(LEAN_DIR, ".lake", "verif.lock"), "w")
    fcntl.flock(lock, fcntl.LOCK_EX)
    try:
        try:
            extract.regenerate(REPO, LEAN_DIR)
        except extract.ExtractError as e:
            res.extract_ok = False
            res.extract_err = str(e)
        except Exception as e:  # unreadable / unparsable source
            res.extract_ok = False
            res.extract_err = f"{type(e).__name__}: {e}"
        rc, out = _run(["lake", "build", "driver"], cwd=LEAN_DIR)
        res.driver_ok = rc == 0 and os.path.exists(DRIVER)
        res.log += out
        rc, out = _run(["lake", "build"] + list(targets), cwd=LEAN_DIR)
        res.props_ok = rc == 0
        res.log += out
        if rc != 0:
            res.failed_modules = sorted(set(re.findall(r"^- (HttpcoreModel\S*)", out, re.M)))
            res.failed_decls = sorted(set(re.findall(r"error: (\S+\.lean:\d+):", out)))
    finally:
        fcntl.flock(lock, fcntl.LOCK_UN)
        lock.close()
    return res


def grep_forbidden(files):
    hits = []
    for f in files:
        path = os.path.join(LEAN_DIR, f)
        if not os.path.exists(path):
            continue
        in_block = 0
        for i, line in enumerate(open(path), 1):
            code = line
            # strip block comments (coarse: track /- -/ nesting per line) and line comments
            out = ""
            j = 0
            while j < len(code):
                if code.startswith("/-", j):
                    in_block += 1; j += 2; continue
                if code.startswith("-/", j) and in_block:
                    in_block -= 1; j += 2; continue
                if in_block == 0:
                    if code.startswith("--", j):
                        break
                    out += code[j]
                j += 1
            if FORBIDDEN.search(out):
                hits.append(f"{f}:{i}: {line.strip()}")
    return hits


def lean_sources():
    out = []
    for root, _, files in os.walk(LEAN_DIR):
        if ".lake" in root:
            continue
        for f in files:
            if f.endswith(".lean"):
                out.append(os.path.relpath(os.path.join(root, f), LEAN_DIR))
    return sorted(out)


def audit(module, theorems):
    """#print axioms for every property theorem. Returns dict name -> axioms list or None (missing)."""
    src = f"import {module}\n" + "".join(f"#print axioms {t}\n" for t in theorems)
    path = os.path.join(LEAN_DIR, ".lake", f"audit_{module.split('.')[-1]}_{os.getpid()}.lean")
    with open(path, "w") as f:
        f.write(src)
    try:
        rc, out = _run(["lake", "env", "lean", path], cwd=LEAN_DIR)
    finally:
        os.unlink(path)
    res = {}
    flat = re.sub(r"\s+", " ", out)
    for t in theorems:
        m = re.search(r"'" + re.escape(t) + r"' depends on axioms: \[([^\]]*)\]", flat)
        if m:
            res[t] = [a.strip() for a in m.group(1).split(",") if a.strip()]
        elif re.search(r"'" + re.escape(t) + r"' does not depend on any axioms", flat):
            res[t] = []
        else:
            res[t] = None
    return res, out


def leanchecker(modules):
    rc, out = _run(["lake", "env", "leanchecker"] + list(modules), cwd=LEAN_DIR, timeout=3000)
    return rc == 0, out


class Driver:
    """Batch interface to the compiled Lean driver: lines in, lines out."""

    def run(self, lines):
        if not lines:
            return []
        data = "\n".join(lines) + "\n"
        p = subprocess.run([DRIVER], input=data, stdout=subprocess.PIPE, stderr=subprocess.PIPE, text=True, timeout=3000)
        if p.returncode != 0:
            raise RuntimeError(f"driver failed rc={p.returncode}: {p.stderr[:2000]}")
        out = p.stdout.split("\n")
        if out and out[-1] == "":
            out.pop()
        if len(out) != len(lines):
            raise RuntimeError(f"driver answered {len(out)} lines for {len(lines)} inputs")
        return out


def hexb(b: bytes) -> str:
    return b.hex() if b else "-"


def unhex(s: str) -> bytes:
    return b"" if s == "-" else bytes.fromhex(s)


def kv(line):
    """parse `k=v k=v` answers"""
    d = {}
    for tok in line.split(" "):
        if "=" in tok:
            k, v = tok.split("=", 1)
            d[k] = v
    return d


# -------------------------------------------------------------------------------------------
# known findings
# -------------------------------------------------------------------------------------------

def load_known():
    p = os.path.join(VERIF, "known_findings.json")
    if not os.path.exists(p):
        return []
    with open(p) as f:
        return json.load(f)["findings"]


def match_known(pid, signature):
    """A failing case is a known finding only if its signature equals a `known` entry exactly."""
    for k in load_known():
        if k["property"] == pid and k.get("status") == "known" and k["signature"] == signature:
            return k
    return None


# -------------------------------------------------------------------------------------------
# evidence / verdict
# -------------------------------------------------------------------------------------------

def write_replay(ctx, name, payload):
    os.makedirs(os.path.join(VERIF, "replays"), exist_ok=True)
    path = os.path.join(VERIF, "replays", f"{ctx.pid}_{name}.json")
    with open(path, "w") as f:
        json.dump(payload, f, indent=1, sort_keys=True, default=str)
    return path


def write_evidence(ctx, coverage, assumptions, violations):
    os.makedirs(os.path.join(VERIF, "evidence"), exist_ok=True)
    ev = {
        "property_id": ctx.pid,
        "tier": ctx.tier,
        "seed": ctx.seed,
        "level": "proof",
        "coverage": coverage,
        "assumptions": assumptions,
        "wall_s": round(time.time() - ctx.t0, 2),
        "violations": violations,
    }
    path = os.path.join(VERIF, "evidence", f"{ctx.pid}.json")
    if os.environ.get("VERIF_REPO") and os.path.realpath(os.environ["VERIF_REPO"]) != os.path.realpath("/repo"):
        # a run against a scratch tree (seeded change) must not overwrite the evidence of the real tree
        path = os.path.join(VERIF, "evidence", f"{ctx.pid}.scratch.json")
    tmp = path + f".{os.getpid()}.tmp"
    with open(tmp, "w") as f:
        json.dump(ev, f, indent=1, sort_keys=True, default=str)
    os.replace(tmp, path)
    return path


def digest(obj):
    return hashlib.sha1(json.dumps(obj, sort_keys=True, default=str).encode()).hexdigest()[:16]
