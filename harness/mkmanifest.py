"""Regenerates MANIFEST.json from the property modules that exist (run by hand after adding one)."""
import importlib
import json
import os
import sys

HERE = os.path.dirname(os.path.abspath(__file__))
sys.path.insert(0, HERE)
VERIF = os.path.dirname(HERE)

NOT_YET = "no check registered yet in this revision of the framework (model and tie still being built; see DESIGN.md §11)"

checks = []
na = []
for i in range(1, 21):
    pid = f"C{i:02d}"
    path = os.path.join(HERE, "props", pid.lower() + ".py")
    if not os.path.exists(path):
        na.append({"property_id": pid, "reason": NOT_YET})
        continue
    src = open(path).read()
    ns = {}
    # only the metadata constants are needed; avoid importing httpcore here
    import ast
    tree = ast.parse(src)
    for node in tree.body:
        if isinstance(node, ast.Assign) and isinstance(node.targets[0], ast.Name) and node.targets[0].id in (
                "LEVEL_TEXT", "LEVEL_NOTE", "TECHNIQUE", "DESIGN_REF", "NOT_APPLICABLE"):
            ns[node.targets[0].id] = ast.literal_eval(node.value)
    if "NOT_APPLICABLE" in ns:
        na.append({"property_id": pid, "reason": ns["NOT_APPLICABLE"]})
        continue
    checks.append({
        "property_id": pid,
        "quick_cmd": f"bin/check {pid} --tier quick",
        "thorough_cmd": f"bin/check {pid} --tier thorough",
        "evidence_file": f"evidence/{pid}.json",
        "replay_cmd_template": f"bin/check {pid} --replay {{path}}",
        "engine": "lean-model+correspondence",
        "level_claimed": {"category": "proof", "text": ns["LEVEL_TEXT"], "design_ref": ns.get("DESIGN_REF", "§5")},
        "level_note": ns["LEVEL_NOTE"],
        "technique": ns["TECHNIQUE"],
    })

manifest = {
    "version": 1,
    "setup_cmd": "bin/setup",
    "hooks": {
        "guard": "HTTPCORE_VERIF",
        "enable": "no source hooks are needed: the checks drive the unmodified package through its public seams (network_backend=, trace extension, create_connection, status predicates)",
        "baseline_off_cmd": "cd /repo && /venv/bin/python -m pytest -ra -q -p no:cacheprovider --timeout=900 --continue-on-collection-errors",
        "source_commits": [],
        "add_only": True,
    },
    "engines": [{
        "name": "lean-model+correspondence",
        "path": "lean/ (Lake project HttpcoreModel: model, Props/*.lean theorems, Driver.lean) + harness/ (extractor, simulated network, per-property generators and oracles)",
        "serves_properties": [c["property_id"] for c in checks],
        "kind_free_text": "machine-checked proof in Lean 4 about an executable model; model tied to /repo on every run by a regenerated constants file (Tie A) and by differential execution of model and implementation (Tie B)",
    }],
    "checks": checks,
    "not_applicable": na,
    "notes": "All checks: exit 0 = held (KNOWN-FINDING lines are informational), 1 = VIOLATION line printed, 2 = harness error/time-out. VERIF_SEED and VERIF_TIER are honoured; VERIF_REPO overrides /repo.",
}
with open(os.path.join(VERIF, "MANIFEST.json"), "w") as f:
    json.dump(manifest, f, indent=1)
    f.write("\n")
print("claimed:", [c["property_id"] for c in checks])
