"""C04 — the connection limit is never exceeded."""
from __future__ import annotations

import core
import poolb1
import propbase

ID = "C04"
MODULE = "HttpcoreModel.Props.C04Threads"      # imports Props.C04 (and C08 for the lock table)
THEOREMS = [f"Httpcore.C04.{n}" for n in ("pass_bound_adversarial", "pass_bound", "wait_not_open", "create_only_with_room",
                                           "cleanupAdv_len", "assignAllAdv_len", "passes_are_serialised")] + ["Httpcore.Wrap.failed_establishment_is_dropped", "Httpcore.Wrap.failed_view_dropped"]
TRUSTED = [
    "Lean 4.33 kernel; axioms per theorem under coverage.theorems",
    "hand-written model Pool.pass of _assign_requests_to_connections, tied by lock-step execution on the real pool with stub connections (this run)",
    "harness/extract.py for the surplus-idle expression and the `len(self._connections) < self._max_connections` test",
]
ASSUMPTIONS = ["the pool's own list operations happen under its lock (sync) or without suspension (async)"]
LEVEL_TEXT = ("Lean 4 theorems: one assignment pass never exceeds the limit for every limit, queue and origin mix, even when every status read is "
              "answered adversarially (threads); a request that finds the pool full with nothing available or idle stays queued and nothing is "
              "created. Tied to the code by lock-step execution of the real pass on stub connections over random status combinations.")
LEVEL_NOTE = ("Trusted: Lean kernel, extractor, stub-connection harness. The bound on open network streams across whole executions (faults, "
              "cancellations, evictions in flight) is the subject of the system-level checks C05/C06; here the pool-pass level is proved.")
TECHNIQUE = "Lean 4 proof (invariant of the pass under an adversarial status oracle) + lock-step differential on the real pool"
DESIGN_REF = "§5 C04"


def run(ctx, driver):
    rng = ctx.rng
    rec = propbase.Rec(ctx, ID)
    n = 3000 if ctx.quick else 200000
    cases = [poolb1.gen_case(rng) for _ in range(n)]
    answers = driver.run([poolb1.model_line(c) for c in cases]) if driver else [None] * n
    for c, ans in zip(cases, answers):
        impl = poolb1.run_impl(c)
        rec.evals += 1
        rec.distinct.add(poolb1.model_line(c))
        payload = {"case": c, "impl": {k: v for k, v in impl.items() if k != "stubs"}}
        if len(impl["conns"]) > c["maxc"]:
            rec.fail("limit-exceeded", {}, payload)
        if impl["created"]:
            rec.dist["created"] += 1
            # a connection is created only with room, or after evicting an idle one
            if len(c["conns"]) - len([x for x in c["conns"] if x[2][0]]) >= c["maxc"] and not impl["closing"] and \
                    len(impl["conns"]) > len(c["conns"]):
                rec.fail("created-without-room", {}, payload)
        if ans:
            d = poolb1.compare(impl, poolb1.parse_model(ans))
            if d:
                rec.disagree("pool-pass", dict(payload, why=d, model=ans))
        if len(rec.samples) < 3 and impl["created"] and impl["closing"]:
            rec.samples.append({"case": c, "impl": payload["impl"], "model": ans})
    import concur
    concur.explore(ctx, rec, ID, {"p_fault": 0.25, "p_cancel": 0.1, "retries": 2, "max_connections": 1}, 200, 6000, ["C04:"])
    concur.explore(ctx, rec, ID, {"p_fault": 0.1, "p_cancel": 0.1, "gate_close": True, "p_conn_close": 0.3}, 100, 6000, ["C04:"])
    concur.explore(ctx, rec, ID, {"p_fault": 0.1, "p_cancel": 0.05, "http2": True, "max_connections": 1, "p_conn_close": 0.0, "callers": 4},
                   30, 3000, ["C04:"])
    # HTTP/2 pools at their limit with the server sending GOAWAY (any consistent last-stream-id) while responses are held open, read or
    # abandoned and further requests arrive: pool list and open network streams stay within the limit
    import h2x
    h2x.explore(ctx, rec, ID, dict(max_connections=1, p_goaway=0.5, segment="coarse", init_max_streams=10, ups=[0, 0, 300], auto_credit=True,
                                   abandon=True, downs=[0, 10, 3000]), 80, 3000, ["C04:"], gen=lambda r: {"max_connections": r.choice([1, 1, 2]), "callers": r.randint(3, 6)})
    # the synchronous pool under real threads (controlled scheduler of C08): len(pool._connections) <= N at every pre-emption point
    import c08run
    for i in range((100 if ctx.quick else 3000) * (8 if ctx.broken else 1)):
        cfg = c08run.gen_cfg(rng)
        cfg.update(http2=False, p_faulty=0.0, max_connections=rng.choice([1, 1, 2]), threads=rng.choice([2, 3, 4]), switch_prob=rng.choice([0.2, 0.5]))
        seed = rng.randrange(1 << 30)
        r = c08run.run_one(cfg, seed)
        rec.evals += 1
        rec.distinct.add(("threads", repr(sorted(cfg.items())), seed))
        rec.dist["threads:schedules"] += 1
        for clause, d in r["violations"]:
            rec.dist["threads:" + clause] += 1
            if clause == "C08:connection-limit-exceeded":
                rec.fail("C04:limit-exceeded-under-threads", {"proto": "h1"},
                         {"cfg": cfg, "seed": seed, "detail": {k: (v if isinstance(v, (int, str, list, dict)) else repr(v)) for k, v in d.items()},
                          "how_to_replay": "c08run.run_one(cfg, seed)"})
    return rec.finish("C04/B1 pool pass + concurrent schedules",
                      "random pools: max 1-4, keep-alive 0-3/None, 0..max stub connections with status bits from 9 classes (idle, active, "
                      "available, closed, expired, odd combinations), 0-4 requests over 4 origins, some pre-assigned; one pass each on the real "
                      "ConnectionPool; plus random multi-caller schedules on the real async pool (asyncio+trio, gated network, retries, faults, "
                      "cancels, HTTP/2): at every quiescent point len(pool.connections) <= max and open streams <= max + closes in progress; "
                      "distinct = distinct cases / schedules")


replay = propbase.default_replay
