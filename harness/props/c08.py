"""C08 — The synchronous pool is thread-safe."""
from __future__ import annotations

import c08run
import core
import propbase

ID = "C08"
MODULE = "HttpcoreModel.Props.C08"
THEOREMS = [f"Httpcore.C08.{n}" for n in ("pool_mutations_locked", "establishment_single", "reader_rechecks_under_lock", "writer_takes_and_writes_under_lock", "limit_under_threads", "exclusive_use_all_interleavings",
                                           "close_marks_closed_first", "retire_only_unassigned", "assignment_reserves", "source_protects_assigned",
                                           "pass_assigns_and_evicts_same_connection_107", "pass_keeps_assigned_connection",
                                           "pass_never_retires_held_connection", "assignOne_K", "cleanup_K")]
TRUSTED = [
    "Lean 4.33 kernel; axioms per theorem under coverage.theorems",
    "the pass model with an adversarial status oracle (Pool.passAdv, C04) and the transition system Sys, whose runs are all interleavings of "
    "atomic actions (C05/C01); that the pool's list mutations are atomic is regenerated from the source: every such statement is lexically "
    "inside the thread lock (Tie A). The sync sources are the translation of the async ones (C18)",
    "the controlled thread scheduler (harness/threadsched.py): real OS threads, one running at a time, pre-emptible before every source line of "
    "httpcore/_sync and _synchronization.py, at every lock/event/semaphore operation (cooperative shims) and every network operation",
    "Sys is tied to the real pool step by step (harness/sysconf.py): after every scheduling step of explored runs the real pool is projected onto Sys's state space and the Lean driver searches Sys.step breadth-first for a model run between consecutive observations (this run)",
]
ASSUMPTIONS = ["Python executes one source line of one thread at a time between the scheduler's pre-emption points (finer-grained pre-emption "
               "inside a line - e.g. inside list.remove - is not explored)",
               "a well-behaved server (the property's premise): every request is answered, no faults are injected"]
LEVEL_TEXT = ("Lean 4 theorems: every mutation of the pool's lists is under the thread lock (decided over the regenerated table); the connection "
              "limit survives every adversarial answer to every status read of a pass (what other threads can change); at most one caller is "
              "inside an exchange on a connection for every interleaving of atomic steps; a pass retires (surplus / room) only connections no "
              "request has been handed, and the lock-free close() marks CLOSED before it touches the socket - the two facts that keep another "
              "thread from closing a connection under a request (the 1.0.7 counterexample, F-C08-a, is kept as a theorem about the old rule). "
              "Explored under a controlled scheduler that makes every line-level interleaving of real threads reachable and replayable.")
LEVEL_NOTE = ("Partial: the models' atomicity assumptions are justified by the lock table; the absence of dead-locks, lost wake-ups and internal "
              "errors is explored (seeded schedules), not proved; a connection the server has closed (expired) is still closed under an "
              "assigned request - that request would fail on it anyway. HTTP/2 connections are not thread-safe at all (finding F-C08-b).")
TECHNIQUE = "Lean 4 proof (adversarial-oracle pass bound, invariant corollaries, decide over lock table) + controlled thread scheduler on the real sync pool"
DESIGN_REF = "§5 C08"


def run(ctx, driver):
    rng = ctx.rng
    rec = propbase.Rec(ctx, ID)
    import sysconf
    sysconf.run_conformance(ctx, rec, 40, 1500)
    n = 400 if ctx.quick else 12000
    stored = []
    for k in core.load_known():
        ra = k.get("replay_args")
        if k["property"] == ID and ra and ra.get("engine") == "threads":
            stored.append((ra["cfg"], ra["seed"]))
    for i in range(-len(stored), n):
        if i < 0:
            cfg, seed = stored[i]
        else:
            cfg = c08run.gen_cfg(rng)
            if i % 25 != 24:
                cfg["http2"] = False          # HTTP/2 connections are not thread-safe (F-C08-b): a few runs keep watching them
            seed = rng.randrange(1 << 30)
        r = c08run.run_one(cfg, seed)
        rec.evals += 1
        rec.distinct.add((repr(sorted(cfg.items())), seed))
        rec.dist["schedules:" + ("h2" if cfg["http2"] else "h1")] += 1
        rec.dist["pre-emption-points"] += r["stats"]["points"]
        rec.dist["thread-switches"] += r["stats"]["switches"]
        rec.dist[f"threads:{cfg['threads']}"] += 1
        for name, (kind, val) in r["results"].items():
            if kind == "ok":
                for x in val:
                    rec.dist["request:" + x["outcome"]] += 1
        for clause, d in r["violations"]:
            sig = {"proto": "h2" if cfg["http2"] else "h1"}
            if clause == "C08:request-failed" and not cfg["http2"]:
                sig["cause"] = d.get("cause", "other")
            if cfg["http2"]:
                # one finding whatever the symptom: the shared h2 state is used without a lock (stream ids handed out twice, frames
                # interleaved, bookkeeping corrupted) - KeyError, protocol errors, a request left queued, ...
                d = dict(d, symptom=clause)
                clause = "C08:http2-connection-not-thread-safe"
            rec.fail(clause, sig, {"cfg": cfg, "seed": seed, "detail": {k: v for k, v in d.items()}, "how_to_replay": "c08run.run_one(cfg, seed)"})
        if len(rec.samples) < 2 and r["stats"]["switches"] > 50 and not r["violations"]:
            rec.samples.append({"cfg": cfg, "seed": seed, "stats": r["stats"]})
    return rec.finish("C08 controlled thread schedules",
                      "2-4 real threads, 1-3 requests each (GET/POST; read in full or first part then close) to 1-3 origins through one "
                      "ConnectionPool with max_connections 1-3 and max_keepalive None/0/1, servers answering with keep-alive, Connection: close and "
                      "multi-read bodies; seeded schedules with switch probability 0.05/0.2/0.5 at every pre-emption point (source lines of "
                      "httpcore/_sync + _synchronization.py, lock/event/semaphore operations, network operations); oracles: every request succeeds "
                      "with the echo of its own target, len(pool._connections) <= max_connections at every pre-emption point, no dead-lock (nobody "
                      "runnable with work left), no exception outside httpcore's classes, nothing left queued or open after close. "
                      "distinct = distinct (configuration, seed)")


replay = propbase.default_replay
