"""C07 — waiting requests make progress whenever capacity exists."""
from __future__ import annotations

import core
import poolb1
import propbase

ID = "C07"
MODULE = "HttpcoreModel.Props.C07"
THEOREMS = [f"Httpcore.C07.{n}" for n in ("every_queue_change_triggers_pass", "queue_change_sites_found", "pass_complete", "no_overtaking", "served_when_possible", "assignAll_complete",
                                           "assignOne_unassigned", "assignOne_stuck")] + ["Httpcore.Wrap.establishing_shared_iff_h2_possible", "Httpcore.Wrap.closed_tunnel_not_shared"]
TRUSTED = [
    "Lean 4.33 kernel; axioms per theorem under coverage.theorems",
    "hand-written model Pool.pass (shared with C04/C09), tied by lock-step execution on the real pool with stub connections (this run)",
    "the concurrent part (every event that can make a waiter serviceable is followed by a pass; no lost wake-up) is exercised by multi-caller "
    "schedules on the real async pool under asyncio and trio with direct oracles (this run)",
]
ASSUMPTIONS = ["a fair environment: every pending network operation is eventually resolved and the server answers every request",
               "status predicates are consistent during one pass"]
LEVEL_TEXT = ("Lean 4 theorems about the assignment pass for every configuration and queue: a request is left waiting only if nothing is available for "
              "its origin, the pool is at its limit and nothing idle can be evicted (pass_complete); it is served whenever one of those fails "
              "(served_when_possible); no overtaking once a request has to wait. Tied to the code by lock-step runs on stub connections; the "
              "'re-examined after every close/failure/cancel' half is checked on multi-caller schedules of the real pool at every quiescent point.")
LEVEL_NOTE = ("Partial: progress is established as 'no serviceable waiter at quiescence' + pass completeness; eventual completion also needs fairness "
              "of the real scheduler, timers and peer, which no model step can exhibit. Known limbo states of C05 (a wedged slot) would block "
              "other origins; they are reported under C05.")
TECHNIQUE = "Lean 4 proof (loop invariant of the assignment loop) + lock-step differential + quiescence oracle on concurrent schedules"
DESIGN_REF = "§5 C07"


def run(ctx, driver):
    rng = ctx.rng
    rec = propbase.Rec(ctx, ID)
    n = 3000 if ctx.quick else 200000
    cases = [poolb1.gen_case(rng) for _ in range(n)]
    answers = driver.run([poolb1.model_line(c) for c in cases]) if driver else [None] * n
    for c, ans in zip(cases, answers):
        impl = poolb1.run_impl(c)
        rec.evals += 1
        rec.distinct.add(poolb1.model_line(c))
        payload = {"case": c, "impl": {k: v for k, v in impl.items() if k != "stubs"}}
        stubs = impl["stubs"]
        after = [stubs[i] for i in impl["conns"]]
        origins = {rid: o for rid, o, _ in c["reqs"]}
        for rid, cid in impl["reqs"]:
            if cid is None:
                rec.dist["left-waiting"] += 1
                o = origins[rid]
                if any(s.origin_idx == o and s.available for s in after):
                    rec.fail("waiting-although-connection-available", {}, payload)
                if len(after) < c["maxc"]:
                    rec.fail("waiting-although-room", {}, payload)
                handed = {x for _r, x in impl["reqs"] if x is not None}
                if any(s.idle and s.cid not in handed for s in after):
                    rec.fail("waiting-although-idle-evictable", {}, payload)
            else:
                rec.dist["assigned"] += 1
        if ans:
            d = poolb1.compare(impl, poolb1.parse_model(ans))
            if d:
                rec.disagree("pool-pass", dict(payload, why=d, model=ans))
        if len(rec.samples) < 3 and any(cid is None for _, cid in impl["reqs"]) and impl["created"]:
            rec.samples.append({"case": c, "impl": payload["impl"], "model": ans})
    import concur
    concur.run_c07(ctx, rec)
    return rec.finish("C07/B1 pool pass + concurrent schedules",
                      "B1: random stub pools (as C04), one pass each, oracle = every request left waiting is blocked for all three reasons. "
                      "Concurrent: 2-5 callers over 1-3 origins with max_connections 1-2 on the real async pool (asyncio and trio), gated network, "
                      "random resolution order incl. faults, cancels and pool time-outs; at every quiescent point no waiter is serviceable; at the "
                      "end every caller has completed, failed or timed out. distinct = distinct cases/schedules")


replay = propbase.default_replay
