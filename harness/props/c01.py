"""C01 — Each response belongs to its own request (no cross-talk, no desync)."""
from __future__ import annotations

import concur
import core
import h2x
import propbase
import twin

ID = "C01"
MODULE = "HttpcoreModel.Props.C01"
THEOREMS = [f"Httpcore.C01.{n}" for n in ("h1_exchange_open", "h1_no_desync", "delivers_content_length", "delivers_chunked", "no_desync", "h1_reuse_rule", "exclusive_use", "in_use_not_idle",
                                           "unfinished_exchange_closes", "h2_own_stream_only")]
TRUSTED = [
    "Lean 4.33 kernel; axioms per theorem under coverage.theorems",
    "the byte-level reader model (H1Read/H1Obs, tied by C02's differential), the pool/connection transition system Sys (tied by C05/C06's sweeps) "
    "and the HTTP/2 routing model (tied by C12); the reuse test of _response_closed, is_available()==IDLE and the ACTIVE gate are regenerated "
    "from the source (Tie A)",
    "h11's own state machine (when their_state is DONE: response complete and keep-alive allowed) is not modelled; its effect is observed: every "
    "server in the exploration records a further request that arrives before the previous response was completely read",
    "Sys is tied to the real pool step by step (harness/sysconf.py): after every scheduling step of explored runs the real pool is projected onto Sys's state space and the Lean driver searches Sys.step breadth-first for a model run between consecutive observations (this run)",
]
ASSUMPTIONS = ["the server sends exactly one well-framed final response per request (the property's own premise)",
               "Sys: the admissible actions of C05 (no cancellation between assignment and start: findings F-C05-e/f)"]
LEVEL_TEXT = ("Lean 4 theorems: for every pair of responses framed by Content-Length or chunked encoding, every over-read prefix and every segmentation, "
              "two exchanges in a row on one connection deliver exactly their own head and body (no_desync); in every reachable state of Sys at most one caller is inside "
              "an exchange on a connection and such a connection is never idle, an unfinished exchange closes it (exclusive_use, in_use_not_idle, "
              "unfinished_exchange_closes); an HTTP/2 stream receives exactly its own events. Tied by token-echo exploration of the real pool.")
LEVEL_NOTE = ("Partial: no_desync is proved for Content-Length and (canonically encoded) chunked framing in any combination; close-delimited "
              "responses end the connection; keep-alive eligibility is h11's and observed, not modelled.")
TECHNIQUE = "Lean 4 proof (reader refinement re-used for two exchanges; invariant corollaries) + Tie A + token-echo exploration with early closes, faults, cancels"
DESIGN_REF = "§5 C01"

H1_PROFILES = [
    {"p_fault": 0.1, "p_cancel": 0.1, "modes": ["read", "read", "abandon", "partial"], "p_body": 0.4, "h1_segment": True,
     "policies": ["default_policy", "default_policy", "closing_policy", "http10_policy", "until_close_policy", "chunked_policy", "long_policy"]},
    {"p_fault": 0.0, "p_cancel": 0.2, "modes": ["read", "partial", "abandon"], "p_body": 0.5, "h1_segment": True, "max_connections": 1,
     "origins": 1, "policies": ["default_policy", "long_policy", "chunked_policy"], "native_cancel": True},
    {"p_fault": 0.2, "p_cancel": 0.0, "modes": ["read", "partial"], "p_body": 0.5, "srvclose": True,
     "policies": ["default_policy", "long_policy"], "retries": 1},
]
H2_PROFILE = dict(max_connections=1, init_max_streams=5, p_rst=0.1, p_cancel=0.2, abandon=True, segment="fine", downs=[0, 10, 3000], ups=[0, 5, 300],
                  p_settings=0.1, allow_lower=False, p_ping=0.1)


def run(ctx, driver):
    rng = ctx.rng
    rec = propbase.Rec(ctx, ID)
    import sysconf
    sysconf.run_conformance(ctx, rec, 60, 2000)
    for prof in H1_PROFILES:
        concur.explore(ctx, rec, ID, prof, 300, 8000, ["C01:"])
    # HTTP/2 multiplexing
    for i in range(200 if ctx.quick else 5000):
        cfg = dict(H2_PROFILE, callers=rng.randint(2, 6), coalesce=rng.random() < 0.3)
        if i % 2:
            cfg.update(max_connections=3, origins=rng.choice([2, 3]), p_ping=0.3)      # several HTTP/2 connections alive at once
        seed = rng.randrange(1 << 30)
        rt = ("asyncio", "trio")[i % 2]
        ex = h2x.run_one(rt, cfg, seed)
        rec.evals += 1
        rec.distinct.add(("h2x", rt, tuple(map(str, ex.trace))))
        rec.dist["h2:schedules"] += 1
        for c in ex.callers:
            rec.dist[f"h2:outcome:{c.outcome}"] += 1
        for clause, detail in ex.violations:
            if clause in ("C12:wrong-response", "C12:foreign-data"):
                rec.fail("C01:wrong-response", {"proto": "h2"}, {"runtime": rt, "cfg": cfg, "seed": seed, "detail": detail,
                                                                  "trace": [list(map(str, t)) for t in ex.trace][-60:],
                                                                  "how_to_replay": "h2x.run_one(runtime, cfg, seed)"})
    # direct and proxied, sequential histories with early closes and faults: every body read in full names its own request only
    for i in range(200 if ctx.quick else 5000):
        sc = twin.gen_scenario(rng)
        if sc["fault"] is not None:
            sc["fault"] = (sc["fault"][0] % 26, sc["fault"][1])
        out = twin.run_async(sc)
        rec.evals += 1
        rec.distinct.add(("history", repr(sc)))
        rec.dist["history:kind:" + sc["kind"]] += 1
        toks = [st["tok"] for st in sc["steps"] if st["op"] == "request"]
        for st, r in zip(sc["steps"], out["results"]):
            if st["op"] != "request":
                continue
            for key in ("body", "first"):
                if key in r and r.get("outcome") == "ok" or key == "first" and key in r:
                    data = bytes.fromhex(r[key])
                    want = (b"http://o%d.example" % st["origin"] if sc["kind"] == "forward" else b"") + b"/" + st["tok"].encode()
                    full = b"echo:" + want + b":" + (b"".join(st["body"]) if isinstance(st["body"], list) else (st["body"] or b""))
                    ok = (data == full) if key == "body" and st["read"] == "all" else full.startswith(data)
                    rec.dist["history:bodies-checked"] += 1
                    if not ok:
                        rec.fail("C01:wrong-response", {"proto": sc["kind"]}, {"scenario": repr(sc), "step": st["tok"], "got": repr(data)[:120],
                                                                                "want": repr(full)[:120]})
    return rec.finish("C01 token-echo exploration",
                      "HTTP/1.1: 2-5 concurrent callers over 1-3 origins and 1-2 connections on the real async pool (asyncio, trio), gated network; "
                      "callers read in full, read one part and close, or close without reading; cancels (scope and native), faults, server-side "
                      "closes; servers answer with Content-Length, chunked, Connection: close, HTTP/1.0 and close-delimited responses cut into "
                      "1..5000-byte reads, echoing the request target and body; oracles: every complete body and every partial body is (a prefix of) "
                      "the echo of the caller's own request, and no server sees a further request before its previous response was read completely. "
                      "HTTP/2: 2-6 multiplexed requests with interleaved frames, RST, cancels, abandoned responses. Histories: 1-4 sequential "
                      "requests over all 8 connection kinds (direct, TLS, HTTP/2, forward / tunnel proxies, SOCKS5) with early closes and injected "
                      "faults. distinct = distinct schedules / histories")


replay = propbase.default_replay
