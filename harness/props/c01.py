"""C01 — Each response belongs to its own request (no cross-talk, no desync)."""
from __future__ import annotations

import concur
import connlife
import core
import h2x
import propbase
import twin

ID = "C01"
MODULE = "HttpcoreModel.Props.C01"
THEOREMS = [f"Httpcore.C01.{n}" for n in ("h1_exchange_open", "h1_no_desync", "delivers_content_length", "delivers_chunked", "no_desync", "h1_reuse_rule", "exclusive_use", "in_use_not_idle",
                                           "unfinished_exchange_closes", "h2_own_stream_only", "h1_gate_atomic", "h2_broken_connection_not_offered")] + ["Httpcore.LifeProps.h1_available_means_complete", "Httpcore.LifeProps.h1_reuse_only_after_both_done", "Httpcore.LifeProps.h1_idle_only_via_response_closed", "Httpcore.LifeProps.h1_gate_exclusive", "Httpcore.LifeProps.h1_closed_is_final_partial", "Httpcore.LifeProps.h1_closed_revives", "Httpcore.LifeProps.h2_closed_is_final", "Httpcore.LifeProps.h2_unusable_not_available", "Httpcore.LifeProps.failed_io_takes_connection_out_of_service"]
TRUSTED = [
    'life-cycle of the connection objects (ConnLife.lean): gate, _response_closed, aclose and the status predicates are *translated* from http11.py / http2.py on every run (harness/lifetrans.py -> Gen.h1*/Gen.h2*); the remaining steps (stream opened / request backed out / GOAWAY / I/O failure recorded) are hand-written and tied by lock-step: instrumented sub-classes log every life-cycle event of the real objects and the Lean driver replays the log (harness/connlife.py, this run)',
    "Lean 4.33 kernel; axioms per theorem under coverage.theorems",
    "the byte-level reader model (H1Read/H1Obs, tied by C02's differential), the pool/connection transition system Sys (tied by C05/C06's sweeps) "
    "and the HTTP/2 routing model (tied by C12); the reuse test of _response_closed, is_available()==IDLE and the ACTIVE gate are regenerated "
    "from the source (Tie A)",
    "h11's own state machine (when their_state is DONE: response complete and keep-alive allowed) is not modelled; its effect is observed: every "
    "server in the exploration records a further request that arrives before the previous response was completely read",
    "Sys is tied to the real pool step by step (harness/sysconf.py): after every scheduling step of explored runs the real pool is projected onto Sys's state space and the Lean driver searches Sys.step breadth-first for a model run between consecutive observations (this run)",
]
ASSUMPTIONS = ["the server sends exactly one well-framed final response per request (the property's own premise)",
               "Sys: the admissible actions of C05 (no cancellation between assignment and start: findings F-C05-e/f)"]
LEVEL_TEXT = ("Lean 4 theorems: for every pair of responses framed by Content-Length or chunked encoding, every over-read prefix and every segmentation, "
              "two exchanges in a row on one connection deliver exactly their own head and body (no_desync); in every reachable state of Sys at most one caller is inside "
              "an exchange on a connection and such a connection is never idle, an unfinished exchange closes it (exclusive_use, in_use_not_idle, "
              "unfinished_exchange_closes); an HTTP/2 stream receives exactly its own events. Tied by token-echo exploration of the real pool.")
LEVEL_NOTE = ("Partial: no_desync is proved for Content-Length and (canonically encoded) chunked framing in any combination; close-delimited "
              "responses end the connection; keep-alive eligibility is h11's and observed, not modelled.")
TECHNIQUE = "Lean 4 proof (reader refinement re-used for two exchanges; invariant corollaries; life-cycle invariants over the translated gate / _response_closed / aclose) + Tie A (flags and statement-level translation) + event-log lock-step of the connection objects + token-echo exploration with early closes, faults, cancels"
DESIGN_REF = "§5 C01"

H1_PROFILES = [
    {"p_fault": 0.1, "p_cancel": 0.1, "modes": ["read", "read", "abandon", "partial"], "p_body": 0.4, "h1_segment": True,
     "policies": ["default_policy", "default_policy", "closing_policy", "http10_policy", "until_close_policy", "chunked_policy", "long_policy"]},
    {"p_fault": 0.0, "p_cancel": 0.2, "modes": ["read", "partial", "abandon"], "p_body": 0.5, "h1_segment": True, "max_connections": 1,
     "origins": 1, "policies": ["default_policy", "long_policy", "chunked_policy"], "native_cancel": True},
    {"p_fault": 0.2, "p_cancel": 0.0, "modes": ["read", "partial"], "p_body": 0.5, "srvclose": True,
     "policies": ["default_policy", "long_policy"], "retries": 1},
]
H2_PROFILE = dict(max_connections=1, init_max_streams=5, p_rst=0.1, p_cancel=0.2, abandon=True, segment="fine", downs=[0, 10, 3000], ups=[0, 5, 300],
                  p_settings=0.1, allow_lower=False, p_ping=0.1, empty_data=True)


def run(ctx, driver):
    rng = ctx.rng
    rec = propbase.Rec(ctx, ID)
    import sysconf
    sysconf.run_conformance(ctx, rec, 60, 2000)
    for prof in H1_PROFILES:
        concur.explore(ctx, rec, ID, prof, 300, 8000, ["C01:"])
    # HTTP/2 multiplexing
    for i in range(200 if ctx.quick else 5000):
        cfg = dict(H2_PROFILE, callers=rng.randint(2, 6), coalesce=rng.random() < 0.3)
        if i % 2:
            cfg.update(max_connections=3, origins=rng.choice([2, 3]), p_ping=0.3)      # several HTTP/2 connections alive at once
        seed = rng.randrange(1 << 30)
        rt = ("asyncio", "trio")[i % 2]
        ex = h2x.run_one(rt, cfg, seed)
        rec.evals += 1
        rec.distinct.add(("h2x", rt, tuple(map(str, ex.trace))))
        rec.dist["h2:schedules"] += 1
        for c in ex.callers:
            rec.dist[f"h2:outcome:{c.outcome}"] += 1
        for clause, detail in ex.violations:
            if clause in ("C12:wrong-response", "C12:foreign-data"):
                rec.fail("C01:wrong-response", {"proto": "h2"}, {"runtime": rt, "cfg": cfg, "seed": seed, "detail": detail,
                                                                  "trace": [list(map(str, t)) for t in ex.trace][-60:],
                                                                  "how_to_replay": "h2x.run_one(runtime, cfg, seed)"})
    # HTTP/2, callers cancelled at *any* suspension point (also while parked in a write) and SETTINGS frames arriving in the same read as
    # other streams' DATA: whatever else such a cancellation costs (see DESIGN §10), a body that is delivered as complete is the one sent
    for i in range((300 if ctx.quick else 3000) * (4 if ctx.broken else 1)):
        cfg = dict(H2_PROFILE, callers=rng.randint(2, 5), coalesce=True, p_settings=0.4, cancel_phase="any", segment=rng.choice(["whole", "coarse"]),
                   max_steps=150, p_rst=0.0, abandon=False, downs=[3000], ups=[0])
        if i % 3:
            # one caller is cancelled while it is parked in a write of the response phase (credit, SETTINGS acknowledgement); nobody else is
            # disturbed, so every other caller must still get exactly its own body
            cfg.update(p_cancel=0.0, p_cancel_writer=0.6, max_cancel_writer=1)
        else:
            cfg.update(p_cancel=0.4, downs=[0, 10, 3000], ups=[0, 5, 300])
        seed = rng.randrange(1 << 30)
        rt = ("asyncio", "trio")[i % 2]
        ex = h2x.run_one(rt, cfg, seed)
        rec.evals += 1
        rec.distinct.add(("h2x-cancel-any", rt, tuple(map(str, ex.trace))))
        rec.dist["h2-cancel-any:schedules"] += 1
        rec.dist["h2-cancel-any:cancels"] += sum(1 for t in ex.trace if t[0] == "cancel")
        for clause, detail in ex.violations:
            if clause in ("C12:wrong-response", "C12:foreign-data", "C02:short-body-accepted"):
                rec.fail("C01:wrong-response", {"proto": "h2", "how": "cancel-any"}, {"runtime": rt, "cfg": cfg, "seed": seed, "detail": detail, "clause": clause,
                                                                                      "trace": [list(map(str, t)) for t in ex.trace][-60:],
                                                                                      "how_to_replay": "h2x.run_one(runtime, cfg, seed)"})
    # direct and proxied, sequential histories with early closes and faults: every body read in full names its own request only
    for i in range(200 if ctx.quick else 5000):
        sc = twin.gen_scenario(rng)
        if sc["fault"] is not None:
            sc["fault"] = (sc["fault"][0] % 26, sc["fault"][1])
        out = twin.run_async(sc)
        rec.evals += 1
        rec.distinct.add(("history", repr(sc)))
        rec.dist["history:kind:" + sc["kind"]] += 1
        toks = [st["tok"] for st in sc["steps"] if st["op"] == "request"]
        for st, r in zip(sc["steps"], out["results"]):
            if st["op"] != "request":
                continue
            for key in ("body", "first"):
                if key in r and r.get("outcome") == "ok" or key == "first" and key in r:
                    data = bytes.fromhex(r[key])
                    want = (b"http://o%d.example" % st["origin"] if sc["kind"] == "forward" else b"") + b"/" + st["tok"].encode()
                    full = b"echo:" + want + b":" + (b"".join(st["body"]) if isinstance(st["body"], list) else (st["body"] or b""))
                    ok = (data == full) if key == "body" and st["read"] == "all" else full.startswith(data)
                    rec.dist["history:bodies-checked"] += 1
                    if not ok:
                        rec.fail("C01:wrong-response", {"proto": sc["kind"]}, {"scenario": repr(sc), "step": st["tok"], "got": repr(data)[:120],
                                                                                "want": repr(full)[:120]})
    connlife.run(rec, driver, ctx.rng, (100 if ctx.quick else 2000) * (4 if ctx.broken else 1), (300 if ctx.quick else 6000) * (4 if ctx.broken else 1), "C01")
    run_h2_histories(ctx, rec)
    run_threads(ctx, rec)
    return rec.finish("C01 token-echo exploration",
                      "HTTP/1.1: 2-5 concurrent callers over 1-3 origins and 1-2 connections on the real async pool (asyncio, trio), gated network; "
                      "callers read in full, read one part and close, or close without reading; cancels (scope and native), faults, server-side "
                      "closes; servers answer with Content-Length, chunked, Connection: close, HTTP/1.0 and close-delimited responses cut into "
                      "1..5000-byte reads, echoing the request target and body; oracles: every complete body and every partial body is (a prefix of) "
                      "the echo of the caller's own request, and no server sees a further request before its previous response was read completely. "
                      "HTTP/2: 2-6 multiplexed requests with interleaved frames, RST, cancels, abandoned responses. Histories: 1-4 sequential "
                      "requests over all 8 connection kinds (direct, TLS, HTTP/2, forward / tunnel proxies, SOCKS5) with early closes and injected "
                      "faults. distinct = distinct schedules / histories")


ILLEGAL_H2 = [(b"TE", b"gzip"), (b":foo", b"1"), (b"te", b"deflate"), (b":status", b"200")]


def run_h2_histories(ctx, rec):
    """Sequential histories on one pooled HTTP/2 connection in which some request heads are refused by h2 part-way through their
    HPACK encoding (C03's illegal heads), or fail while being written: the exchanges that follow must still be answered with their
    own echo (paths repeat, so that a compression context that has lost step with the server would decode to an earlier request)."""
    import httpcore
    import scen
    import simnet
    rng = ctx.rng
    for i in range(150 if ctx.quick else 4000):
        steps = []
        for j in range(rng.randint(3, 8)):
            tok = "p%d" % rng.randrange(3)
            hs = [(b"x-token", rng.choice([b"alice", b"bob", b"carol"])), (b"x-n", b"%d" % rng.randrange(3))][:rng.randint(0, 2)]
            bad = rng.random() < 0.3
            if bad:
                hs.insert(rng.randint(0, len(hs)), rng.choice(ILLEGAL_H2)) if rng.random() < 0.7 else hs.append(rng.choice(ILLEGAL_H2))
            steps.append((tok, hs, b"id%d" % j, bad))
        peers = []

        def factory(recd):
            p = simnet.H2Peer(handler=scen.h2_handler_factory([]))
            p.reqs = {}
            peers.append(p)
            return p
        net = simnet.Net(simnet.Behavior(peer_factory=factory))
        got = []
        with httpcore.ConnectionPool(network_backend=simnet.SimBackend(net), http2=True, ssl_context=simnet.RecordingSSLContext(),
                                     max_connections=rng.choice([1, 2])) as pool:
            for tok, hs, body, bad in steps:
                try:
                    r = pool.request("POST", f"https://o0.example/{tok}", headers=hs, content=body)
                    got.append(("ok", r.status, r.content))
                except BaseException as e:  # noqa
                    got.append(("error", simnet.exc_name(e), None))
        rec.evals += 1
        rec.distinct.add(("h2-history", repr(steps)))
        rec.dist["h2-history:runs"] += 1
        rec.dist["h2-history:connections:%d" % len(peers)] += 1
        for (tok, hs, body, bad), g in zip(steps, got):
            rec.dist["h2-history:" + ("illegal-head:" if bad else "legal:") + g[0] + (":" + str(g[1]) if g[0] == "error" else "")] += 1
            want = b"echo:/" + tok.encode() + b":" + body
            if g[0] == "ok" and g[2] != want:
                rec.fail("C01:wrong-response", {"proto": "h2", "history": "after-refused-head"},
                         {"steps": repr(steps), "request": tok, "got": repr(g[2])[:120], "want": repr(want)[:120], "outcomes": repr(got)[:600],
                          "how_to_replay": "the listed POST requests, in order, through one ConnectionPool(http2=True) against an h2 echo server"})
            elif g[0] == "error" and not bad:
                rec.fail("C01:exchange-failed-after-refused-head", {"proto": "h2", "error": g[1]},
                         {"steps": repr(steps), "request": tok, "outcomes": repr(got)[:600]})


def run_threads(ctx, rec):
    """HTTP/1.1 under real threads (controlled scheduler of C08): a connection must not be entered by a second request while an
    exchange is in progress on it - h11 then refuses the second request or the two exchanges tear each other's responses apart."""
    import c08run
    rng = ctx.rng
    n = (150 if ctx.quick else 4000) * (8 if ctx.broken else 1)      # a proof obligation / the tie no longer checks: search harder
    for i in range(n):
        cfg = c08run.gen_cfg(rng)
        cfg.update(http2=False, p_faulty=0.0, max_connections=rng.choice([1, 1, 2]), origins=rng.choice([1, 1, 2]), threads=rng.choice([2, 3, 3]),
                   switch_prob=rng.choice([0.2, 0.5]))
        seed = rng.randrange(1 << 30)
        r = c08run.run_one(cfg, seed)
        rec.evals += 1
        rec.distinct.add(("threads", repr(sorted(cfg.items())), seed))
        rec.dist["threads:schedules"] += 1
        for clause, d in r["violations"]:
            rec.dist["threads:" + clause] += 1
            exc = str(d.get("exc", ""))
            if clause == "C08:wrong-response" or (clause == "C08:request-failed" and ("LocalProtocolError" in str(d.get("outcome", ""))
                                                                                      or "RemoteProtocolError" in str(d.get("outcome", "")))):
                rec.fail("C01:exchanges-overlap-on-one-connection", {"proto": "h1", "threads": True,
                                                                       "symptom": "wrong-response" if clause == "C08:wrong-response" else "protocol-error"},
                         {"cfg": cfg, "seed": seed, "detail": {k: (v if isinstance(v, (int, str, list, dict)) else repr(v)) for k, v in d.items()},
                          "exception": exc[:200], "how_to_replay": "c08run.run_one(cfg, seed)"})


replay = propbase.default_replay
