"""C14 — A request is put on the wire at most once unless the server refused it."""
from __future__ import annotations

import collections
import re

import concur
import core
import h2x
import propbase

ID = "C14"
MODULE = "HttpcoreModel.Props.C14"
THEOREMS = [f"Httpcore.C14.{n}" for n in ("goaway_retry_only_refused", "goaway_processed_not_retried", "goaway_refused_resent_partial",
                                           "goaway_last_zero_not_resent", "cna_sites_sound", "pool_retries_only_cna", "at_most_once",
                                           "failure_ends_call")]
TRUSTED = [
    "Lean 4.33 kernel; axioms per theorem under coverage.theorems",
    "the GOAWAY test, the table of every `raise ConnectionNotAvailable()` (does it precede every sending statement of its handle_async_request?) "
    "and the pool's retry handler are regenerated from the source on every run (Tie A); the attempt/loop model H2.attemptsUsed is hand-written",
    "the step from 'precedes every sending statement' to 'no request byte was written' is the exploration's: request heads are counted per "
    "call on every simulated server (HTTP/1.1: bytes written per socket; HTTP/2: heads decoded by h2 per connection and stream)",
]
ASSUMPTIONS = ["a server that answered a stream does not disown it in a later GOAWAY",
               "the caller's body can be iterated again on a re-send (one-shot iterators: finding F-C03-a, checked under C03)"]
LEVEL_TEXT = ("Lean 4 theorems: after GOAWAY a request is handed back only if its stream id is above the last-stream-id (for all ids), every "
              "ConnectionNotAvailable site is before any request byte or is that rule, the pool retries on nothing else, hence for every sequence of "
              "attempts at most one attempt exposes the request to a server and a failure ends the call. The converse (a refused stream IS re-sent) "
              "is proved for last-stream-id ≠ 0 only; the last-stream-id = 0 counterexample is a theorem (F-C14-a). Tied by Tie A and by counting "
              "request heads per call over fault / GOAWAY / disconnect schedules on HTTP/1.1 and HTTP/2.")
LEVEL_NOTE = ("Partial: 'wrote = false' per site rests on statement order in the source plus the head-count oracle on explored schedules, not on a "
              "proof about the byte stream.")
TECHNIQUE = "Lean 4 proof (induction over attempts; decide over regenerated site table) + Tie A + head-count oracle on explored fault/GOAWAY schedules"
DESIGN_REF = "§5 C14"

PROFILES = {
    "goaway": dict(max_connections=2, p_goaway=0.3, segment="coarse", init_max_streams=10, ups=[0, 0, 300], auto_credit=True),
    "faults": dict(max_connections=2, p_goaway=0.3, p_eof=0.1, p_fault=0.15, segment="coarse", init_max_streams=10, ups=[0, 0, 300, 70000],
                   auto_credit=True),
    "chunked-bodies": dict(max_connections=2, p_goaway=0.4, segment="whole", init_max_streams=10, ups=[300, 5000, 70000], auto_credit=True),
}
WANT = ["C14:"]


def h1_heads(ex):
    """request lines per caller token, per socket, from the bytes the client wrote"""
    seen = collections.defaultdict(list)
    for sock in ex.net.sockets:
        data = b"".join(b for _, b in sock.written)
        for m in re.finditer(rb"(?:GET|POST) /(c\d+) HTTP/1\.1\r\n", data):
            seen[m.group(1).decode()].append(sock.id)
    return seen


def run_h1(ctx, rec):
    rng = ctx.rng
    n = 150 if ctx.quick else 4000
    for i in range(n):
        cfg = concur.gen_cfg(rng, {"p_fault": rng.choice([0.1, 0.25]), "p_cancel": 0.0, "srvclose": True, "p_conn_close": rng.choice([0.0, 0.4]),
                                   "retries": rng.choice([0, 0, 2]), "p_body": 0.4, "max_connections": rng.choice([1, 2, 3])})
        seed = rng.randrange(1 << 30)
        rt = ("asyncio", "trio")[i % 2]
        ex = concur.run_one(rt, cfg, seed)
        rec.evals += 1
        rec.distinct.add((rt, tuple(map(str, ex.trace))))
        rec.dist["h1:schedules"] += 1
        heads = h1_heads(ex)
        for c in ex.callers:
            k = len(heads.get(c.token, []))
            rec.dist[f"h1:heads-per-call:{min(k, 2)}"] += 1
            rec.dist[f"h1:outcome:{c.outcome}"] += 1
            if k > 1:
                rec.fail("C14:request-sent-twice", {"proto": "h1"},
                         {"runtime": rt, "cfg": cfg, "seed": seed, "caller": c.idx, "sockets": heads[c.token], "outcome": c.outcome,
                          "trace": [list(map(str, t)) for t in ex.trace][-60:], "how_to_replay": "concur.run_one(runtime, cfg, seed)"})


def run_fault_positions(ctx, rec):
    """every fault (error and time-out) at every network operation of one request, on every connection kind, first use and reuse,
    connect retries 0 and 2: the request head appears on at most one connection"""
    import sweep
    import sweeprun
    for kind in sweep.KINDS:
        for shape in sweeprun.SHAPES:
            if shape.get("queued"):
                continue
            for retries in (0, 2):
                for rt in (("asyncio",) if ctx.quick else ("asyncio", "trio")):
                    base = sweep.run_case(rt, kind, shape, None, yield_in_ops=False, retries=retries)
                    nops = len(base.get("net_ops", []))
                    if base.get("a_heads") != 1:
                        rec.fail("C14:request-sent-twice" if base.get("a_heads", 0) > 1 else "C14:clean-run-without-head", {"kind": kind},
                                 {"kind": kind, "shape": shape, "heads": base.get("a_heads")})
                    for k in range(nops):
                        op = base["net_ops"][k][0]
                        for exc in {"connect_tcp": ["ConnectError", "ConnectTimeout"], "connect_unix_socket": ["ConnectError"],
                                    "start_tls": ["ConnectError", "ConnectTimeout"], "read": ["ReadError", "ReadTimeout", "EOF"],
                                    "write": ["WriteError", "WriteTimeout"]}[op]:
                            res = sweep.run_case(rt, kind, shape, ("fault", k, exc), yield_in_ops=False, retries=retries)
                            rec.evals += 1
                            rec.distinct.add(("fault-position", kind, str(shape), retries, rt, k, exc))
                            rec.dist[f"fault-position:heads:{res.get('a_heads')}"] += 1
                            rec.dist[f"fault-position:outcome:{res.get('a_outcome')}"] += 1
                            if res.get("a_heads", 0) > 1:
                                rec.fail("C14:request-sent-twice", {"proto": kind, "where": "fault-position"},
                                         {"kind": kind, "shape": shape, "retries": retries, "runtime": rt, "inject": ["fault", k, exc],
                                          "heads": res.get("a_heads"), "outcome": res.get("a_outcome"),
                                          "how_to_replay": "sweep.run_case(runtime, kind, shape, inject, yield_in_ops=False, retries=retries)"})


def run(ctx, driver):
    rng = ctx.rng
    rec = propbase.Rec(ctx, ID)
    run_fault_positions(ctx, rec)
    if driver:
        # the regenerated GOAWAY test, evaluated by the model, against the statement's rule on a grid (the theorem covers all ids)
        pairs = [(s, l) for s in (0, 1, 3, 5, 7, 101) for l in (0, 1, 3, 5, 6, 99, 101, 103)]
        answers = driver.run([f"h2goaway {s} {l}" for s, l in pairs])
        for (s, l), a in zip(pairs, answers):
            rec.evals += 1
            rec.distinct.add(("goaway-rule", s, l))
            if a == "retry" and not s > l:
                rec.fail("C14:processed-stream-retried", {"where": "rule"}, {"stream_id": s, "last_stream_id": l, "model": a})
    run_h1(ctx, rec)
    h2x.explore(ctx, rec, ID, PROFILES["goaway"], 120, 3000, WANT)
    h2x.explore(ctx, rec, ID, PROFILES["faults"], 120, 3000, WANT)
    h2x.explore(ctx, rec, ID, PROFILES["chunked-bodies"], 80, 2000, WANT)
    return rec.finish("C14 head counting over fault / GOAWAY schedules",
                      "Fault positions: for each of 8 connection kinds (direct, TLS, HTTP/2, forward / tunnel proxies, SOCKS5), first use and reuse, "
                      "connect retries 0 and 2: every error and time-out at every network operation of one request; the head appears on at most "
                      "one connection. HTTP/1.1: 2-5 callers, 1-3 connections, read/write/connect faults and time-outs at random operations, server-side closes, "
                      "Connection: close responses, retries 0/2, under asyncio and trio; per call the number of sockets on which its request line "
                      "was written is at most 1. HTTP/2: 2-6 concurrent requests (some still uploading) over up to 2 connections; GOAWAY with any "
                      "consistent last-stream-id at any moment, EOF, read/write faults; per call the number of (connection, stream) pairs on which an "
                      "h2 server decoded its head and did not refuse it is at most 1; refused requests are re-sent; nothing is assigned to a "
                      "connection whose GOAWAY was already processed. distinct = distinct schedules")


replay = propbase.default_replay
