"""C12 — HTTP/2 streams are isolated, bounded and cannot wedge each other."""
from __future__ import annotations

import connlife
import core
import h2b1
import h2x
import propbase

ID = "C12"
MODULE = "HttpcoreModel.Props.C12"
THEOREMS = [f"Httpcore.C12.{n}" for n in ("slot_accounting", "open_within_limit", "open_success", "settings_limit", "one_before_settings",
                                           "debt_only_from_lowering", "no_wedge", "settings_never_blocks", "slot_available_when_idle",
                                           "wedge_reachable_107", "own_stream_only", "interleaving_independent",
                                           "slot_before_stream_id", "settings_change_modelled", "acks_leave_with_the_reader")] + ["Httpcore.LifeProps.h2_in_use_never_idle", "Httpcore.LifeProps.h2_in_use_never_expires", "Httpcore.LifeProps.h2_in_use_view", "Httpcore.LifeProps.source_releases_starting", "Httpcore.LifeProps.idle_with_stream_107"]
TRUSTED = [
    'life-cycle of the connection objects (ConnLife.lean): gate, _response_closed, aclose and the status predicates are *translated* from http11.py / http2.py on every run (harness/lifetrans.py -> Gen.h1*/Gen.h2*); the remaining steps (stream opened / request backed out / GOAWAY / I/O failure recorded) are hand-written and tied by lock-step: instrumented sub-classes log every life-cycle event of the real objects and the Lean driver replays the log (harness/connlife.py, this run)',
    "Lean 4.33 kernel; axioms per theorem under coverage.theorems",
    "hand-written model H2.Slots / H2.route (lean/HttpcoreModel/H2.lean); constants (initial limit 1, local cap 100), the order 'slot before stream id' "
    "and the shape of _receive_remote_settings_change are regenerated / recognised from the source by harness/extract.py on every run (Tie A)",
    "Slots is tied by lock-step execution: the real _receive_remote_settings_change / semaphore acquire / _response_closed of a live "
    "AsyncHTTP2Connection against the model, op by op (this run)",
    "the h2 library in the server role is the independent decoder and the enforcer of the stream limit in the exploration (h2x.py)",
]
ASSUMPTIONS = ["the semaphore hands permits over in FIFO order (anyio / trio semaphores do; the threaded variant is C08's subject)",
               "fair environment in the drain phase: the server answers every stream and returns all credit, every network operation completes",
               "h2 (framing, HPACK, its own stream state machine) is trusted"]
LEVEL_TEXT = ("Lean 4 theorems for every sequence of SETTINGS changes (up and down, also below the number of streams in flight) / stream openings / "
              "stream ends: permits + open streams = limit in force + permits still withheld, 1 <= limit <= 100, a stream opens only if, counting "
              "it, no more are open than the limit advertised last, one stream until SETTINGS arrive; the reader never waits for the semaphore, so "
              "some open stream can always make progress (no_wedge) and a request gets its slot once the streams have ended; event routing "
              "delivers to a stream exactly its own events in order for every interleaving. The 1.0.7 dead-lock (F-C12-a) is kept as a theorem "
              "about the old bookkeeping (wedge_reachable_107). Tied by the Slots lock-step and by exploring the real connection against an "
              "interactive h2 server.")
LEVEL_NOTE = ("Partial: the model covers the bookkeeping (slots, routing); the interplay with locks and the event loop is explored, not proved: random "
              "schedules under asyncio and trio where the harness chooses every server frame and every completion. Cancellation while a request is "
              "still being *sent* is outside this property's quantifier (it can drop frames of other streams; see DESIGN §7).")
TECHNIQUE = "Lean 4 proof (invariant by induction over operations, routing lemma) + life-cycle invariant over the translated gate / _response_closed (in use => neither idle nor expiring) + Tie A constants + lock-step differentials (slots, life-cycle event log) + interactive h2 exploration"
DESIGN_REF = "§5 C12"

PROFILES = {
    # limits only go up; frames interleaved at will; callers hold, read and abandon
    "up": dict(max_connections=1, p_settings=0.3, allow_lower=False, p_ping=0.2, segment="fine", init_max_streams=2, p_rst=0.2, abandon=True,
               max_streams_values=[1, 2, 3, 5, 100, 200]),
    # callers cancel while waiting for / reading their response
    "cancel": dict(max_connections=1, p_settings=0.2, allow_lower=False, segment="coarse", init_max_streams=2, p_cancel=0.3, abandon=True),
    # the server lowers the limit, also below the number of streams in flight
    "down": dict(max_connections=1, p_settings=0.4, allow_lower=True, segment="fine", init_max_streams=3),
    # like TCP: a read returns everything the server has written so far (several streams' frames in one read)
    "coalesce": dict(max_connections=1, init_max_streams=10, segment="whole", coalesce=True, downs=[0, 10, 3000], abandon=True, p_ping=0.1),
    # a server that holds everything back until its PING is acknowledged, reads coalesced: the acknowledgement has to leave whoever reads it
    "ackgate": dict(max_connections=1, init_max_streams=10, segment="whole", coalesce=True, p_ping=0.3, ping_with_frames=0.5, hold_until_ack=True,
                    spawn_all_first=True),
    "one": dict(max_connections=1, init_max_streams=1, segment="whole", abandon=True, p_rst=0.1),
}
WANT = ["C12:"]


def run(ctx, driver):
    rng = ctx.rng
    rec = propbase.Rec(ctx, ID)
    # ---- B1: slot bookkeeping in lock-step ------------------------------------------------------------------------
    n = 150 if ctx.quick else 3000
    cases = [h2b1.gen_slot_ops(rng) for _ in range(n)]
    impl = [h2b1.run_slots_impl(ops) for ops in cases]
    answers = driver.run(["h2slots " + ",".join(applied) for _, applied in impl]) if driver else [None] * n
    for (out, applied), ans in zip(impl, answers):
        rec.evals += 1
        rec.distinct.add(tuple(applied))
        rec.dist["slots:ops"] += len(applied)
        rec.dist["slots:states-with-debt"] += sum(1 for s in out if not s.endswith("debt=0"))
        if any(s.startswith("BLOCKED") for s in out):
            rec.fail("C12:reader-blocked-in-semaphore", {}, {"ops": applied, "impl": out})
        rec.dist["slots:waits"] += sum(1 for s in out if s.startswith("wait"))
        # the accounting identity of C12.slot_accounting, on the implementation's own numbers: permits + open = limit + withheld
        import re
        for st in out:
            if st.startswith("ERROR"):
                rec.fail("C12:slot-bookkeeping-error", {"error": st.split(":")[0].split(" ")[1]}, {"ops": applied, "impl": out})
                break
            mm = re.search(r"sem=(-?\d+) held=(\d+) max=(\d+) debt=(\d+)", st)
            if mm:
                sem, held_n, mx, debt = map(int, mm.groups())
                if sem + held_n != mx + debt or not (1 <= mx <= 100):
                    rec.fail("C12:slot-accounting-broken", {}, {"ops": applied, "impl": out, "state": st,
                                                                "why": "free permits + open streams != limit in force + permits still withheld"})
                    break
        if ans is not None:
            m = ans.split(";")[2:]
            if m != out:
                rec.disagree("slots", {"ops": applied, "impl": out, "model": m})
        if len(rec.samples) < 2 and any(not s.endswith("debt=0") for s in out):
            rec.samples.append({"ops": applied, "impl": out})
    # ---- exploration of the real connection --------------------------------------------------------------------------
    h2x.explore(ctx, rec, ID, PROFILES["up"], 120, 3000, WANT)
    h2x.explore(ctx, rec, ID, PROFILES["cancel"], 100, 2500, WANT)
    h2x.explore(ctx, rec, ID, PROFILES["coalesce"], 120, 3000, WANT)
    h2x.explore(ctx, rec, ID, PROFILES["ackgate"], 80, 1500, WANT)
    h2x.explore(ctx, rec, ID, PROFILES["one"], 40, 800, WANT)
    h2x.explore(ctx, rec, ID, PROFILES["down"], 40, 800, WANT)
    # ---- life-cycle: a connection with requests in flight is never idle / expiring (F-C12-e) --------------------------------
    connlife.run(rec, driver, rng, (400 if ctx.quick else 6000) * (4 if ctx.broken else 1), 0, "C12")
    # ---- an abandoned response must not starve the streams that follow it -----------------------------------------------
    for size in ([17_000_000] if ctx.quick else [100_000, 17_000_000, 40_000_000]):
        outcome, got, errs = h2b1.run_big_download(total=1000, abandon_first=size)
        rec.evals += 1
        rec.distinct.add(("abandon-then-download", size))
        rec.dist[f"abandon-then-download:{outcome.split(':')[0]}"] += 1
        if outcome != "ok" or got != 1000 or errs:
            rec.fail("C12:stream-starved-by-abandoned-response", {}, {"abandoned_bytes": size, "outcome": outcome, "received": got, "server_errors": errs})
    # the same for responses that were completely received (END_STREAM buffered) before they were closed unread; the sizes add up to
    # exactly the connection window (65535 + 2**24) so that credit that is not returned leaves nothing at all
    for plan in ([[(1027, 16384), (1, 16383)]] if ctx.quick else [[(1027, 16384), (1, 16383)], [(1100, 16000)], [(256, 65535), (1, 65791)]]):
        outcome, got, errs = h2b1.run_big_download(total=200000, abandon_many=plan)
        count, size = plan[0]
        rec.evals += 1
        rec.distinct.add(("abandon-many-then-download", repr(plan)))
        rec.dist[f"abandon-many-then-download:{outcome.split(':')[0]}"] += 1
        if outcome != "ok" or got != 200000 or errs:
            rec.fail("C12:stream-starved-by-abandoned-response", {"how": "received-in-full"}, {"abandoned": [count, size], "outcome": outcome, "received": got,
                                                                                                 "server_errors": errs})
    return rec.finish("C12 slots lock-step + interactive HTTP/2 exploration",
                      "B1: random sequences of SETTINGS(n) / the acquire loop (compiled from the current source text) / _response_closed on a live "
                      "AsyncHTTP2Connection vs H2.Slots, state (permits, held, limit, debt) compared after every op. Exploration: 2-6 concurrent requests (with and without bodies; read, hold or abandon the response; cancel while "
                      "waiting for or reading it) on one connection under asyncio and trio; the harness picks every server frame (HEADERS / DATA "
                      "pieces / END_STREAM per stream in any interleaving, RST_STREAM, SETTINGS MAX_CONCURRENT_STREAMS up and down, PING), cuts them "
                      "into reads, and completes every client operation; oracles: every caller gets exactly its own headers and body (prefix-checked "
                      "while streaming), open streams at the server never exceed the acknowledged limit (1 before the first ACK), nobody is left "
                      "waiting once the server has answered everything, undisturbed requests succeed. distinct = distinct op sequences / schedules")


replay = propbase.default_replay
