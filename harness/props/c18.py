"""C18 — Sync and async APIs behave identically."""
from __future__ import annotations

import ast
import importlib.util
import os

import core
import propbase
import twin

ID = "C18"
MODULE = "HttpcoreModel.Props.C18"
THEOREMS = [f"Httpcore.C18.{n}" for n in ("file_is_linewise", "file_append", "extra_lines_detected", "untouched_line", "table_shape",
                                           "subFrom_id")]
TRUSTED = [
    "Lean 4.33 kernel; axioms per theorem under coverage.theorems",
    "hand-written model of the translator's regex fragment (Unasync.lean: (^|\\b)…($|\\b), literals with '.' wildcards, the class-name pattern, "
    "leftmost non-overlapping re.sub per pattern in order); its table is regenerated from scripts/unasync.py on every run (Tie A)",
    "the model translator is tied to the real one by translating every line of httpcore/_async, tests/_async and a stream of generated lines "
    "with both (this run); the tree comparison uses both translators",
    "behavioural half: correspondence by execution only (Python semantics of async/await are not modelled)",
]
ASSUMPTIONS = ["ASCII word boundaries (Python's \\b is Unicode-aware; every source line goes through both translators, so a difference would show)",
               "single-caller scenarios: the async variant runs as one task under asyncio with nothing suspended in the back end"]
LEVEL_TEXT = ("Lean 4 theorems about the translator model for every table and every file: translation is line-wise and length-preserving (so a twin "
              "with extra or missing trailing lines is never a translation - the hole in `unasync.py --check`), and a line in which no pattern's "
              "character sequence occurs is copied unchanged. The current tree is then decided exactly: every file of httpcore/_sync equals the "
              "translation of its _async source (all lines, both directions, with the real and the model translator), the twin classes of "
              "_backends/mock.py translate into each other. Behaviour: scenarios x faults run through both variants with full operation traces compared.")
LEVEL_NOTE = ("Partial: 'same behaviour' is established on the scenario corpus by execution, not proved; what is proved is about the translator. "
              "A kernel-checked `decide` of the tree equality itself was measured (6 min for one file) and left out.")
TECHNIQUE = "Lean 4 proof (translator model) + Tie A table + line-by-line translator differential + exact tree comparison + sync/async trace differential"
DESIGN_REF = "§5 C18"

TOKENS = ["async def", "async with", "async for", "await ", "await", "Async", "AsyncIterator", "AsyncFoo", "Asyncfoo", "AsyncIteratorX", "aclose",
          "aread", "aiter_stream", "handle_async_request", "asynccontextmanager", "__aenter__", "__aexit__", "__aiter__", "@pytest.mark.anyio",
          "@pytest.mark.trio", "AutoBackend", "from .._backends.auto import AutoBackend", "fromX.._backends.auto import AutoBackend",
          "import trio as concurrency", "x", "_", "9", " ", "  ", ".", "(", ")", ":", "self", "\t", "#", "Async9", "AsyncA_b1", "await  x"]


def load_real(repo):
    spec = importlib.util.spec_from_file_location("unasync_real_" + str(abs(hash(repo))), os.path.join(repo, "scripts", "unasync.py"))
    m = importlib.util.module_from_spec(spec)
    spec.loader.exec_module(m)
    return m


def py_files(root):
    out = []
    for dirpath, _d, files in os.walk(root):
        for f in files:
            if f.endswith(".py"):
                out.append(os.path.relpath(os.path.join(dirpath, f), root))
    return sorted(out)


def run(ctx, driver):
    rng = ctx.rng
    rec = propbase.Rec(ctx, ID)
    repo = core.REPO
    real = load_real(repo)
    # ---- 1. translator differential: model vs scripts/unasync.py, line by line --------------------------------------------------
    lines = []
    for sub in ("httpcore/_async", "tests/_async", "httpcore/_backends", "httpcore"):
        root = os.path.join(repo, sub)
        for f in (py_files(root) if sub != "httpcore" else [x for x in os.listdir(root) if x.endswith(".py")]):
            with open(os.path.join(root, f), newline="") as fh:
                lines += fh.readlines()
    n_src = len(lines)
    for _ in range(1500 if ctx.quick else 40000):
        k = rng.randint(1, 6)
        line = "".join(rng.choice(TOKENS) for _ in range(k)) + rng.choice(["\n", "\n", "", " \n"])
        lines.append(line)
    uniq = sorted(set(lines))
    answers = driver.run(["unasync " + (l.encode().hex() or "-") for l in uniq]) if driver else [None] * len(uniq)
    changed = 0
    for l, ans in zip(uniq, answers):
        want = real.unasync_line(l)
        rec.evals += 1
        changed += want != l
        if ans is not None:
            got = "" if ans == "-" else bytes.fromhex(ans).decode()
            if got != want:
                if not l.isascii():
                    rec.dist["translator:non-ascii-line-outside-the-modelled-fragment"] += 1      # Python's \\b is Unicode-aware
                else:
                    rec.disagree("translator", {"line": l, "real": want, "model": got})
    rec.distinct |= {("line", l) for l in uniq}
    rec.dist["translator:source-lines"] = n_src
    rec.dist["translator:distinct-lines"] = len(uniq)
    rec.dist["translator:lines-changed-by-translation"] = changed
    # ---- 2. the tree: _sync is exactly the translation of _async -------------------------------------------------------------------
    a_root, s_root = os.path.join(repo, "httpcore", "_async"), os.path.join(repo, "httpcore", "_sync")
    a_files, s_files = py_files(a_root), py_files(s_root)
    for f in sorted(set(a_files) ^ set(s_files)):
        rec.fail("sync-tree-file-set", {"file": f}, {"file": f, "only_in": "_async" if f in a_files else "_sync"})
    model_of = dict(zip(uniq, answers))
    for f in sorted(set(a_files) & set(s_files)):
        with open(os.path.join(a_root, f), newline="") as fh:
            al = fh.readlines()
        with open(os.path.join(s_root, f), newline="") as fh:
            sl = fh.readlines()
        rec.evals += 1
        rec.distinct.add(("file", f))
        rec.dist["tree:lines-compared"] += max(len(al), len(sl))
        want = [real.unasync_line(l) for l in al]
        if want != sl:
            i = next((i for i, (x, y) in enumerate(zip(want, sl)) if x != y), min(len(want), len(sl)))
            rec.fail("sync-tree-differs", {"file": f},
                     {"file": f, "line": i + 1, "async_lines": len(al), "sync_lines": len(sl),
                      "expected": want[i] if i < len(want) else None, "actual": sl[i] if i < len(sl) else None,
                      "how_to_replay": "diff <(python scripts/unasync.py-translation of httpcore/_async/<file>) httpcore/_sync/<file>"})
        if driver:
            mod = [("" if model_of[l] == "-" else bytes.fromhex(model_of[l]).decode()) if l in model_of else None for l in al]
            if mod != sl and want == sl:
                rec.disagree("tree-model", {"file": f})
    # ---- 3. the hand-written twins of _backends/mock.py translate into each other -------------------------------------------------------
    mock = os.path.join(repo, "httpcore", "_backends", "mock.py")
    with open(mock, newline="") as fh:
        src = fh.read()
    tree = ast.parse(src)
    ml = src.splitlines(keepends=True)
    cls = {n.name: (n.lineno - 1, n.end_lineno) for n in tree.body if isinstance(n, ast.ClassDef)}
    for a in sorted(cls):
        if a.startswith("Async") and a[5:] in cls:
            ta = [real.unasync_line(l) for l in ml[cls[a][0]:cls[a][1]]]
            tb = ml[cls[a[5:]][0]:cls[a[5:]][1]]
            rec.evals += 1
            rec.distinct.add(("twin", a))
            if ta != tb:
                i = next((i for i, (x, y) in enumerate(zip(ta, tb)) if x != y), min(len(ta), len(tb)))
                rec.fail("mock-twin-differs", {"class": a}, {"class": a, "expected": ta[i] if i < len(ta) else None, "actual": tb[i] if i < len(tb) else None})
    # ---- 4. behaviour: the same scenario through both variants -----------------------------------------------------------------------------
    n = 250 if ctx.quick else 6000
    for i in range(n):
        sc = twin.gen_scenario(rng)
        if sc["fault"] is not None:
            sc["fault"] = (sc["fault"][0] % 26, sc["fault"][1])
        a, b = twin.run_sync(sc), twin.run_async(sc)
        rec.evals += 1
        rec.distinct.add(("scenario", repr(sc)))
        rec.dist["behaviour:kind:" + sc["kind"]] += 1
        rec.dist["behaviour:network-operations"] += len(a["log"])
        for r in a["results"]:
            rec.dist["behaviour:step:" + str(r.get("outcome", r.get("close")))] += 1
        d = twin.first_difference(a, b)
        if d:
            rec.fail("sync-async-behaviour-differs", {"where": d["where"].split()[0]}, {"scenario": repr(sc), "difference": d,
                                                                                      "how_to_replay": "twin.run_sync(sc) vs twin.run_async(sc)"})
        if len(rec.samples) < 2 and len(a["log"]) > 12:
            rec.samples.append({"scenario": repr(sc)[:400], "steps": [r.get("outcome", r.get("close")) for r in a["results"]], "ops": len(a["log"])})
    for i in range(300 if ctx.quick else 5000):
        sc = twin.gen_mock_scenario(rng)
        a, b = twin.run_mock(sc, False), twin.run_mock(sc, True)
        rec.evals += 1
        rec.distinct.add(("mock", sc["buffer"], tuple(sc["steps"])))
        rec.dist["mock:" + sc["buffer"]] += 1
        if a != b:
            i = next((i for i, (x, y) in enumerate(zip(a, b)) if x != y), 0)
            rec.fail("sync-async-behaviour-differs", {"where": "mock-backend"},
                     {"buffer": sc["buffer"], "steps": sc["steps"], "sync": a[i] if i < len(a) else None, "async": b[i] if i < len(b) else None})
    return rec.finish("C18 translator differential + tree equality + sync/async trace differential",
                      "1: every line of httpcore/_async, tests/_async, httpcore/_backends, httpcore/*.py and generated lines (tokens of the table, "
                      "near-misses, separators, with/without newline) through the model translator and scripts/unasync.py. 2: every file of "
                      "httpcore/_sync against the full translation of its _async source (file sets, all lines, line counts). 3: Async*/plain twin "
                      "classes of _backends/mock.py. 4: scenarios of 1-4 requests (GET/POST, bytes and iterator bodies, read all / first part / "
                      "nothing, pool closed inside a response, per-request time-outs) over 8 connection kinds (direct, TLS, HTTP/2, forward / "
                      "tunnel proxies, SOCKS5), max_connections 1/2/10, keep-alive 0/1/default, retries 0/1, Connection: close servers, one "
                      "injected fault or time-out at network operation 0..25: network operation traces (arguments, data, time-outs), step results, "
                      "connection states and open sockets after every step are equal; plus scripted runs on httpcore's own Mock back ends. "
                      "distinct = distinct lines / files / scenarios")


replay = propbase.default_replay
