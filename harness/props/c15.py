"""C15 — only documented exception types reach the caller."""
from __future__ import annotations

import core
import h1gen
import propbase
import servers
import simnet

ID = "C15"
MODULE = "HttpcoreModel.Props.C15"
THEOREMS = [f"Httpcore.C15.{n}" for n in ("documented_only", "class_matches_cause", "backend_maps_documented", "backend_maps_match_operation",
                                           "surface_total", "terminates_on_eof", "map_sites_direction")]
TRUSTED = [
    "Lean 4.33 kernel; axioms per theorem under coverage.theorems",
    "harness/extract.py: the exception maps of the three back ends, the class tree of _exceptions.py and every map_exceptions site of _async",
    "hand-written table ExcSurface.surface (stage x cause -> class reaching the caller), read off the handlers and tied by fuzz-style correspondence "
    "of the surfaced class (this run); which byte strings the protocol libraries reject is observed, not modelled",
]
ASSUMPTIONS = ["the back ends raise only what their exception maps produce (their own code is outside the model)",
               "causes are classified by construction of the input (malformed by mutation / injected back-end exception / invalid caller request)"]
LEVEL_TEXT = ("Lean 4 theorems decided over tables regenerated from the source (back-end exception maps, exception class tree) and over the hand-written "
              "stage x cause surface table: every class that can reach the caller is documented and matches its cause; read loops terminate once the "
              "input has ended (structural recursion in the reader model). Tied by fuzz-style runs: malformed HTTP/1.1 heads/bodies/chunking, raw "
              "HTTP/2 frames of any type/flags/length/stream id and HPACK garbage, SOCKS5 and CONNECT replies, from scratch and by mutation, plus "
              "every injected back-end exception, in head and body phase; the surfaced class is compared with the table.")
LEVEL_NOTE = ("Partial: the model predicts the class per (stage, cause); the classification of byte strings into causes is by construction of the "
              "fuzz input. Termination ('never hangs once input has ended') is proved for the HTTP/1.1 reader model and observed (watchdog) elsewhere.")
TECHNIQUE = "Lean 4 `decide` over regenerated exception tables + hand-written surface table + fuzz-style correspondence of the surfaced class"
DESIGN_REF = "§5 C15"

DOCUMENTED = {"ConnectionNotAvailable", "ProxyError", "UnsupportedProtocol", "ProtocolError", "RemoteProtocolError", "LocalProtocolError",
              "TimeoutException", "PoolTimeout", "ConnectTimeout", "ReadTimeout", "WriteTimeout", "NetworkError", "ConnectError", "ReadError",
              "WriteError"}


def outcome_of(fn):
    try:
        with propbase.time_limit(3.0):
            fn()
        return "ok", None
    except propbase.HangDetected:
        return "hang", None
    except simnet.Starved:
        return "starved", None
    except BaseException as e:  # noqa
        t = type(e)
        name = simnet.exc_name(e)
        detail = f"{t.__module__.split('.')[0]}.{t.__name__}"
        return ("error:" + name), detail


def mutate(rng, data, alphabet=None):
    raw = bytearray(data)
    for _ in range(rng.randint(1, 4)):
        op = rng.randrange(4)
        pos = rng.randrange(len(raw) + 1)
        ch = rng.choice(alphabet or bytes(range(256)))
        if op == 0:
            raw.insert(pos, ch)
        elif op == 1 and raw:
            del raw[min(pos, len(raw) - 1)]
        elif op == 2 and raw:
            raw[min(pos, len(raw) - 1)] = ch
        elif raw:
            del raw[pos:]
    return bytes(raw)


# ---- HTTP/1.1 ---------------------------------------------------------------------------------------------------

def h1_case(rng):
    r = h1gen.gen_response(rng)
    data, head_len = h1gen.encode(r, rng)
    kind = rng.choice(["head", "body", "garbage", "truncate"])
    if kind == "head":
        bad = mutate(rng, data[:head_len], b"\r\n :;\t\x00\x0b\x0c\xffHTP/1.0z") + data[head_len:]
    elif kind == "body":
        bad = data[:head_len] + mutate(rng, data[head_len:] or b"x", b"\r\n;0aFg\x00\xff")
    elif kind == "garbage":
        bad = bytes(rng.randrange(256) for _ in range(rng.randint(1, 60)))
    else:
        bad = data[:rng.randrange(len(data) + 1)]
    return {"proto": "h1", "stage": "head" if kind in ("head", "garbage") else "body", "method": r["method"], "segs": h1gen.cuts_random(rng, bad, 3),
            "mutated": bad != data}


def run_h1(case):
    import httpcore
    peer = h1gen.OpenPeer(list(case["segs"]), eof=True)
    net = simnet.Net(simnet.Behavior(peer_factory=lambda rec: peer))

    def go():
        with httpcore.ConnectionPool(network_backend=simnet.SimBackend(net)) as pool:
            with pool.stream(case["method"], "http://example.com/") as resp:
                case["got_head"] = True
                for _ in resp.iter_stream():
                    pass
    return outcome_of(go)


# ---- HTTP/2: raw frames from hyperframe / garbage -----------------------------------------------------------------

def h2_frames(rng):
    """a conversation prefix the client accepts (server preface), then hostile frames"""
    import h2.config
    import h2.connection
    import hyperframe.frame as hf
    srv = h2.connection.H2Connection(config=h2.config.H2Configuration(client_side=False))
    srv.initiate_connection()
    out = [srv.data_to_send()]
    kind = rng.choice(["bad-status", "garbage", "frame", "frame", "hpack", "valid-then-frame", "goaway", "rst", "truncated-frame"])
    sid = rng.choice([1, 1, 1, 3, 0, 2, 99])
    enc = __import__("hpack").Encoder()
    if kind == "bad-status":
        hb = enc.encode([(":status", rng.choice(["abc", "", "2 0", "99999999999999999999", "-1", "20x"]))])
        f = hf.HeadersFrame(1, hb, flags=["END_HEADERS"] + (["END_STREAM"] if rng.random() < 0.5 else []))
        out.append(f.serialize())
    elif kind == "garbage":
        out.append(bytes(rng.randrange(256) for _ in range(rng.randint(1, 80))))
    elif kind == "hpack":
        f = hf.HeadersFrame(1, bytes(rng.randrange(256) for _ in range(rng.randint(1, 30))), flags=["END_HEADERS"])
        out.append(f.serialize())
    elif kind in ("frame", "valid-then-frame"):
        if kind == "valid-then-frame":
            hb = enc.encode([(":status", "200")])
            out.append(hf.HeadersFrame(1, hb, flags=["END_HEADERS"]).serialize())
            if rng.random() < 0.5:
                out.append(hf.DataFrame(1, b"abc").serialize())
        ftype = rng.randrange(0, 12)
        length = rng.choice([0, 1, 4, 5, 8, 9, 17, 100])
        flags = rng.randrange(256)
        payload = bytes(rng.randrange(256) for _ in range(length))
        hdr = length.to_bytes(3, "big") + bytes([ftype, flags]) + (sid & 0x7FFFFFFF).to_bytes(4, "big")
        out.append(hdr + payload)
    elif kind == "goaway":
        f = hf.GoAwayFrame(0, last_stream_id=rng.choice([0, 1, 3]), error_code=rng.choice([0, 1, 2, 11]))
        out.append(f.serialize())
    elif kind == "rst":
        out.append(hf.RstStreamFrame(rng.choice([1, 1, 3]), error_code=rng.choice([0, 1, 8])).serialize())
    else:
        hb = enc.encode([(":status", "200")])
        full = hf.HeadersFrame(1, hb, flags=["END_HEADERS"]).serialize() + hf.DataFrame(1, b"x" * 50).serialize()
        out.append(full[:rng.randrange(1, len(full))])
    data = b"".join(out)
    return {"proto": "h2", "kind": kind, "segs": h1gen.cuts_random(rng, data, 3), "stage": "body" if kind == "valid-then-frame" else "head"}


def run_h2(case):
    import httpcore
    peer = h1gen.OpenPeer(list(case["segs"]), eof=True, alpn="h2")
    net = simnet.Net(simnet.Behavior(peer_factory=lambda rec: peer))

    def go():
        with httpcore.ConnectionPool(network_backend=simnet.SimBackend(net), http2=True, ssl_context=simnet.RecordingSSLContext()) as pool:
            with pool.stream("GET", "https://example.com/") as resp:
                case["got_head"] = True
                for _ in resp.iter_stream():
                    pass
    return outcome_of(go)


# ---- proxies ------------------------------------------------------------------------------------------------------

def proxy_case(rng):
    kind = rng.choice(["connect-reply", "socks-reply"])
    if kind == "connect-reply":
        good = b"HTTP/1.1 200 Connection established\r\n\r\n"
        reply = rng.choice([mutate(rng, good, b"\r\n :\x00\xffHT/1z9"), bytes(rng.randrange(256) for _ in range(rng.randint(0, 30))), good[:rng.randrange(len(good))],
                            b"HTTP/1.1 200 " + bytes([rng.randrange(128, 256)]) * 3 + b"\r\n\r\n",
                            b"HTTP/1.1 407 " + bytes([rng.randrange(128, 256)]) * 3 + b"\r\n\r\n"])
        return {"proto": "connect", "reply": reply, "stage": "proxy"}
    replies = []
    for default in (b"\x05\x00", b"\x05\x00\x00\x01\x7f\x00\x00\x01\x04\x38"):
        replies.append(rng.choice([default, mutate(rng, default), b"", bytes(rng.randrange(256) for _ in range(rng.randint(0, 12))), default[:1]]))
    return {"proto": "socks", "replies": replies, "stage": "proxy"}


def run_proxy(case):
    import httpcore
    if case["proto"] == "connect":
        peer = simnet.ChunkPeer([case["reply"]])
        proxy = httpcore.Proxy("http://proxy.example:3128")
    else:
        peer = servers.SocksServer(raw_replies=list(case["replies"]))
        proxy = httpcore.Proxy("socks5://proxy.example:1080")
    net = simnet.Net(simnet.Behavior(peer_factory=lambda rec: peer))

    def go():
        with httpcore.ConnectionPool(network_backend=simnet.SimBackend(net), proxy=proxy, ssl_context=simnet.RecordingSSLContext()) as pool:
            pool.request("GET", "https://example.com/" if case["proto"] == "connect" else "http://example.com/")
    return outcome_of(go)


# ---- injected back-end exceptions, invalid caller requests ---------------------------------------------------------------

def run_injected(kind, k, excname, stage):
    import httpcore
    import sweep
    w = sweep.build_world(kind, False, max_connections=1, yield_in_ops=False)
    pool, net = w["pool"], w["net"]
    net.behavior = simnet.Behavior(peer_factory=net.behavior.peer_factory, faults={k: getattr(httpcore, excname)("injected")})

    def go():
        with pool:
            with pool.stream("POST", w["url"](0, "x"), content=b"abc") as resp:
                for _ in resp.iter_stream():
                    pass
    return outcome_of(go), net


TRIPLES = []      # (stage, cause, observed outcome, payload) for the comparison with the surface table


def stage_name(proto, stage):
    if proto == "h1":
        return "h1RecvHead" if stage == "head" else "h1RecvBody"
    if proto == "h2":
        return "h2RecvHead" if stage == "head" else "h2RecvBody"
    return "proxyConnect" if proto == "connect" else "socksNegotiation"


def run(ctx, driver):
    rng = ctx.rng
    rec = propbase.Rec(ctx, ID)
    del TRIPLES[:]
    n = 700 if ctx.quick else 60000
    for i in range(n):
        which = rng.choice(["h1", "h1", "h2", "h2", "proxy"])
        case = h1_case(rng) if which == "h1" else h2_frames(rng) if which == "h2" else proxy_case(rng)
        (outcome, detail) = (run_h1 if which == "h1" else run_h2 if which == "h2" else run_proxy)(case)
        rec.evals += 1
        rec.distinct.add(repr(sorted((k, repr(v)) for k, v in case.items() if k != "got_head")))
        stage = case["stage"] if not case.get("got_head") or case["stage"] != "head" else "body"
        rec.dist[f"{case['proto']}:{outcome}"] += 1
        payload = {"case": {k: (repr(v)[:300]) for k, v in case.items()}, "outcome": outcome, "exception": detail}
        judge(rec, case["proto"], stage, "peer-data", outcome, detail, payload, case)
        if outcome.startswith("error:"):
            cause = "proxyRefused" if outcome == "error:ProxyError" else "peerMalformed"
            TRIPLES.append((stage_name(case["proto"], stage), cause, outcome, payload))
        if len(rec.samples) < 5 and outcome.startswith("error") and case["proto"] in ("h2", "socks"):
            rec.samples.append(payload)
    # every injected back-end exception at every operation, per connection kind
    import sweep
    for kind in sweep.KINDS:
        base, net = run_injected(kind, 10 ** 6, "ReadError", "none")
        nops = len([r for r in net.log if r["op"] in simnet.NET_OPS])
        for k in range(nops):
            op = [r for r in net.log if r["op"] in simnet.NET_OPS][k]["op"]
            for exc in {"connect_tcp": ["ConnectError", "ConnectTimeout"], "start_tls": ["ConnectError", "ConnectTimeout"],
                        "read": ["ReadError", "ReadTimeout"], "write": ["WriteError", "WriteTimeout"]}[op]:
                (outcome, detail), _ = run_injected(kind, k, exc, op)
                rec.evals += 1
                rec.distinct.add(("inject", kind, k, exc))
                rec.dist[f"inject:{outcome}"] += 1
                payload = {"kind": kind, "op_index": k, "op": op, "injected": exc, "outcome": outcome, "exception": detail}
                # a failed / timed-out operation reaches the caller as that very class (write errors may be absorbed on HTTP/1.1:
                # the response is still read), never as anything undocumented
                TRIPLES.append((inject_stage(kind, k, op, net_ops=[r["op"] for r in net.log if r["op"] in simnet.NET_OPS]), "backend:" + exc,
                                outcome, payload))
                if outcome in ("ok", "starved") and op == "write":
                    continue        # HTTP/1.1 absorbs a write error and goes on to read the response
                if outcome != "error:" + exc:
                    rec.fail("backend-error-class-changed", {"kind": kind, "injected": exc, "got": outcome, "op": op}, payload)
    # protocol switches: reading the (empty) body of a 101 / CONNECT-2xx response must return, not spin
    import httpcore
    for what, method, headers, reply in [("101", "GET", [("Connection", "upgrade"), ("Upgrade", "websocket")], b"HTTP/1.1 101 Switching Protocols\r\nUpgrade: websocket\r\n\r\nDATA"),
                                         ("connect-200", "CONNECT", [], b"HTTP/1.1 200 OK\r\n\r\nDATA")]:
        for segs in ([reply], [reply[:20], reply[20:]]):
            peer = h1gen.OpenPeer(list(segs), eof=True)
            net = simnet.Net(simnet.Behavior(peer_factory=lambda rec, peer=peer: peer))

            def go(net=net, method=method, headers=headers):
                with httpcore.ConnectionPool(network_backend=simnet.SimBackend(net)) as pool:
                    url = "http://example.com/" if method == "GET" else httpcore.URL(scheme=b"http", host=b"example.com", port=80, target=b"t.example:443")
                    r = pool.request(method, url, headers=headers)
                    assert r.content == b""
            outcome, detail = outcome_of(go)
            rec.evals += 1
            rec.distinct.add(("switch", what, len(segs)))
            rec.dist[f"switch:{what}:{outcome}"] += 1
            if outcome != "ok":
                rec.fail("call-did-not-return-after-input-ended" if outcome in ("hang", "starved") else "switch-response-body-read-failed",
                         {"proto": "h1", "what": what, "got": outcome}, {"what": what, "outcome": outcome, "exception": detail})
    # invalid requests from the caller
    for proto in ("h1", "h2"):
        for what, kwargs in [("bad-method", dict(method="GE T")), ("bad-header-name", dict(headers=[("Bad Name", "v")])),
                             ("bad-header-value", dict(headers=[("X", "a\r\nb")])), ("content-length-too-small", dict(headers=[("Content-Length", "1")], content=b"abcdef")),
                             ("content-length-too-large", dict(headers=[("Content-Length", "10")], content=b"ab")),
                             ("two-hosts", dict(headers=[("Host", "a"), ("Host", "b")])), ("bad-target", dict(extensions={"target": b"/a b"}))]:
            w = sweep.build_world("direct-h2" if proto == "h2" else "direct-h1", False, yield_in_ops=False)
            kw = dict(method="POST", content=b"abc")
            kw.update(kwargs)

            def go(w=w, kw=kw):
                with w["pool"]:
                    w["pool"].request(kw.pop("method"), w["url"](0, "x"), **kw)
            outcome, detail = outcome_of(go)
            rec.evals += 1
            rec.distinct.add(("invalid-request", proto, what))
            rec.dist[f"invalid-request:{proto}:{outcome}"] += 1
            payload = {"proto": proto, "what": what, "outcome": outcome, "exception": detail}
            if outcome == "ok" or outcome == "error:RemoteProtocolError":
                # accepted (HTTP/2 is more liberal, the server may reject) - not an exception-surface question
                continue
            TRIPLES.append(("h1Send" if proto == "h1" else "h2Send", "callerInvalid", outcome, payload))
            if outcome != "error:LocalProtocolError":
                rec.fail("invalid-request-not-localprotocolerror", {"proto": proto, "what": what, "got": detail or outcome}, payload)
    # ---- several requests sharing one HTTP/2 connection, faults at any operation, cancellation at any point ---------------
    import h2x
    for i in range(60 if ctx.quick else 6000):
        cfg = {"max_connections": rng.choice([1, 2]), "callers": rng.randint(2, 5), "p_fault": 0.3, "p_cancel": rng.choice([0.0, 0.2]),
               "cancel_phase": "any", "p_goaway": 0.1, "p_eof": 0.05, "p_rst": 0.1, "p_badframe": rng.choice([0.0, 0.15]), "segment": rng.choice(["whole", "coarse", "fine"]),
               "init_max_streams": rng.choice([1, 2, 10]), "ups": [0, 0, 300, 70000], "max_steps": 120}
        seed = rng.randrange(1 << 30)
        rt = ("asyncio", "trio")[i % 2]
        ex = h2x.run_one(rt, cfg, seed)
        rec.evals += 1
        rec.distinct.add(("h2x", rt, tuple(map(str, ex.trace))))
        for c in ex.callers:
            rec.dist[f"h2-concurrent:{c.outcome}"] += 1
            if c.outcome == "error:Other":
                cls = getattr(c, "exc", "?").split("(")[0]
                rec.fail("undocumented-exception", {"proto": "h2-concurrent", "class": cls},
                         {"runtime": rt, "cfg": cfg, "seed": seed, "caller": c.idx, "exception": getattr(c, "exc", None),
                          "trace": [list(map(str, t)) for t in ex.trace][-40:], "how_to_replay": "h2x.run_one(runtime, cfg, seed)"})
            # a stream the *server* reset (and nothing else went wrong in the run) is the remote end's doing
            where = ex.request_peers(c)
            if c.outcome == "error:LocalProtocolError" and len(where) == 1 and c.idx not in ex.faulted_callers and \
                    not any(t[0] in ("goaway", "eof", "cancel", "fault") for t in ex.trace):
                st = ex.peers[where[0][0]].streams[where[0][1]]
                if st.stage == 3:
                    rec.fail("class-does-not-match-cause", {"proto": "h2-concurrent", "cause": "stream-reset-by-server", "got": "LocalProtocolError"},
                             {"runtime": rt, "cfg": cfg, "seed": seed, "caller": c.idx, "exception": getattr(c, "exc", None),
                              "trace": [list(map(str, t)) for t in ex.trace][-40:], "how_to_replay": "h2x.run_one(runtime, cfg, seed)"})
    # several requests start on a connection that is still being set up, and some are cancelled at any point of that (the connection preface
    # included): whoever is left gets a documented exception or its response
    for i in range(120 if ctx.quick else 4000):
        cfg = {"max_connections": 1, "callers": 3, "p_cancel": 0.3, "cancel_phase": "any", "spawn_all_first": True, "segment": "coarse",
               "init_max_streams": 10, "ups": [0, 0, 300], "max_steps": 80}
        seed = rng.randrange(1 << 30)
        rt = ("asyncio", "trio")[i % 2]
        ex = h2x.run_one(rt, cfg, seed)
        rec.evals += 1
        rec.distinct.add(("h2x-early-cancel", rt, tuple(map(str, ex.trace))))
        for c in ex.callers:
            rec.dist[f"h2-early-cancel:{c.outcome}"] += 1
            if c.outcome == "error:Other":
                cls = getattr(c, "exc", "?").split("(")[0]
                rec.fail("undocumented-exception", {"proto": "h2-concurrent", "class": cls},
                         {"runtime": rt, "cfg": cfg, "seed": seed, "caller": c.idx, "exception": getattr(c, "exc", None),
                          "trace": [list(map(str, t)) for t in ex.trace][-40:], "how_to_replay": "h2x.run_one(runtime, cfg, seed)"})
    # bytes no HTTP/2 peer may send, while several streams are alive, and nothing else going wrong: every caller that fails fails with
    # RemoteProtocolError - whichever of them happened to be reading when the garbage arrived
    stored_g = [(k["replay_args"]["runtime"], k["replay_args"]["cfg"], k["replay_args"]["seed"]) for k in core.load_known()
                if k["property"] == ID and (k.get("replay_args") or {}).get("engine") == "h2x-garbage"]
    for i in range(-len(stored_g), 80 if ctx.quick else 3000):
        if i < 0:
            rt, cfg, seed = stored_g[i]
        else:
            cfg = {"max_connections": 1, "callers": rng.randint(2, 5), "p_badframe": 0.3, "segment": rng.choice(["whole", "coarse"]),
                   "init_max_streams": 10, "ups": [0, 0, 300], "downs": [10, 3000, 70000], "max_steps": 120, "coalesce": rng.random() < 0.5}
            seed = rng.randrange(1 << 30)
            rt = ("asyncio", "trio")[i % 2]
        ex = h2x.run_one(rt, cfg, seed)
        rec.evals += 1
        rec.distinct.add(("h2x-garbage", rt, tuple(map(str, ex.trace))))
        if not any(t[0] == "badframe" for t in ex.trace):
            continue
        rec.dist["h2-garbage:schedules"] += 1
        for c in ex.callers:
            rec.dist[f"h2-garbage:{c.outcome}"] += 1
            if c.outcome.startswith("error:") and c.outcome != "error:RemoteProtocolError":
                cls = getattr(c, "exc", "?").split("(")[0]
                clause = "undocumented-exception" if c.outcome == "error:Other" else "class-does-not-match-cause"
                rec.fail(clause, {"proto": "h2-concurrent", "cause": "remote-garbage", "class" if c.outcome == "error:Other" else "got": cls if c.outcome == "error:Other" else c.outcome[6:]},
                         {"runtime": rt, "cfg": cfg, "seed": seed, "caller": c.idx, "exception": getattr(c, "exc", None),
                          "trace": [list(map(str, t)) for t in ex.trace][-40:], "how_to_replay": "h2x.run_one(runtime, cfg, seed)"})
    # resets while uploading, nothing else
    stored = h2x.corpus(ctx, ID)
    for i in range(-len(stored), 40 if ctx.quick else 800):
        if i < 0:
            rt, cfg, seed = stored[i]
        else:
            cfg = {"max_connections": 1, "callers": rng.randint(1, 3), "p_rst": 0.5, "early_response": False, "segment": "coarse",
                   "init_max_streams": 10, "ups": [300, 70000, 200000], "auto_credit": rng.random() < 0.5, "max_steps": 120}
            seed = rng.randrange(1 << 30)
            rt = ("asyncio", "trio")[i % 2]
        ex = h2x.run_one(rt, cfg, seed)
        rec.evals += 1
        rec.distinct.add(("h2x-rst", rt, tuple(map(str, ex.trace))))
        for c in ex.callers:
            rec.dist[f"h2-reset:{c.outcome}"] += 1
            where = ex.request_peers(c)
            if c.outcome in ("error:LocalProtocolError", "error:Other") and len(where) == 1 and ex.peers[where[0][0]].streams[where[0][1]].stage == 3:
                rec.fail("class-does-not-match-cause", {"proto": "h2-concurrent", "cause": "stream-reset-by-server", "got": c.outcome.split(":")[1]},
                         {"runtime": rt, "cfg": cfg, "seed": seed, "caller": c.idx, "exception": getattr(c, "exc", None),
                          "trace": [list(map(str, t)) for t in ex.trace][-40:], "how_to_replay": "h2x.run_one(runtime, cfg, seed)"})
    # an upload that has run out of credit, an early response head, then the end of the input (EOF, read error or time-out): the call
    # returns with the error, it does not wait or spin for ever
    for i in range((60 if ctx.quick else 1500) * (5 if ctx.broken and ctx.quick else 1)):
        cfg = {"max_connections": 1, "callers": rng.randint(1, 2), "early_response": True, "auto_credit": False, "segment": "coarse",
               "init_max_streams": 10, "ups": [70000, 200000], "downs": [0, 10], "p_eof": 0.25, "p_fault": rng.choice([0.0, 0.15]),
               "p_winsettings": 0.0, "p_ping": 0.0, "p_settings": 0.0, "max_steps": 60, "wall_limit": 6.0}
        seed = rng.randrange(1 << 30)
        rt = ("asyncio", "trio")[i % 2]
        ex = h2x.run_one(rt, cfg, seed)
        rec.evals += 1
        rec.distinct.add(("h2x-early", rt, tuple(map(str, ex.trace))))
        if ctx.violations and any(v["clause"] == "call-never-returns" for v in ctx.violations):
            break           # found: every further spinning run would cost its whole real-time budget
        for c in ex.callers:
            rec.dist[f"h2-early-response:{c.outcome}"] += 1
        ended = any(t[0] in ("eof", "fault") for t in ex.trace)
        hung = [c.idx for c in ex.callers if c.state != "done"] or [c.idx for c in getattr(ex, "stuck", [])]
        # "inconclusive" (the schedule ran out of real time) with no network operation outstanding means the client kept running
        # without ever waiting for the network: it spins
        # (judged at the moment the budget ran out, and only if the drain had hardly advanced: a slow machine makes a schedule
        # long, it does not make a client run for seconds between two network operations)
        spinning = getattr(ex, "wall_limited", False) and not getattr(ex, "parked_at_wall_limit", ["?"]) and \
            getattr(ex, "drain_steps_at_wall_limit", 10 ** 9) < 200
        if (hung and ((ended and not getattr(ex, "inconclusive", False)) or spinning)) or getattr(ex, "livelock", False):
            rec.fail("call-never-returns", {"proto": "h2", "when": "upload-stalled-after-early-response"},
                     {"runtime": rt, "cfg": cfg, "seed": seed, "callers": hung, "livelock": bool(getattr(ex, "livelock", False)), "spinning": bool(spinning),
                      "trace": [list(map(str, t)) for t in ex.trace][-40:], "how_to_replay": "h2x.run_one(runtime, cfg, seed)"})
    # the same, directed: three requests start together; the k-th network operation fails
    for k in range(14):
        for timeout in (False, True):
            cfg = {"max_connections": 1, "callers": 3, "spawn_all_first": True, "max_steps": 0, "fault_at": k, "fault_timeout": timeout,
                   "ups": [0, 300], "init_max_streams": 10}
            ex = h2x.run_one("asyncio", cfg, k)
            rec.evals += 1
            rec.distinct.add(("h2x-directed", k, timeout))
            for c in ex.callers:
                rec.dist[f"h2-concurrent:{c.outcome}"] += 1
                if c.outcome == "error:Other":
                    cls = getattr(c, "exc", "?").split("(")[0]
                    rec.fail("undocumented-exception", {"proto": "h2-concurrent", "class": cls},
                             {"runtime": "asyncio", "cfg": cfg, "seed": k, "caller": c.idx, "exception": getattr(c, "exc", None),
                              "trace": [list(map(str, t)) for t in ex.trace][-40:], "how_to_replay": "h2x.run_one(runtime, cfg, seed)"})
    # ---- the surface table of the model predicts the class for every (stage, cause) that occurred -------------------------
    if driver:
        keys = sorted(set((st, ca) for st, ca, _, _ in TRIPLES if st))
        answers = dict(zip(keys, driver.run([f"c15 {st} {ca}" for st, ca in keys])))
        for st, ca, outcome, payload in TRIPLES:
            if not st:
                continue
            m = core.kv(answers[(st, ca)]).get("class")
            got = outcome.split(":", 1)[1] if outcome.startswith("error:") else "none"
            rec.dist[f"surface:{st}:{ca.split(':')[0]}"] += 1
            if got == "none" and outcome == "starved" and ca.startswith("backend:Write"):
                continue
            if m != got and not (m == "none" and outcome in ("ok", "starved")):
                rec.disagree("surface-table", dict(payload, stage=st, cause=ca, model=m, got=got))
    return rec.finish("C15/B2 exception surface",
                      "malformed peer data: HTTP/1.1 responses mutated in head / body / chunking, truncated, pure garbage; HTTP/2 raw frames of any "
                      "type/flags/length/stream id, HPACK garbage, non-numeric :status, GOAWAY/RST, truncated frames (hyperframe), after a valid "
                      "server preface, in head and body phase; malformed CONNECT replies (incl. non-ASCII reason) and SOCKS5 replies; every "
                      "back-end exception injected at every operation of every connection kind; invalid caller requests on h1 and h2. "
                      "distinct = distinct inputs")


def inject_stage(kind, k, op, net_ops):
    """stage of the k-th network operation of a POST through `kind` (by position in the establishment / exchange)"""
    if op in ("connect_tcp", "connect_unix_socket"):
        return "connect"
    if op == "start_tls":
        return "tls"
    h2 = kind in ("direct-h2", "tunnel-h2")
    est_end = max([i for i, o in enumerate(net_ops) if o in ("connect_tcp", "start_tls")] + [0])
    if k < est_end:
        return "proxyConnect" if kind.startswith("tunnel") else "socksNegotiation" if kind.startswith("socks") else None
    if kind.startswith("socks") and kind == "socks5" and k <= est_end + 4:
        return "socksNegotiation"
    if h2:
        return None          # reads and writes interleave on HTTP/2: judged by the oracle only
    return "h1Send" if op == "write" else "h1RecvHead"


def judge(rec, proto, stage, cause, outcome, detail, payload, case):
    if outcome in ("ok", "starved", "hang"):
        if outcome in ("starved", "hang"):
            rec.fail("call-did-not-return-after-input-ended", {"proto": proto}, payload)
        return
    name = outcome.split(":", 1)[1]
    if name not in DOCUMENTED:
        rec.fail("undocumented-exception", {"proto": proto, "stage": stage, "exception": detail}, payload)
        return
    # class matches cause: malformed / missing peer data -> RemoteProtocolError; a proxy's refusal -> ProxyError
    allowed = {"RemoteProtocolError"}
    if proto in ("connect", "socks"):
        allowed |= {"ProxyError"}
    if name not in allowed:
        rec.fail("class-does-not-match-cause", {"proto": proto, "stage": stage, "got": name}, payload)


replay = propbase.default_replay
