"""C11 — proxy hops see exactly what is meant for them."""
from __future__ import annotations

import core
import estb2
import propbase

ID = "C11"
MODULE = "HttpcoreModel.Props.C11"
THEOREMS = [f"Httpcore.C11.{n}" for n in ("merge", "merge_override_survives", "merge_default_survives_iff", "merge_members", "connect_request",
                                           "connect_accepted_iff", "forward_request", "secrets_stay_outside", "socks_messages",
                                           "socks_connect_domain", "merge_is_the_modelled_function", "proxy_requests_are_their_own")]
TRUSTED = [
    "Lean 4.33 kernel; axioms per theorem under coverage.theorems",
    "hand-written Establish model (CONNECT request, forwarded request, SOCKS5 message layouts of socksio) + H1Write, tied byte for byte by this run",
    "simulated proxy / SOCKS servers that record what arrives before and inside the tunnel",
]
ASSUMPTIONS = ["proxy credentials and headers are ASCII", "IPv6 origin hosts through SOCKS are checked by the oracle only (address bytes not modelled)"]
LEVEL_TEXT = ("Lean 4 theorems about the proxy-hop model: merge_headers law; the CONNECT request names exactly host:port and carries only Host, Accept "
              "and proxy headers; 2xx-only acceptance; forwarded request = absolute URL + proxy headers beneath the caller's; inside the tunnel "
              "exactly the caller's headers; SOCKS5 messages offer the single configured method, optional user/password, CONNECT naming origin "
              "host and port. Tied byte for byte on recording proxy/SOCKS peers over proxy kind x credentials x colliding headers x origins x "
              "requests x every reply status / SOCKS reply code / auth answer.")
LEVEL_NOTE = ("Trusted: Lean kernel, the models of h11's writer and socksio's layouts (validated by this run), the recording peers. 'No byte of the "
              "secret inside the tunnel' is established on bytes by the oracle of every run and on header lists by the theorem.")
TECHNIQUE = "Lean 4 proof about the hop model + byte-for-byte differential against recording proxy peers"
DESIGN_REF = "§5 C11"

SECRET_USER, SECRET_PASS = "s3cretUser", "s3cretPass"


def gen_cfg(rng):
    proxy = rng.choice(["http", "https", "socks5", "socks5h"])
    c = {"proxy": proxy, "http1": True, "http2": False, "alpn_result": "http/1.1"}
    if rng.random() < 0.6:
        c["auth"] = (SECRET_USER, SECRET_PASS)
    if proxy in ("http", "https") and rng.random() < 0.7:
        names = [b"X-Proxy-Tag", b"x-proxy-tag", b"Accept", b"accept", b"Host", b"User-Agent", b"Proxy-Authorization", b"Via"]
        hs = [(rng.choice(names), b"PX" + bytes(rng.choice(b"abcdef") for _ in range(4))) for _ in range(rng.randint(1, 3))]
        seen_host = False
        c["proxy_headers"] = []
        for n, v in hs:                      # at most one Host header: two are an invalid configuration (rejected, nothing written)
            if n.lower() == b"host":
                if seen_host:
                    continue
                seen_host = True
            c["proxy_headers"].append((n, v))
    r = rng.random()
    if proxy in ("http", "https"):
        if r < 0.3:
            c["connect_status"] = rng.choice([301, 403, 407, 500, 300, 204, 299, 201, 404])
    else:
        if r < 0.15:
            c["socks_method_reply"] = rng.choice([b"\xff", b"\x02" if "auth" not in c else b"\x00", b"\x01"])
        elif r < 0.3:
            c["socks_connect_reply"] = b"\x05" + bytes([rng.choice([1, 2, 3, 4, 5, 6, 7, 8])]) + b"\x00\x01\x00\x00\x00\x00\x00\x00"
        elif r < 0.4 and "auth" in c:
            c["socks_auth_reply"] = b"\x01\x01"
    return c


def gen_req(rng):
    scheme = rng.choice(["http", "https", "http", "ws", "wss"])
    host = rng.choice(["a.example", "b.example", "10.1.2.3", "host-with-dash.example"])
    port = rng.choice([None, None, 8080, 8443, 80, 443])
    names = [b"X-Caller", b"x-proxy-tag", b"Accept", b"User-Agent", b"Authorization", b"proxy-authorization", b"Cookie"]
    hs = [(rng.choice(names), b"CL" + bytes(rng.choice(b"uvwxyz") for _ in range(4))) for _ in range(rng.randint(0, 4))]
    body = None if rng.random() < 0.5 else b"BODY" + bytes(rng.choice(b"0123456789") for _ in range(rng.randint(0, 20)))
    return {"scheme": scheme, "host": host, "port": port, "headers": hs, "body": body, "method": "POST" if body else "GET",
            "sni": "sni.other.example" if rng.random() < 0.25 else None,
            # the `target` extension: what goes on the request line of *this* request - not on the CONNECT line of a tunnel
            "target_ext": (b"/elsewhere?via=ext" if rng.random() < 0.15 else None)}


def hdr_arg(hs):
    return ",".join(core.hexb(k) + ":" + core.hexb(v) for k, v in hs) if hs else "-"


def run(ctx, driver):
    import httpcore
    from httpcore._models import include_request_headers
    rng = ctx.rng
    rec = propbase.Rec(ctx, ID)
    n = 400 if ctx.quick else 60000
    cases = [(gen_cfg(rng), gen_req(rng)) for _ in range(n)]
    lines = []
    for c, r in cases:
        eff_port = r["port"] if r["port"] is not None else estb2.DEFAULT_PORT[r["scheme"]]
        px = estb2.proxy_arg(c)
        if c["proxy"].startswith("socks"):
            lines.append(f"est socks {px} {estb2.hexs(r['host'])} {eff_port}")
        elif r["scheme"] == "http":
            url = httpcore.URL(f"{r['scheme']}://{r['host']}" + (f":{r['port']}" if r["port"] else "") + "/tokC11")
            if r.get("target_ext") is not None:
                url = httpcore.URL(scheme=url.scheme, host=url.host, port=url.port, target=r["target_ext"])     # as Request.__init__ does
            hs = include_request_headers(list(r["headers"]), url=url, content=r["body"])
            lines.append(f"est forward {px} {estb2.hexs(r['method'])} {core.hexb(url.scheme)} {core.hexb(url.host)} "
                         f"{'none' if url.port is None else url.port} {core.hexb(url.target)} {hdr_arg(hs)} "
                         f"{core.hexb(r['body']) if r['body'] is not None else '-'}")
        else:
            lines.append(f"est connect {px} {estb2.hexs(r['host'])} {eff_port}")
    answers = driver.run(lines) if driver else [None] * len(cases)
    for (c, r), ans in zip(cases, answers):
        check(rec, c, r, ans)
    sequences(ctx, rec)
    return rec.finish("C11/B2 proxy hops",
                      "proxy kind {http,https,socks5,socks5h} x credentials x custom proxy headers (case-colliding with request headers, Host, Accept, "
                      "Proxy-Authorization) x origin scheme/host/port x request headers/body x proxy reply (CONNECT status incl. 199/204/299/300/407, "
                      "SOCKS method refusal, auth failure, every reply code): bytes seen by the proxy before the tunnel and inside it compared with "
                      "the model and judged by the property. distinct = distinct (configuration, request)")


def sequences(ctx, rec):
    """several requests in a row over one pool: what a hop sees for request k is determined by request k and the proxy configuration
    alone - nothing of an earlier request (its Authorization, Cookie, body, token) shows up in a later one, on any hop"""
    rng = ctx.rng
    for i in range(60 if ctx.quick else 3000):
        c = gen_cfg(rng)
        c.pop("connect_status", None); c.pop("socks_method_reply", None); c.pop("socks_connect_reply", None); c.pop("socks_auth_reply", None)
        w = estb2.World(c)
        scheme = rng.choice(["http", "http", "https"])
        host = "a.example"
        marks = []
        fails = None
        nreq = rng.randint(2, 4)
        for k in range(nreq):
            secret = b"SEQ%d-%d-" % (i, k) + bytes(rng.choice(b"abcdef") for _ in range(6))
            hs = [(rng.choice([b"Authorization", b"Cookie", b"X-Caller"]), secret)] if rng.random() < 0.8 else []
            before = {id(p): len(bytes(p.written)) for p in w.peers if hasattr(p, "written")}
            out = w.request(scheme, host, None, f"tokSEQ{k}", headers=hs)
            rec.evals += 1
            if out["outcome"] != "ok":
                break
            for p in w.peers:
                if not hasattr(p, "written"):
                    continue
                new = bytes(p.written)[before.get(id(p), 0):]
                for (k0, m) in marks:
                    if m in new:
                        fails = {"request": k, "carries_secret_of_request": k0, "hop": getattr(p, "role", "?"), "scheme": scheme}
            marks.append((k, secret))
        rec.distinct.add(("seq", i))
        rec.dist["sequence:" + scheme + ":" + c["proxy"]] += 1
        if fails:
            rec.fail("earlier-request-leaks-into-later-one", {"hop": fails["hop"]},
                     {"cfg": {k: (list(v) if isinstance(v, tuple) else repr(v)) for k, v in c.items()}, "detail": fails})


def check(rec, c, r, ans):
    import base64
    w = estb2.World(c)
    tok = "tokC11"
    out = w.request(r["scheme"], r["host"], r["port"], tok, headers=r["headers"], content=r["body"], method=r["method"], sni=r.get("sni"), target=r.get("target_ext"))
    rec.evals += 1
    rec.distinct.add(repr((sorted(c.items(), key=str), sorted(r.items(), key=str))))
    eff_port = r["port"] if r["port"] is not None else estb2.DEFAULT_PORT[r["scheme"]]
    kind = "socks" if c["proxy"].startswith("socks") else ("forward" if r["scheme"] == "http" else "tunnel")
    rec.dist["kind:" + kind] += 1
    rec.dist["outcome:" + out["outcome"]] += 1
    proxy = [p for p in w.peers if getattr(p, "role", "") in ("proxy", "socks")]
    payload = {"cfg": {k: (list(v) if isinstance(v, tuple) else repr(v)) for k, v in c.items()}, "req": {k: repr(v) for k, v in r.items()},
               "outcome": out["outcome"], "exc": out.get("exc")}
    if not proxy:
        rec.fail("no-proxy-connection", {}, payload)
        return
    p = proxy[0]
    secrets = []
    if c.get("auth"):
        secrets.append(base64.b64encode(f"{SECRET_USER}:{SECRET_PASS}".encode()))
        secrets += [SECRET_USER.encode(), SECRET_PASS.encode()]
    secrets += [v for _, v in c.get("proxy_headers", [])]
    caller_marks = [v for _, v in r["headers"]] + ([r["body"]] if r["body"] else []) + [tok.encode()]
    if kind == "tunnel":
        pre, inside = bytes(p.pre_tunnel), bytes(p.in_tunnel)
        payload.update(pre_tunnel=repr(pre)[:500], in_tunnel=repr(inside)[:300])
        status = c.get("connect_status", 200)
        accepted = 200 <= status <= 299
        target = f"{r['host']}:{eff_port}".encode()
        req0 = p.requests[0] if p.requests else None
        if req0 is None or req0["method"] != b"CONNECT" or req0["target"] != target:
            rec.fail("connect-target", {}, payload)
        else:
            low = [(n.lower(), v) for n, v in req0["headers"]]
            if (b"host", target) not in low and not any(n.lower() == b"host" for n, _ in c.get("proxy_headers", [])):
                rec.fail("connect-host-header", {}, payload)
            allowed = {b"host", b"accept"} | {n.lower() for n, _ in c.get("proxy_headers", [])} | ({b"proxy-authorization"} if c.get("auth") else set())
            if any(n not in allowed for n, _ in low) or req0["body"]:
                rec.fail("connect-carries-foreign-header-or-body", {}, payload)
        if any(m and m in pre for m in caller_marks):
            rec.fail("caller-data-before-tunnel", {}, payload)
        if any(s and s in inside for s in secrets):
            rec.fail("proxy-secret-inside-tunnel", {}, payload)
        if accepted:
            if out["outcome"] != "ok":
                rec.fail("accepted-tunnel-request-failed", {"status": status}, payload)
        else:
            if out["outcome"] != "error:ProxyError":
                rec.fail("refused-connect-not-proxyerror", {"status": status, "got": out["outcome"]}, payload)
            if inside or tok.encode() in pre:
                rec.fail("written-after-refusal", {}, payload)
            tail = pre[pre.find(b"\r\n\r\n") + 4:] if b"\r\n\r\n" in pre else b""
            if tail:
                rec.fail("written-after-refusal", {"what": "bytes after the CONNECT head"}, payload)
        if ans:
            mw = core.unhex(core.kv(ans)["written"])
            head = pre[:pre.find(b"\r\n\r\n") + 4] if b"\r\n\r\n" in pre else pre
            if mw != head:
                rec.disagree("connect-bytes", dict(payload, model=repr(mw)[:500]))
    elif kind == "forward":
        pre = bytes(p.pre_tunnel)
        payload.update(to_proxy=repr(pre)[:600])
        req0 = p.requests[0] if p.requests else None
        # the absolute form of the URL the request names; its path is the `target` extension when the caller gave one
        url = f"{r['scheme']}://{r['host']}" + (f":{r['port']}" if r["port"] else "") + \
            (r["target_ext"].decode() if r.get("target_ext") is not None else f"/{tok}")
        if req0 is None or req0["target"] != url.encode():
            rec.fail("forward-absolute-url", {}, payload)
        else:
            got = req0["headers"]
            caller = list(r["headers"])
            # every caller header survives in order; proxy headers survive iff not overridden (case-insensitively)
            it = iter(got)
            if not all(any(h == g for g in it) for h in caller):
                rec.fail("forward-caller-headers", {}, payload)
            import httpcore
            from httpcore._models import include_request_headers
            eff = include_request_headers(list(caller), url=httpcore.URL(url), content=r["body"])
            over = {n.lower() for n, _ in eff}       # the caller's headers as sent: with the default Host / framing headers
            pxh = httpcore.Proxy(url=estb2.proxy_url(c), auth=c.get("auth"), headers=c.get("proxy_headers") or None).headers
            for n, v in pxh:
                present = (n, v) in got
                if present == (n.lower() in over) and not ((n, v) in eff):
                    rec.fail("forward-proxy-header-merge", {"header": n.lower().decode()}, payload)
                    break
        if out["outcome"] != "ok":
            rec.fail("forward-request-failed", {}, payload)
        if ans:
            mw = core.unhex(core.kv(ans)["written"])
            if mw != pre:
                rec.disagree("forward-bytes", dict(payload, model=repr(mw)[:600]))
    else:
        neg, inside = bytes(p.negotiation), bytes(p.in_tunnel)
        msgs = [m for _, m in p.messages]
        payload.update(negotiation=[m.hex() for m in msgs], in_tunnel=repr(inside)[:200])
        refuse = "socks_method_reply" in c or "socks_connect_reply" in c or "socks_auth_reply" in c
        if c.get("socks_method_reply") == (b"\x02" if c.get("auth") else b"\x00"):
            refuse = "socks_connect_reply" in c or "socks_auth_reply" in c
        want0 = bytes([5, 1, 2 if c.get("auth") else 0])
        if not msgs or msgs[0] != want0:
            rec.fail("socks-method-offer", {}, payload)
        if refuse:
            if out["outcome"] != "error:ProxyError":
                rec.fail("socks-refusal-not-proxyerror", {"got": out["outcome"]}, payload)
            if inside:
                rec.fail("http-bytes-after-socks-refusal", {}, payload)
        else:
            if out["outcome"] != "ok":
                rec.fail("socks-request-failed", {"got": out["outcome"]}, payload)
            host = r["host"].encode()
            if r["host"][0].isdigit():
                addr = bytes([1]) + bytes(int(x) for x in r["host"].split("."))
            else:
                addr = bytes([3, len(host)]) + host
            wantc = bytes([5, 1, 0]) + addr + bytes([eff_port >> 8, eff_port & 255])
            if msgs[-1] != wantc:
                rec.fail("socks-connect-names-wrong-target", {}, dict(payload, want=wantc.hex()))
            if c.get("auth"):
                wantu = bytes([1, len(SECRET_USER)]) + SECRET_USER.encode() + bytes([len(SECRET_PASS)]) + SECRET_PASS.encode()
                if len(msgs) != 3 or msgs[1] != wantu:
                    rec.fail("socks-userpass-message", {}, payload)
            elif len(msgs) != 2:
                rec.fail("socks-extra-message", {}, payload)
            if any(s and s in inside for s in secrets):
                rec.fail("proxy-secret-inside-tunnel", {"kind": "socks"}, payload)
            if any(m and m in neg for m in caller_marks):
                rec.fail("caller-data-before-tunnel", {"kind": "socks"}, payload)
            if ans and ans.startswith("msgs="):
                mm = [core.unhex(x) for x in ans[5:].split(",")]
                if mm != msgs:
                    rec.disagree("socks-messages", dict(payload, model=[m.hex() for m in mm]))
    if len(rec.samples) < 4 and kind in ("tunnel", "socks") and c.get("auth") and out["outcome"] == "ok":
        rec.samples.append(payload)


replay = propbase.default_replay
