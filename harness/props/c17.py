"""C17 — upgrade / CONNECT hand-over loses no bytes."""
from __future__ import annotations

import collections

import core
import h1gen
import propbase
import simnet

ID = "C17"
MODULE = "HttpcoreModel.Props.C17"
THEOREMS = [f"Httpcore.C17.{n}" for n in ("leading_exact", "read_slice", "read_slices", "read_slices_exhaust",
                                             "handover_read", "handover_reads", "handover_exact", "handover_reads_exhaust",
                                           "feedAll_switched", "feedUntil_feedAll")]
TRUSTED = [
    "Lean 4.33 kernel; axioms per theorem under coverage.theorems",
    "hand-written model of h11's head reader / trailing_data and of AsyncHTTP11UpgradeStream.read (H1Read, H1Obs), tied by this run's differential",
]
ASSUMPTIONS = ["the back end returns at most max_bytes per read", "callers pass max_bytes >= 1"]
LEVEL_TEXT = ("Lean 4 theorems: for every switching response head, every amount of post-head data and every segmentation, leading data + unread "
              "segments = the data the server sent after the head (leading_exact); every sequence of max_bytes slices the leading data without loss, "
              "duplication or reordering and then passes reads through (read_slices). Tied to the code by differential runs of 101 and CONNECT-2xx "
              "exchanges over all cuts of short inputs and max_bytes sequences, with write pass-through and never-pooled observed.")
LEVEL_NOTE = ("Trusted: Lean kernel, hand-written reader model, simulated network. 'Never returned to the pool' is observed on every run (connection "
              "closed, socket closed, pool empty) and follows in the model from the h11 state SWITCHED_PROTOCOL (C01.h1_reuse_iff_done); via the "
              "tunnel proxy's own CONNECT the origin cannot send before the TLS ClientHello, so that path has no leading data to lose.")
TECHNIQUE = "Lean 4 proof (extractor stability + list slicing) + differential execution"
DESIGN_REF = "§5 C17"

MAXES = [1, 2, 3, 7, 1024, 65536]


def run_impl(kind, segs, maxes, total, runtime="sync"):
    import httpcore
    peer = h1gen.OpenPeer(list(segs), eof=False)
    net = simnet.Net(simnet.Behavior(peer_factory=lambda rec: peer))
    obs = {"reads": [], "status": None, "outcome": "pending"}
    if kind == "101":
        method, url, headers = "GET", "http://example.com/ws", [("Connection", "upgrade"), ("Upgrade", "websocket")]
    else:
        method, url, headers = "CONNECT", httpcore.URL(scheme=b"http", host=b"example.com", port=80, target=b"target.example:443"), []
    try:
      with propbase.time_limit(5.0):
        with httpcore.ConnectionPool(network_backend=simnet.SimBackend(net)) as pool:
            with pool.stream(method, url, headers=headers) as resp:
                obs["status"] = resp.status
                ns = resp.extensions["network_stream"]
                got = 0
                i = 0
                while got < total and i < len(maxes):
                    data = ns.read(max_bytes=maxes[i], timeout=5)
                    obs["reads"].append(bytes(data))
                    got += len(data)
                    i += 1
                ns.write(b"PING-%d" % total, timeout=5)
                obs["body"] = b"".join(resp.iter_stream())
            obs["conns_after_close"] = len(pool.connections)
            obs["open_after_close"] = net.open_sockets()
            obs["outcome"] = "complete"
    except propbase.HangDetected:
        obs["outcome"] = "hang"
    except BaseException as e:  # noqa
        obs["outcome"] = "starved" if isinstance(e, simnet.Starved) else "error:" + simnet.exc_name(e)
        obs["exc"] = repr(e)[:200]
    obs["written_tail"] = bytes(peer.written)[-(5 + len(str(total))):]
    return obs


def run_pair(kind, d1, d2, take1, interleave):
    """two hand-over streams alive at once (two connections of one pool to two origins): the first one is read only in part before
    the second is opened; each must still deliver exactly its own leading bytes, in order"""
    import httpcore
    head = b"HTTP/1.1 101 Switching Protocols\r\nUpgrade: websocket\r\n\r\n" if kind == "101" else b"HTTP/1.1 200 Connection established\r\n\r\n"
    peers = [h1gen.OpenPeer([head + d1], eof=False), h1gen.OpenPeer([head + d2], eof=False)]
    it = iter(peers)
    net = simnet.Net(simnet.Behavior(peer_factory=lambda rec: next(it)))
    out = {"r1": b"", "r2": b"", "outcome": "pending"}

    def req(pool, host):
        if kind == "101":
            return pool.stream("GET", f"http://{host}/ws", headers=[("Connection", "upgrade"), ("Upgrade", "websocket")])
        return pool.stream("CONNECT", httpcore.URL(scheme=b"http", host=host.encode(), port=80, target=b"target.example:443"))
    try:
        with propbase.time_limit(5.0):
            with httpcore.ConnectionPool(network_backend=simnet.SimBackend(net)) as pool:
                with req(pool, "a.example") as ra:
                    na = ra.extensions["network_stream"]
                    if take1:
                        out["r1"] += na.read(max_bytes=take1, timeout=5)
                    with req(pool, "b.example") as rb:
                        nb = rb.extensions["network_stream"]
                        for k in range(200):
                            progressed = False
                            for name, ns, want in (("r2", nb, d2), ("r1", na, d1)) if interleave else (("r1", na, d1), ("r2", nb, d2)):
                                if len(out[name]) < len(want):
                                    out[name] += ns.read(max_bytes=3 if interleave else 65536, timeout=5)
                                    progressed = True
                            if not progressed:
                                break
            out["outcome"] = "complete"
    except propbase.HangDetected:
        out["outcome"] = "hang"
    except BaseException as e:  # noqa
        out["outcome"] = "starved" if isinstance(e, simnet.Starved) else "error:" + simnet.exc_name(e)
        out["exc"] = repr(e)[:200]
    return out


def run_duplex(kind, leading, runtime):
    """the hand-over stream is a duplex channel: while one task is parked in `read()` on the (quiet) live connection, another
    task's `write()` still reaches the socket at once; afterwards the parked read gets what the server then sends"""
    import anyio
    import httpcore
    head = b"HTTP/1.1 101 Switching Protocols\r\nUpgrade: websocket\r\n\r\n" if kind == "101" else b"HTTP/1.1 200 Connection established\r\n\r\n"
    out = {"outcome": "pending", "written_while_read_parked": None, "read_got": None}

    class S(httpcore.AsyncNetworkStream):
        def __init__(self):
            self.inbox = [head + leading]
            self.ev = anyio.Event()
            self.written = bytearray()
            self.parked = False

        async def read(self, n, timeout=None):
            while not self.inbox:
                self.parked = True
                self.ev = anyio.Event()
                await self.ev.wait()
            self.parked = False
            d = self.inbox.pop(0)
            if len(d) > n:
                self.inbox.insert(0, d[n:])
                d = d[:n]
            return d

        async def write(self, b, timeout=None):
            self.written += b

        async def aclose(self):
            self.inbox.append(b"")
            self.ev.set()

        def get_extra_info(self, k):
            return None

    class B(httpcore.AsyncNetworkBackend):
        def __init__(self):
            self.s = S()

        async def connect_tcp(self, *a, **k):
            return self.s

        async def sleep(self, s):
            await anyio.sleep(s)

    async def main():
        be = B()
        async with httpcore.AsyncConnectionPool(network_backend=be) as pool:
            if kind == "101":
                cm = pool.stream("GET", "http://example.com/ws", headers=[("Connection", "upgrade"), ("Upgrade", "websocket")])
            else:
                cm = pool.stream("CONNECT", httpcore.URL(scheme=b"http", host=b"example.com", port=80, target=b"target.example:443"))
            async with cm as resp:
                ns = resp.extensions["network_stream"]
                got = bytearray()
                with anyio.move_on_after(2.0):
                    while len(got) < len(leading):
                        part = await ns.read(max_bytes=65536, timeout=5)
                        if not part:
                            break
                        got += part
                mark = len(be.s.written)

                async def reader():
                    out["read_got"] = bytes(await ns.read(max_bytes=100, timeout=None))

                async with anyio.create_task_group() as tg:
                    tg.start_soon(reader)
                    for _ in range(50):
                        await anyio.sleep(0)
                        if be.s.parked:
                            break
                    with anyio.move_on_after(1.0) as sc:
                        await ns.write(b"PING", timeout=5)
                    out["written_while_read_parked"] = (not sc.cancelled_caught) and bytes(be.s.written[mark:]) == b"PING" and be.s.parked
                    be.s.inbox.append(b"PONG")
                    be.s.ev.set()
                    with anyio.move_on_after(2.0):
                        while out["read_got"] is None:
                            await anyio.sleep(0.01)
                    tg.cancel_scope.cancel()
            out["outcome"] = "complete" if bytes(got) == leading else "leading-data-wrong"
    async def bounded():
        with anyio.move_on_after(15.0) as sc:
            await main()
        if sc.cancelled_caught:
            out["outcome"] = "hang"
    try:
        anyio.run(bounded, backend=runtime)
    except BaseException as e:  # noqa
        out["outcome"] = "error:" + type(e).__name__
        out["exc"] = repr(e)[:200]
    return out


def run(ctx, driver):
    rng = ctx.rng
    dist = collections.Counter()
    distinct = set()
    disagreements = []
    samples = []
    cases = []
    heads = {
        "101": [b"HTTP/1.1 101 Switching Protocols\r\nConnection: upgrade\r\nUpgrade: websocket\r\n\r\n",
                b"HTTP/1.1 100 Continue\r\n\r\nHTTP/1.1 101 Switching Protocols\r\nUpgrade: websocket\r\n\r\n"],
        "connect": [b"HTTP/1.1 200 Connection established\r\n\r\n", b"HTTP/1.1 204 No Content\r\nX-A: b\r\n\r\n",
                    b"HTTP/1.0 299 ok\r\n\r\n"],
    }
    n = 120 if ctx.quick else 1500
    for kind in ("101", "connect"):
        for head in heads[kind]:
            # all cuts of a short input: one cut position anywhere, d short
            for dlen in (0, 1, 5):
                d = bytes(rng.randrange(256) for _ in range(dlen))
                data = head + d
                for cut in range(len(head) - 3, len(data) + 1):
                    segs = h1gen.cuts_at(data, [cut])
                    cases.append((kind, head, d, segs, [rng.choice(MAXES) for _ in range(dlen + 2)]))
            for _ in range(n):
                d = bytes(rng.randrange(256) for _ in range(rng.choice([0, 1, 2, 10, 100, 5000, 70000])))
                data = head + d
                segs = h1gen.cuts_random(rng, data, 6)
                if rng.random() < 0.3:
                    segs = h1gen.cuts_at(data, [len(head)] + [rng.randrange(1, len(data))] if len(data) > 1 else [])
                mode = rng.randrange(3)
                if mode == 0 or len(d) > 200:
                    maxes = [rng.choice([1024, 65536, 65536, 7000]) for _ in range(len(d) // 500 + 40)]
                elif mode == 1:
                    maxes = [rng.choice(MAXES) for _ in range(len(d) + 4)]
                else:
                    maxes = [rng.choice([1, 2, 3]) for _ in range(len(d) + 4)]
                cases.append((kind, head, d, segs, maxes))
    # two hand-over streams alive at once, the first abandoned part-way while the second is read
    pair_fails = []
    for i in range(40 if ctx.quick else 1000):
        kind = ("101", "connect")[i % 2]
        d1 = bytes(rng.randrange(256) for _ in range(rng.choice([1, 5, 40, 300])))
        d2 = bytes(rng.randrange(256) for _ in range(rng.choice([0, 1, 7, 40, 300])))
        take1 = rng.choice([0, 1, len(d1) // 2])
        inter = rng.random() < 0.5
        o = run_pair(kind, d1, d2, take1, inter)
        dist["pair:" + o["outcome"]] += 1
        distinct.add(("pair", kind, d1, d2, take1, inter))
        if o["outcome"] != "complete" or o["r1"] != d1 or o["r2"] != d2:
            pair_fails.append({"property": ID, "kind": kind, "d1": d1.hex()[:80], "d2": d2.hex()[:80], "take1": take1, "interleave": inter,
                               "got1": o["r1"].hex()[:80], "got2": o["r2"].hex()[:80], "outcome": o["outcome"], "exc": o.get("exc")})
    for payload in pair_fails[:2]:
        path = core.write_replay(ctx, f"fail_{core.digest(payload)}", dict(payload, oracle_clause="bytes-lost-or-reordered"))
        ctx.violations.append({"clause": "bytes-lost-or-reordered", "replay": path})
    # duplex: a write while another task is parked in read()
    for i, (kind, rt) in enumerate([("101", "asyncio"), ("connect", "asyncio"), ("101", "trio"), ("connect", "trio")] * (1 if ctx.quick else 10)):
        leading = bytes(rng.randrange(256) for _ in range(rng.choice([0, 3, 40])))
        o = run_duplex(kind, leading, rt)
        dist["duplex:" + o["outcome"]] += 1
        distinct.add(("duplex", kind, rt, leading))
        if o["outcome"] != "complete" or not o["written_while_read_parked"] or o["read_got"] != b"PONG":
            payload = {"property": ID, "kind": kind, "runtime": rt, "leading": leading.hex(), "result": {k: repr(v) for k, v in o.items()}}
            path = core.write_replay(ctx, f"fail_{core.digest(payload)}", dict(payload, oracle_clause="write-not-passed-through"))
            if sum(1 for v in ctx.violations if v["clause"] == "write-not-passed-through") < 2:
                ctx.violations.append({"clause": "write-not-passed-through", "replay": path})
    # a read returns at most READ_NUM_BYTES: pre-split so model and implementation see the same reads
    cases = [(k, h, d, [s[i:i + 65536] for s in segs for i in range(0, len(s), 65536)], m) for k, h, d, segs, m in cases]
    lines = []
    for kind, head, d, segs, maxes in cases:
        flags = "001" if kind == "101" else "010"
        lines.append(f"h1leading {flags} " + ",".join(core.hexb(s) for s in segs))
    ans1 = driver.run(lines) if driver else [None] * len(cases)
    lines2 = []
    for (kind, head, d, segs, maxes), a in zip(cases, ans1):
        leading = core.kv(a)["leading"] if a else "-"
        lines2.append(f"h1upgrade {leading} " + ",".join(map(str, maxes)))
    ans2 = driver.run(lines2) if driver else [None] * len(cases)
    # the whole hand-over: head loop, leading data, then the live connection (theorem handover_exact)
    lines3 = [f"h1handover {'001' if kind == '101' else '010'} " + ",".join(core.hexb(s) for s in segs) + " " + ",".join(map(str, maxes))
              for kind, head, d, segs, maxes in cases]
    ans3 = driver.run(lines3) if driver else [None] * len(cases)
    evals = 0
    for idx, ((kind, head, d, segs, maxes), a1, a2, a3) in enumerate(zip(cases, ans1, ans2, ans3)):
        rt = "sync"
        impl = run_impl(kind, segs, maxes, len(d), rt)
        evals += 1
        dist[kind] += 1
        dist["outcome:" + impl["outcome"]] += 1
        distinct.add((kind, head, d, tuple(segs), tuple(maxes[:len(impl["reads"])])))
        payload = {"property": ID, "kind": kind, "segs_hex": [s.hex() for s in segs][:20], "maxes": maxes[:40], "d_len": len(d),
                   "impl_reads": [r.hex()[:40] for r in impl["reads"]][:20], "impl_outcome": impl["outcome"], "exc": impl.get("exc")}
        # ---- oracle (property statement) -------------------------------------------------------
        fails = []
        if impl["outcome"] != "complete":
            fails.append("handover-failed")
        else:
            if b"".join(impl["reads"]) != d[:sum(len(r) for r in impl["reads"])] or sum(len(r) for r in impl["reads"]) < min(len(d), 1):
                fails.append("bytes-lost-or-reordered")
            elif sum(len(r) for r in impl["reads"]) < len(d) and len(impl["reads"]) < len(maxes):
                fails.append("bytes-lost-or-reordered")
            if any(len(r) == 0 and m >= 1 for r, m in zip(impl["reads"], maxes)):
                # the loop only reads while post-head data is outstanding and the peer never closes: an empty result is a false end of stream
                fails.append("bytes-lost-or-reordered")
            if any(len(r) > m for r, m in zip(impl["reads"], maxes)):
                fails.append("max-bytes-exceeded")
            if impl["written_tail"] != b"PING-%d" % len(d):
                fails.append("write-not-passed-through")
            if impl["conns_after_close"] != 0 or impl["open_after_close"]:
                fails.append("returned-to-pool")
        for f in dict.fromkeys(fails):
            known = core.match_known(ID, {"clause": f, "kind": kind})
            if known:
                line = f"KNOWN-FINDING: property={ID} {known['id']} {known['what']}"
                if line not in ctx.known_lines:
                    ctx.known_lines.append(line)
            elif sum(1 for v in ctx.violations if v["clause"] == f) < 2:
                path = core.write_replay(ctx, f"fail_{core.digest(payload)}", dict(payload, oracle_clause=f))
                ctx.violations.append({"clause": f, "replay": path})
        # ---- model ------------------------------------------------------------------------------
        if a1 is not None:
            m1 = core.kv(a1)
            lead = core.unhex(m1["leading"])
            dist["leading:" + ("0" if not lead else "1-9" if len(lead) < 10 else "10+")] += 1
            mreads = [] if core.kv(a2)["reads"] == "-" else core.kv(a2)["reads"].split(",")
            k = 0
            exp = []
            for r in mreads:
                if r == "pass":
                    break
                exp.append(core.unhex(r))
            ok = m1["state"] == "switched" and impl["outcome"] == "complete"
            if ok:
                got_lead = impl["reads"][:len(exp)]
                if got_lead != exp[:len(impl["reads"])] and not (len(impl["reads"]) < len(exp) and got_lead == exp[:len(got_lead)]):
                    ok = False
            if ok and a3 is not None:
                m3 = core.kv(a3)
                hreads = [] if m3["reads"] == "-" else [core.unhex(r) if r != "-" else b"" for r in m3["reads"].split(",")]
                n = len(impl["reads"])
                past = sum(1 for r in hreads[:n][len(exp):] if r)
                dist["live-reads:" + ("0" if not past else "1-3" if past < 4 else "4+")] += 1
                if m3["state"] != "switched" or impl["reads"] != hreads[:n]:
                    ok = False
                    payload = dict(payload, model_handover=a3[:400])
            if not ok and len(disagreements) < 10:
                disagreements.append(dict(payload, model=a1, model_reads=mreads[:10]))
        if len(samples) < 3 and len(d) > 5 and len(segs) > 2:
            samples.append({"kind": kind, "segments": [repr(s)[:50] for s in segs][:6], "max_bytes": maxes[:8],
                            "impl_reads": [repr(r)[:30] for r in impl["reads"]][:8], "model": a1})
    if disagreements:
        ctx.broken.append({"kind": "correspondence", "family": "C17/B2 upgrade hand-over", "first": disagreements[:3],
                           "count_capped": len(disagreements)})
    return {
        "evaluations": evals, "distinct_nontrivial": len(distinct),
        "rule": "101 (upgrade request, optionally after a 100) and CONNECT 2xx (200/204/299, HTTP/1.0 and 1.1) x post-head data of 0..70000 bytes x "
                "every single cut position near/after the head for short inputs + random segmentations (head and data in the same read included) x "
                "max_bytes sequences from {1,2,3,7,1024,65536}; write pass-through and pool state after close observed. distinct = distinct (kind, head, data, cuts, max_bytes used)",
        "samples": samples, "disagreements": len(disagreements), "disagreements_checked": evals, "distribution": dict(dist),
    }


def replay(ctx, path):
    import json
    p = json.load(open(path))
    print(json.dumps(p, indent=1)[:3000])
    return 1
