"""C05 — failed and cancelled requests give their pool slot back."""
from __future__ import annotations

import core
import propbase
import sweeprun

ID = "C05"
MODULE = "HttpcoreModel.Props.C05Pool"      # imports Props.C05 (the Sys theorems)
THEOREMS = [f"Httpcore.C05.{n}" for n in sweeprun.C05_THEOREMS + ["no_abandoned_after_pass", "quiescent_pool_all_idle", "source_reclaims_abandoned",
                                                                   "reclaimed_is_unheld", "abandoned_survives_107", "abandoned_reclaimed_now"]] + ["Httpcore.LifeProps.h2_state_cases", "Httpcore.LifeProps.h2_abandoned_reclaimed", "Httpcore.LifeProps.h2_active_no_expiry"] + ["Httpcore.Wrap.failed_establishment_is_dropped", "Httpcore.Wrap.establishing_is_kept", "Httpcore.Wrap.establishing_shared_iff_h2_possible", "Httpcore.Wrap.established_delegates", "Httpcore.Wrap.closed_tunnel_not_shared", "Httpcore.Wrap.failed_view_dropped"]
TRUSTED = [
    "the status predicates of the three wrapper classes (AsyncHTTPConnection, AsyncTunnelHTTPConnection, AsyncSocks5Connection) are translated from the source (harness/lifetrans.py -> Gen.wrap*) and compared with the real objects in all 2560 combinations of their flags and of the inner connection's answers (harness/wrapb.py, this run)",
    "Lean 4.33 kernel; axioms per theorem under coverage.theorems",
    "hand-written transition-system model Sys (pool + HTTP/1.1 connection life-cycle + callers with scope cancellation and faults), tied to the code by "
    "the fault/cancellation sweeps and the concurrent explorer of this run (direct oracles on the real pool; the model's step relation is compared on "
    "the pool-pass level only)",
    "anyio 4 / trio semantics of locks, events, cancel scopes and shields (where a cancellation can be delivered)",
    "Sys is tied to the real pool step by step (harness/sysconf.py): after every scheduling step of explored runs the real pool is projected onto Sys's state space and the Lean driver searches Sys.step breadth-first for a model run between consecutive observations (this run)",
]
ASSUMPTIONS = ["trace call-backs do not suspend", "callers do not read a response after closing it",
               "a back end's start_tls closes the underlying stream when it fails with an exception (not when it is cancelled)"]
LEVEL_TEXT = ("Lean 4 theorems about the transition-system model: for every number of callers, every interleaving, every fault position and every "
              "scope-cancellation point, no request stays counted without a live owner and no HTTP/1.1 connection is left in a state from which it "
              "can neither serve, expire nor be evicted (inductive invariant). Tied to the code by exhaustive sweeps: every connection kind x shape x "
              "every fault at every network operation x cancellation at every suspension point (scope on asyncio+trio, native on asyncio), plus random "
              "multi-caller schedules, each judged on the real pool (requests counted, limbo connections, capacity probe, queued request served).")
LEVEL_TEXT += (" At the level of the assignment pass, for every kind of connection: after a pass of the current source every pooled connection is idle "
               "or held by a request still in the queue (no_abandoned_after_pass, over the hand-written pass model tied by C04/C07/C09's lock-step "
               "runs and the regenerated branch chain of the house-keeping loop) - a connection left behind by a request that has gone is closed by "
               "the next pass.")
LEVEL_NOTE = ("Partial: the proved invariant covers pool + direct HTTP/1.1 connections with scope cancellation; HTTP/2, proxy and SOCKS establishment "
              "paths and one-shot native cancellation are covered by the sweeps only (their defects are listed as known findings). The model is tied to "
              "the code at the pool-pass level by lock-step runs and otherwise through the same oracles, not by full trace comparison.")
TECHNIQUE = "Lean 4 proof (inductive invariant of a transition system over all interleavings) + translated wrapper predicates (proved, exhaustively lock-stepped) + HTTP/2 life-cycle composition with the pass + exhaustive fault/cancellation sweeps with direct oracles"
DESIGN_REF = "§5 C05"


def run(ctx, driver):
    rec = propbase.Rec(ctx, ID)
    import sysconf
    sysconf.run_conformance(ctx, rec, 100, 3000)
    sweeprun.run_sweeps(ctx, rec, ID, ["C05:"])
    import concur
    concur.explore(ctx, rec, ID, {"p_fault": 0.12, "p_cancel": 0.15, "gate_close": False}, 100, 1500, ["C05:"])
    concur.explore(ctx, rec, ID, {"p_fault": 0.05, "p_cancel": 0.05, "pool_timeout": 4.0, "gate_close": True, "p_conn_close": 0.4,
                                  "max_connections": 1}, 60, 800, ["C05:"])
    concur.explore(ctx, rec, ID, {"p_fault": 0.1, "p_cancel": 0.1, "http2": True, "max_connections": 1, "p_conn_close": 0.0}, 60, 800, ["C05:"])
    # HTTP/2, nothing going wrong: responses that have been received in full are held open while further requests start on the same
    # connection, and are closed afterwards (h2 forgets a finished stream as soon as another one sends its head)
    concur.explore(ctx, rec, ID, {"p_fault": 0.0, "p_cancel": 0.0, "http2": True, "max_connections": 1, "p_conn_close": 0.0, "p_hold": 0.6,
                                  "callers": 4, "kind": "direct", "origins": 1}, 40, 800, ["C05:"])
    # HTTP/2 uploads stalled on flow control whose streams the server resets while other requests queue for the only stream slot: the slot
    # and the event list of a request that fails come back (nobody is left waiting for them)
    import h2x
    h2x.explore(ctx, rec, ID, dict(max_connections=1, callers=3, p_rst=0.5, early_response=False, segment="coarse", init_max_streams=1,
                                   ups=[300, 70000, 200000], auto_credit=False, max_steps=150), 40, 1000, ["C12:wedged", "C07:live-lock"])
    # HTTP/2 connections that h2 itself gives up (the server sends bytes h2 rejects: no GOAWAY is ever stored) while other callers hold their
    # responses open and close them afterwards: closing must still give the pool's request entry back
    h2x.explore(ctx, rec, ID, dict(max_connections=1, callers=4, p_badframe=0.1, badframe_after_hdr=0.3, segment="whole", abandon=True, init_max_streams=10,
                                   max_steps=150),
                60, 1200, ["C05:", "C12:wedged", "C12:stream-slot-leaked"])
    import wrapb
    wrapb.run(rec, driver)
    return rec.finish("C05 sweeps + explorer", sweeprun.RULE)


replay = propbase.default_replay
