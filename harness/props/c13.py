"""C13 — HTTP/2 flow control is obeyed and never starves a transfer."""
from __future__ import annotations

import core
import h2b1
import h2x
import propbase

ID = "C13"
MODULE = "HttpcoreModel.Props.C13"
THEOREMS = [f"Httpcore.C13.{n}" for n in ("upload_in_order", "send_within_window", "windows_charged", "stops_only_on_closed_window",
                                           "waits_iff_no_window", "flow_wait_notices_reset", "send_takes_min", "consume_inv", "process_inv", "credit_returned",
                                           "increment_exact", "ack_uses_flow_controlled_length", "shared_window_respected", "each_upload_in_order")]
TRUSTED = [
    "Lean 4.33 kernel; axioms per theorem under coverage.theorems",
    "hand-written model H2.sendData (the send loop) and H2.Win (h2's WindowManager); the wait-loop test, the min(window, frame size) expression "
    "re-read after every read, min(len, flow) and the acknowledged amount are regenerated / recognised from the source (Tie A)",
    "sendData is tied by running real uploads against scripted batches of WINDOW_UPDATE / SETTINGS frames and comparing the DATA frame sizes an h2 "
    "server decodes; Win is tied by lock-step runs of h2.windows.WindowManager (this run)",
    "h2 in the server role enforces the windows and frame size it advertised (FlowControlError / FrameTooLargeError are oracle failures)",
]
ASSUMPTIONS = ["the server eventually grants window (fair drain); h2's own accounting of the remote windows is trusted",
               "h2 as a receiver rejects an empty DATA frame on a negative window (stricter than RFC 7540 6.9): the harness's server instances accept it"]
LEVEL_TEXT = ("Lean 4 theorems for every window state (incl. negative stream windows), every schedule of updates and every chunk: DATA payloads "
              "concatenate to the chunk in order, each is non-empty and within stream window, connection window and frame size, sending stops only "
              "on a closed window; receive side: window + in-hand + acknowledged = maximum is invariant, and after acknowledging everything more "
              "than half the maximum window is open again. Tied by DATA-size differential on real uploads, WindowManager lock-step, exploration "
              "with manual credit / window shrinking / padding, and downloads beyond the 16 MiB credit.")
LEVEL_NOTE = ("Partial: the send loop is modelled for one upload (tied by the frame-size differential) and for any number of uploads interleaved "
              "on one connection window (shared_window_respected, each_upload_in_order; tied by exploration only); the interplay with the "
              "reader and the locks is explored, not proved. Completion additionally needs a fair server.")
TECHNIQUE = "Lean 4 proof (functional induction over the send loop, window invariant) + Tie A + differential on frame sizes + interactive h2 exploration"
DESIGN_REF = "§5 C13"

PROFILES = {
    "manual": dict(max_connections=1, auto_credit=False, init_window=20000, ups=[0, 10, 5000, 70000, 200000], downs=[0, 10, 70000],
                   p_winsettings=0.3, allow_window_shrink=False, padding=True, segment="coarse", init_max_streams=10, end_with_data=True),
    "shrink": dict(max_connections=1, auto_credit=False, ups=[0, 10, 5000, 70000], downs=[0, 10], p_winsettings=0.4, allow_window_shrink=True,
                   segment="coarse", init_max_streams=10),
    "tiny": dict(max_connections=1, auto_credit=False, init_window=100, ups=[0, 1, 99, 100, 101, 1000], downs=[0, 10, 3000], padding=True,
                 segment="fine", init_max_streams=10, p_winsettings=0.1, window_values=[1, 100, 1000], allow_window_shrink=True,
                 end_with_data=True),
    # nothing but DATA and WINDOW_UPDATE on the wire: an upload must keep moving on the credit it is given, with no other frame to wake it
    "quiet": dict(max_connections=1, auto_credit=False, init_window=20000, ups=[70000, 200000], downs=[0, 10], p_winsettings=0.0, p_ping=0.0,
                  p_settings=0.0, allow_window_shrink=False, segment="coarse", init_max_streams=10, callers=2, end_with_data=True),
    # the server answers (HEADERS) before the upload is complete and keeps handing out credit afterwards: the upload must go on
    "early": dict(max_connections=1, auto_credit=False, init_window=1000, ups=[5000, 70000], downs=[0, 10], early_response=True, segment="coarse",
                  init_max_streams=10, p_winsettings=0.0, allow_window_shrink=False, callers=2),
    # uploads that have run out of credit while the server resets streams, one stream at a time allowed (requests queue for the slot) and
    # whoever happens to hold the read lock reads the RST_STREAM of somebody else's stream: nobody is left waiting for credit that cannot come
    "reset-while-stalled": dict(max_connections=1, callers=3, p_rst=0.5, early_response=False, segment="coarse", init_max_streams=1,
                                ups=[300, 70000, 200000], auto_credit=False, max_steps=150),
    # downloads that are read in full, held, closed unread, or closed after the first part: every byte of credit comes back
    "downloads": dict(max_connections=1, auto_credit=True, ups=[0], downs=[10, 3000, 70000], abandon=True, partial=True, segment="coarse",
                      init_max_streams=10, p_ping=0.1),
}
WANT = ["C13:", "C07:live-lock", "C12:wedged", "C12:undisturbed-request-failed", "C12:server-protocol-error"]


def run(ctx, driver):
    rng = ctx.rng
    rec = propbase.Rec(ctx, ID)
    # ---- B1: DATA frame sizes of a real upload vs sendData --------------------------------------------------------------
    n = 250 if ctx.quick else 5000
    cases = [h2b1.gen_send_case(rng) for _ in range(n)]
    answers = driver.run([h2b1.send_model_line(c) for c in cases]) if driver else [None] * n
    for c, ans in zip(cases, answers):
        sizes, left, outcome, errs = h2b1.run_send_impl(c)
        rec.evals += 1
        rec.distinct.add(h2b1.send_model_line(c))
        rec.dist["send:" + outcome.split(":")[0]] += 1
        rec.dist["send:frames"] += len(sizes)
        got = f"chunks={','.join(map(str, sizes)) or '-'} left={left}"
        payload = {"case": c, "impl": got, "outcome": outcome, "server_errors": errs, "model": ans}
        if errs:
            rec.fail("C13:flow-control-violated", {"where": "upload-differential"}, payload)
        if outcome.startswith("error"):
            rec.fail("C13:transfer-failed", {"where": "upload-differential", "outcome": outcome.split(":")[1]}, payload)
        elif ans is not None and got != ans:
            rec.disagree("sendData", payload)
        if len(rec.samples) < 2 and len(sizes) > 5 and left == 0:
            rec.samples.append(payload)
    # ---- B1: h2's WindowManager vs Win -------------------------------------------------------------------------------------
    n = 1500 if ctx.quick else 30000
    cases = [c for c in (h2b1.gen_win_case(rng) for _ in range(n)) if c["ops"]]
    answers = driver.run([f"h2win {c['max']} {','.join(c['ops'])}" for c in cases]) if driver else [None] * len(cases)
    for c, ans in zip(cases, answers):
        got = h2b1.run_win_impl(c)
        rec.evals += 1
        rec.distinct.add((c["max"], tuple(c["ops"])))
        rec.dist["win:increments"] += sum(1 for s in got.split(";") if s != "x" and not s.endswith(":0"))
        if ans is not None and got != ans:
            rec.disagree("WindowManager", {"case": c, "impl": got, "model": ans})
    # ---- exploration ------------------------------------------------------------------------------------------------------------
    h2x.explore(ctx, rec, ID, PROFILES["manual"], 50, 1200, WANT)
    h2x.explore(ctx, rec, ID, PROFILES["shrink"], 50, 1200, WANT)
    h2x.explore(ctx, rec, ID, PROFILES["tiny"], 40, 1000, WANT)
    h2x.explore(ctx, rec, ID, PROFILES["quiet"], 40, 1000, WANT)
    h2x.explore(ctx, rec, ID, PROFILES["downloads"], 60, 1500, WANT)
    h2x.explore(ctx, rec, ID, PROFILES["early"], 40, 1000, WANT)
    h2x.explore(ctx, rec, ID, PROFILES["reset-while-stalled"], 60, 1500, WANT)
    # ---- downloads beyond the client's credit ---------------------------------------------------------------------------------
    runs = [dict(total=20_000_000), dict(total=70_000, frame=1, pad=255)]
    if not ctx.quick:
        runs += [dict(total=50_000_000), dict(total=17_000_000, frame=16384, pad=100), dict(total=300_000, frame=3, pad=200)]
    for kw in runs:
        outcome, got, errs = h2b1.run_big_download(**kw)
        rec.evals += 1
        rec.distinct.add(("download", tuple(sorted(kw.items()))))
        rec.dist[f"download:{outcome.split(':')[0]}"] += 1
        if outcome != "ok" or got != kw["total"] or errs:
            rec.fail("C13:download-starved" if outcome == "starved" else "C13:transfer-failed", {"where": "download"},
                     dict(kw, outcome=outcome, received=got, server_errors=errs))
    return rec.finish("C13 send-loop differential + WindowManager lock-step + exploration",
                      "B1: uploads of 0..200000 bytes against 0-14 scripted batches of stream/connection WINDOW_UPDATE, MAX_FRAME_SIZE and "
                      "INITIAL_WINDOW_SIZE changes (incl. decreases that make the window negative), one batch per read; the DATA frame sizes seen by "
                      "an h2 server = model chunks, unsent remainder equal. Win: random receive/acknowledge sequences on h2.windows.WindowManager. "
                      "Exploration: several uploads sharing the connection window with manual credit (tiny, stream-only, connection-only, late), "
                      "window shrinking, padded response DATA, under asyncio and trio; oracles: server-side h2 raises no flow-control / frame-size "
                      "error, received bodies equal sent bodies, nobody stuck once all credit is returned, client window accounting conserved "
                      "(window + processed = maximum when everything was consumed). Downloads: 20-50 MB and heavily padded bodies beyond the "
                      "client's 16 MiB credit complete. distinct = distinct cases / schedules")


replay = propbase.default_replay
