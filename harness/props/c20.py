"""C20 — connection retries are bounded and limited to establishment.

Tie A: back-off constants, retryable tuple and give-up test are regenerated into Generated.lean.
Tie B2 (exhaustive): every outcome script of the prescribed shape is run through the public pool API
on sync / asyncio / trio with the simulated back end and compared with `Backoff.connect`."""
from __future__ import annotations

import collections
import fractions
import itertools

import core
import simnet

ID = "C20"
MODULE = "HttpcoreModel.Props.C20"
THEOREMS = [f"Httpcore.C20.{n}" for n in (
    "retryable_exact", "giveUp_exact", "attempts", "delays_sequence", "delays_values",
    "one_pause_between_attempts", "last_error", "only_connect_errors", "success_ends_loop", "all_fail_exact")]
TRUSTED = [
    "Lean 4.33 kernel; axioms per theorem listed under coverage.theorems (subset of propext, Classical.choice, Quot.sound)",
    "harness/extract.py transcribes RETRIES_BACKOFF_FACTOR, exponential_backoff's first value/base, the except tuple and the give-up test of _connect",
    "hand-written model Backoff.run of the loop in AsyncHTTPConnection._connect, tied by exhaustive execution (this run)",
    "simulated network back end (harness/simnet.py); sleep is simulated (recorded, not slept)",
]
ASSUMPTIONS = [
    "the back end's sleep() does not raise",
    "direct (non-proxied) connections only, as the property states",
]

OUTCOMES = {"ok": None, "ConnectError": "ConnectError", "ConnectTimeout": "ConnectTimeout",
            "ReadError": "ReadError", "WriteTimeout": "WriteTimeout", "Other": "Other"}


def mk_exc(name):
    import httpcore
    if name == "Other":
        return RuntimeError("injected foreign exception")
    return getattr(httpcore, name)("injected")


def scripts(n, tls, thorough):
    """All per-operation outcome scripts: k retryable failed attempts followed by a terminal attempt
    (success / non-retryable failure) or by nothing (script ends -> starved), k <= n + 2."""
    retry = ["ConnectError", "ConnectTimeout"]
    nonretry = ["ReadError", "Other"] + (["WriteTimeout"] if thorough else [])
    if tls:
        failed_attempts = [[r] for r in retry] + [["ok", r] for r in retry]
        # a non-retryable failure is followed by unused "ok" padding: a retry after it would consume it
        terminals = [["ok", "ok"]] + [[x, "ok", "ok"] for x in nonretry] + [["ok", x, "ok", "ok"] for x in nonretry] + [[], ["ok"]]
    else:
        failed_attempts = [[r] for r in retry]
        terminals = [["ok"]] + [[x, "ok"] for x in nonretry] + [[]]
    for k in range(0, n + 3):
        for combo in itertools.product(failed_attempts, repeat=k):
            pre = [o for att in combo for o in att]
            for t in terminals:
                yield pre + t


def run_impl(case, runtime):
    """-> (ops, res)"""
    import httpcore
    n, tls, uds, outs, post = case["n"], case["tls"], case["uds"], case["outs"], case["post"]
    faults = {}
    for k, o in enumerate(outs):
        if o != "ok":
            faults[k] = mk_exc(o)
    nscript = len(outs)

    class B(simnet.Behavior):
        def _fault(self, rec):
            if rec["op"] in ("connect_tcp", "connect_unix_socket", "start_tls") and rec["k"] >= nscript:
                raise simnet.Starved()
            super()._fault(rec)

        def read(self, net, sock, rec):
            if post is not None:
                raise mk_exc(post)
            return super().read(net, sock, rec)

    resp = b"HTTP/1.1 200 OK\r\nContent-Length: 0\r\n\r\n"
    net = simnet.Net(B(peer_factory=lambda rec: simnet.ChunkPeer([resp]), faults=faults))
    url = ("https" if tls else "http") + "://example.com/"
    kw = dict(retries=n, uds="/tmp/sock" if uds else None, ssl_context=simnet.RecordingSSLContext())
    result = {}
    # the request's connect time-out limits each attempt, never the pause between attempts
    rq = {"extensions": {"timeout": {"connect": case["ct"]}}} if case.get("ct") is not None else {}
    if runtime == "sync":
        try:
            with httpcore.ConnectionPool(network_backend=simnet.SimBackend(net), **kw) as pool:
                r = pool.request("GET", url, **rq)
                result["res"] = "connected" if r.status == 200 else f"status:{r.status}"
        except BaseException as e:  # noqa
            result["res"] = "starved" if isinstance(e, simnet.Starved) else "raised:" + simnet.exc_name(e)
    else:
        async def main():
            try:
                async with httpcore.AsyncConnectionPool(network_backend=simnet.AsyncSimBackend(net), **kw) as pool:
                    r = await pool.request("GET", url, **rq)
                    result["res"] = "connected" if r.status == 200 else f"status:{r.status}"
            except BaseException as e:  # noqa
                result["res"] = "starved" if isinstance(e, simnet.Starved) else "raised:" + simnet.exc_name(e)
        simnet.run_async(main, runtime)
    ops = []
    raw_sleeps = []
    for rec in net.log:
        if rec["op"] in ("connect_tcp", "connect_unix_socket"):
            if rec.get("k", 0) >= nscript and "sock" not in rec and "fault" not in rec:
                continue  # the starved probe itself
            ops.append("connect")
            case.setdefault("_kinds", set()).add(rec["op"])
        elif rec["op"] == "start_tls":
            if rec["k"] >= nscript and "fault" not in rec and not net.sockets[rec["sock"]].tls_layers:
                continue
            ops.append("start_tls")
        elif rec["op"] == "sleep":
            raw_sleeps.append(rec["seconds"])
            ops.append("sleep:" + str(fractions.Fraction(rec["seconds"])))
    return ops, result.get("res", "none"), raw_sleeps


def oracle(case, ops, res):
    """Direct reading of the property statement (independent of the model)."""
    fails = []
    n = case["n"]
    attempts = ops.count("connect")
    if attempts > n + 1:
        fails.append("attempts>n+1")
    sleeps = [fractions.Fraction(o.split(":")[1]) for o in ops if o.startswith("sleep:")]
    want = [fractions.Fraction(0)] + [fractions.Fraction(1, 2) * 2 ** j for j in range(len(sleeps))]
    if sleeps != want[:len(sleeps)]:
        fails.append("pause-values")
    # exactly one pause between consecutive attempts, none after the last
    idx = [i for i, o in enumerate(ops) if o == "connect"]
    for a, b in zip(idx, idx[1:]):
        if sum(1 for o in ops[a:b] if o.startswith("sleep:")) != 1:
            fails.append("pause-count")
            break
    if idx and any(o.startswith("sleep:") for o in ops[idx[-1]:]) and res != "starved":
        fails.append("pause-after-last")
    # failures: the k-th net op outcome
    netops = [o for o in ops if not o.startswith("sleep:")]
    outs = case["outs"]
    for k, o in enumerate(outs[:len(netops)]):
        if o not in ("ok", "ConnectError", "ConnectTimeout") and k + 1 < len(netops):
            fails.append("retried-non-connect-error")
            break
    if res.startswith("raised:") and case["post"] is None:
        last = outs[len(netops) - 1] if 0 < len(netops) <= len(outs) else None
        if last is None or last == "ok" or res != "raised:" + last:
            fails.append("raised-not-last-error")
    if case["post"] is not None and res == "raised:" + case["post"]:
        # failure after establishment: nothing may follow the successful establishment
        pass
    if res == "connected" or case["post"] is not None and res.startswith("raised:") and len(netops) == len(outs):
        # success ends loop: last net op is the final one of a successful attempt
        if netops and netops[-1] != ("start_tls" if case["tls"] else "connect"):
            fails.append("ops-after-established")
    return fails


def model_line(case):
    return f"c20 {1 if case['tls'] else 0} {case['n']} {','.join(case['outs']) if case['outs'] else '-'}"


def expected_from_model(case, ans):
    d = core.kv(ans)
    den = int(d["den"])
    ops = []
    for o in ([] if d["ops"] == "-" else d["ops"].split(",")):
        if o.startswith("sleep:"):
            ops.append("sleep:" + str(fractions.Fraction(int(o.split(":")[1]), den)))
        else:
            ops.append(o)
    res = d["res"]
    if res == "connected" and case["post"] is not None:
        res = "raised:" + case["post"]
    return ops, res


def all_cases(ctx):
    maxn = 3 if ctx.quick else 4
    cases = []
    for n in range(0, maxn + 1):
        for tls in (False, True):
            for outs in scripts(n, tls, not ctx.quick):
                if ctx.quick and n == 3 and tls and len(outs) > 7:
                    continue
                cases.append({"n": n, "tls": tls, "uds": False, "outs": outs, "post": None})
    # unix sockets and post-establishment failures on a sample (deterministic from the seed)
    extra = []
    base = [c for c in cases if len(c["outs"]) <= 6]
    for c in ctx.rng.sample(base, min(len(base), 400 if ctx.quick else 3000)):
        extra.append(dict(c, uds=True))
    for c in base:
        if c["outs"] and c["outs"][-1] == "ok" and (not c["tls"] or (len(c["outs"]) >= 2 and c["outs"][-2] == "ok")):
            for post in ("ConnectError", "ConnectTimeout", "ReadError"):
                extra.append(dict(c, post=post))
    for c in base:
        if sum(1 for o in c["outs"] if o != "ok") >= 2:
            for ct in (0.25, 0):
                extra.append(dict(c, ct=ct))
    return cases + extra


def run(ctx, driver):
    cases = all_cases(ctx)
    answers = driver.run([model_line(c) for c in cases]) if driver else [None] * len(cases)
    dist = collections.Counter()
    distinct = set()
    disagreements = []
    samples = []
    evals = 0
    runtimes = simnet.RUNTIMES
    for c, ans in zip(cases, answers):
        exp = expected_from_model(c, ans) if ans else None
        # quick tier: all runtimes on small scripts, sync on the rest
        rts = runtimes if (not ctx.quick or len(c["outs"]) <= 4) else ("sync",)
        for rt in rts:
            ops, res, _ = run_impl(c, rt)
            evals += 1
            dist[res.split(":")[0]] += 1
            dist["rt:" + rt] += 1
            if ops.count("connect") >= 2:
                distinct.add((c["n"], c["tls"], c["uds"], tuple(c["outs"]), c["post"]))
            fails = oracle(c, ops, res)
            if fails:
                sig = {"clause": fails[0], "tls": c["tls"], "uds": c["uds"]}
                known = core.match_known(ID, sig)
                payload = {"property": ID, "case": {k: v for k, v in c.items() if not k.startswith("_")},
                           "runtime": rt, "impl_ops": ops, "impl_res": res, "oracle_failures": fails,
                           "how_to_replay": "bin/check C20 --replay <this file>"}
                if known:
                    line = f"KNOWN-FINDING: property={ID} {known['id']} {known['what']}"
                    if line not in ctx.known_lines:
                        ctx.known_lines.append(line)
                elif len(ctx.violations) < 5:
                    path = core.write_replay(ctx, f"fail_{core.digest(payload)}", payload)
                    ctx.violations.append({"clause": fails[0], "replay": path})
            if exp is not None and (ops, res) != exp:
                if len(disagreements) < 10:
                    disagreements.append({"case": {k: v for k, v in c.items() if not k.startswith("_")}, "runtime": rt,
                                          "impl": [ops, res], "model": list(exp)})
            if len(samples) < 3 and len(c["outs"]) >= 4 and rt == "trio":
                samples.append({"case": {k: v for k, v in c.items() if not k.startswith("_")}, "runtime": rt,
                                "impl": [ops, res], "model": list(exp) if exp else None})
    if disagreements:
        ctx.broken.append({"kind": "correspondence", "family": "C20/B2 retry loop", "first": disagreements[:3],
                           "count_capped": len(disagreements)})
    return {
        "evaluations": evals,
        "distinct_nontrivial": len(distinct),
        "rule": "every outcome script = k<=n+2 retryable failed attempts (TCP or TLS stage) then a terminal attempt "
                "(success / non-retryable failure / script end), n in 0..%d, tls on/off, exhaustively; plus unix-socket and "
                "post-establishment-failure variants; each run on sync/asyncio/trio. distinct_nontrivial = distinct scripts with "
                ">= 2 connection attempts" % (3 if ctx.quick else 4),
        "exhaustive": True,
        "samples": samples,
        "disagreements": len(disagreements),
        "disagreements_checked": evals,
        "distribution": dict(dist),
    }


def replay(ctx, path):
    import json
    p = json.load(open(path))
    if "case" not in p:
        print(json.dumps(p, indent=1)[:3000])
        return 1
    c = p["case"]
    ops, res, _ = run_impl(c, p.get("runtime", "sync"))
    fails = oracle(c, ops, res)
    print("case:", c)
    print("impl ops:", ops, "res:", res)
    print("oracle failures:", fails)
    if fails:
        print(f"VIOLATION property={ID} replay={path}")
        return 1
    return 0

LEVEL_TEXT = ("Lean 4 theorems about the model of the retry loop, for every retry count, every outcome script of any length and both TLS "
              "settings (attempt bound, pause values and placement, last error, only connect errors retried, success ends the loop); constants "
              "regenerated from the source (Tie A) and the loop tied by exhaustive execution on sync/asyncio/trio (Tie B2).")
LEVEL_NOTE = ("Trusted: Lean kernel, extractor for the constants, the simulated back end; the loop model is hand-written and validated "
              "exhaustively for n<=3 (quick) / n<=4 (thorough). The guarantee that `_connect` is entered only while no protocol connection "
              "exists is structural (connection.py:77) and covered by the post-establishment-failure scripts, not by a theorem.")
TECHNIQUE = "Lean 4 proof by induction over the outcome script + regenerated constants + exhaustive differential execution"
DESIGN_REF = "§5 C20"
