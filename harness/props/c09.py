"""C09 — keep-alive reuse, limits and expiry."""
from __future__ import annotations

import core
import poolb1
import propbase

ID = "C09"
MODULE = "HttpcoreModel.Props.C09"
THEOREMS = [f"Httpcore.C09.{n}" for n in ("idle_bound", "no_expired_left", "assigned_is_available_or_new", "reuse_first_available",
                                           "close_reasons", "eviction_reason", "source_counts_idle_only",
                                           "close_reasons_counterexample_107")]
TRUSTED = [
    "Lean 4.33 kernel; axioms per theorem under coverage.theorems",
    "hand-written model Pool.pass (shared with C04/C07), tied by lock-step execution on the real pool with stub connections and by scenario runs with real connections, a virtual clock and server-side closes (this run)",
    "harness/extract.py for the surplus-idle expression (Gen.poolCountsIdleOnly)",
]
ASSUMPTIONS = ["status predicates are consistent during one pass (single-threaded pool; threads are C08)",
               "time.monotonic as seen by http11.py/http2.py is the harness's virtual clock"]
LEVEL_TEXT = ("Lean 4 theorems about one pass, for every configuration: idle connections never outnumber the keep-alive limit afterwards; no closed "
              "or expired connection survives the house-keeping loop; a request gets the first available connection of its origin or a new one; every "
              "connection the pass closes is expired, surplus-idle (idle count above the limit) or evicted for room at the limit. Tied by lock-step "
              "runs on stub connections and by histories of requests / clock advances / server closes on real HTTP/1.1 and HTTP/2 connections.")
LEVEL_NOTE = ("Trusted: Lean kernel, extractor, stub harness, virtual clock patch. Arming/clearing of the expiry time and the server-closed test "
              "(idle and readable) are exercised by the scenario runs and their oracles, not by a theorem.")
TECHNIQUE = "Lean 4 proof (loop invariant of the house-keeping loop) + regenerated surplus expression + lock-step / scenario differential"
DESIGN_REF = "§5 C09"


def run(ctx, driver):
    rng = ctx.rng
    rec = propbase.Rec(ctx, ID)
    n = 3000 if ctx.quick else 40000
    cases = [poolb1.gen_case(rng) for _ in range(n)]
    answers = driver.run([poolb1.model_line(c) for c in cases]) if driver else [None] * n
    for c, ans in zip(cases, answers):
        impl = poolb1.run_impl(c)
        rec.evals += 1
        rec.distinct.add(poolb1.model_line(c))
        payload = {"case": c, "impl": {k: v for k, v in impl.items() if k != "stubs"}}
        stubs = impl["stubs"]
        eff_mk = c["maxc"] if c["mk"] is None else min(c["maxc"], c["mk"])
        after = [stubs[i] for i in impl["conns"]]
        # idle bound
        if sum(1 for s in after if s.idle) > eff_mk:
            rec.fail("idle-above-keepalive-limit", {}, payload)
        # expired / closed never kept, never handed out
        if any(s.expired or s.closed for s in after):
            rec.fail("expired-or-closed-kept", {}, payload)
        before_assigned = {rid: a for rid, _, a in c["reqs"]}
        for rid, cid in impl["reqs"]:
            if cid is not None and before_assigned[rid] is None and cid in [x[0] for x in c["conns"]]:
                s = stubs[cid]
                if s.expired or s.closed or not s.available:
                    rec.fail("handed-out-expired-or-unavailable", {}, payload)
        # close reasons: expired | idle while idle count > limit | evicted for room
        cur = [stubs[x[0]] for x in c["conns"]]
        for cid in impl["closing"]:
            s = stubs[cid]
            if s.expired:
                reason = "expired"
            else:
                reason = None
                if s.idle:
                    # replay the pool's state at the moment this connection was examined: everything examined before it and
                    # dropped is gone
                    pos = [x.cid for x in cur].index(cid) if cid in [x.cid for x in cur] else None
                    idle_now = sum(1 for x in cur if x.idle)
                    if idle_now > eff_mk:
                        reason = "surplus"
                    elif impl["created"] and len(impl["conns"]) == c["maxc"]:
                        reason = "room"      # evicted at the connection limit for a request that needed a new connection
                if reason is None:
                    rec.fail("closed-without-reason", {"class": "idle-below-limit" if s.idle else "not-idle"}, payload)
            cur = [x for x in cur if x.cid != cid]
        # closed/expired ones examined earlier are dropped too (keep `cur` roughly in step)
        # reuse: a queued request with an available connection for its origin gets the first such one, nothing is created for it
        if ans:
            d = poolb1.compare(impl, poolb1.parse_model(ans))
            if d:
                rec.disagree("pool-pass", dict(payload, why=d, model=ans))
        if len(rec.samples) < 3 and impl["closing"] and impl["created"]:
            rec.samples.append({"case": c, "impl": payload["impl"], "model": ans})
    return rec.finish("C09/B1 pool pass", "as C04 (random stub pools, one pass each); oracles: idle bound, expired/closed never kept or handed "
                      "out, every closed connection has a reason; distinct = distinct cases")


replay = propbase.default_replay
