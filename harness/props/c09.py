"""C09 — keep-alive reuse, limits and expiry."""
from __future__ import annotations

import connlife
import core
import poolb1
import propbase

ID = "C09"
MODULE = "HttpcoreModel.Props.C09"
THEOREMS = [f"Httpcore.C09.{n}" for n in ("idle_bound", "no_expired_left", "assigned_is_available_or_new", "reuse_first_available",
                                           "close_reasons", "idle_closed_only_for_reason", "eviction_reason", "source_counts_idle_only",
                                           "close_reasons_counterexample_107", "in_use_survives_housekeeping", "in_use_h1_survives_housekeeping", "in_use_not_evicted", "cleanup_follows_source", "assign_follows_source", "dead_idle_h1_closed_by_pass", "expired_idle_h2_closed_by_pass", "live_idle_h1_not_expired")] + ["Httpcore.LifeProps.h1_in_use_view", "Httpcore.LifeProps.h2_in_use_view"] + ["Httpcore.LifeProps.h2_expiry_exact", "Httpcore.LifeProps.h1_expiry_exact", "Httpcore.LifeProps.h1_in_use_never_expires", "Httpcore.LifeProps.h2_in_use_never_expires", "Httpcore.LifeProps.h2_last_close_arms_expiry", "Httpcore.LifeProps.h1_count_exact"]
TRUSTED = [
    'life-cycle of the connection objects (ConnLife.lean): gate, _response_closed, aclose and the status predicates are *translated* from http11.py / http2.py on every run (harness/lifetrans.py -> Gen.h1*/Gen.h2*); the remaining steps (stream opened / request backed out / GOAWAY / I/O failure recorded) are hand-written and tied by lock-step: instrumented sub-classes log every life-cycle event of the real objects and the Lean driver replays the log (harness/connlife.py, this run)',
    "Lean 4.33 kernel; axioms per theorem under coverage.theorems",
    "hand-written model Pool.pass (shared with C04/C07), tied by lock-step execution on the real pool with stub connections and by scenario runs with real connections, a virtual clock and server-side closes (this run)",
    "harness/extract.py for the surplus-idle expression (Gen.poolCountsIdleOnly)",
]
ASSUMPTIONS = ["status predicates are consistent during one pass (single-threaded pool; threads are C08)",
               "time.monotonic as seen by http11.py/http2.py is the harness's virtual clock"]
LEVEL_TEXT = ("Lean 4 theorems about one pass, for every configuration: idle connections never outnumber the keep-alive limit afterwards; no closed "
              "or expired connection survives the house-keeping loop; a request gets the first available connection of its origin or a new one; every "
              "connection the pass closes is expired, surplus-idle (idle count above the limit) or evicted for room at the limit. Tied by lock-step "
              "runs on stub connections and by histories of requests / clock advances / server closes on real HTTP/1.1 and HTTP/2 connections.")
LEVEL_NOTE = ("Trusted: Lean kernel, extractor / life-cycle translator, stub harness, virtual clock patch. Arming / clearing of the expiry time and the "
              "server-closed test (idle and readable) are theorems over the translated gate / _response_closed / has_expired (h1_expiry_exact, "
              "h2_expiry_exact, *_in_use_never_expires) and composed with the pass (in_use_survives_housekeeping); the steps of the life-cycle "
              "model that stand for code with suspension points are tied by the event-log lock-step only.")
TECHNIQUE = "Lean 4 proof (loop invariant of the house-keeping loop; expiry arithmetic of the translated life-cycle functions; composition of both) + translated if/elif chains of the pass (cleanup_follows_source, assign_follows_source) + lock-step / scenario / event-log differential"
DESIGN_REF = "§5 C09"


def run(ctx, driver):
    rng = ctx.rng
    rec = propbase.Rec(ctx, ID)
    n = 3000 if ctx.quick else 200000
    cases = [poolb1.gen_case(rng) for _ in range(n)]
    answers = driver.run([poolb1.model_line(c) for c in cases]) if driver else [None] * n
    for c, ans in zip(cases, answers):
        impl = poolb1.run_impl(c)
        rec.evals += 1
        rec.distinct.add(poolb1.model_line(c))
        payload = {"case": c, "impl": {k: v for k, v in impl.items() if k != "stubs"}}
        stubs = impl["stubs"]
        eff_mk = c["maxc"] if c["mk"] is None else min(c["maxc"], c["mk"])
        after = [stubs[i] for i in impl["conns"]]
        # idle bound; an idle connection that a request had been handed before this pass (and has not started on yet) is exempt:
        # it is about to be used (closing it is finding F-C08-a). With no such request - sequential use - this is the plain bound.
        handed_before = {a for _rid, _o, a in c["reqs"] if a is not None}
        if sum(1 for s in after if s.idle and s.cid not in handed_before) > eff_mk:
            rec.fail("idle-above-keepalive-limit", {}, payload)
        rec.dist["idle-bound:strict" if not handed_before else "idle-bound:with-handed-out-connections"] += 1
        # expired / closed never kept, never handed out
        if any(s.expired or s.closed for s in after):
            rec.fail("expired-or-closed-kept", {}, payload)
        before_assigned = {rid: a for rid, _, a in c["reqs"]}
        for rid, cid in impl["reqs"]:
            if cid is not None and before_assigned[rid] is None and cid in [x[0] for x in c["conns"]]:
                s = stubs[cid]
                if s.expired or s.closed or not s.available:
                    rec.fail("handed-out-expired-or-unavailable", {}, payload)
        # close reasons: expired | idle while idle count > limit | evicted for room
        cur = [stubs[x[0]] for x in c["conns"]]
        for cid in impl["closing"]:
            s = stubs[cid]
            if s.expired:
                reason = "expired"
            else:
                reason = None
                if s.idle:
                    # replay the pool's state at the moment this connection was examined: everything examined before it and
                    # dropped is gone
                    pos = [x.cid for x in cur].index(cid) if cid in [x.cid for x in cur] else None
                    idle_now = sum(1 for x in cur if x.idle)
                    if idle_now > eff_mk:
                        reason = "surplus"
                    elif impl["created"] and len(impl["conns"]) == c["maxc"]:
                        reason = "room"      # evicted at the connection limit for a request that needed a new connection
                held = {x for _r, _o, x in c["reqs"] if x is not None}
                if reason is None and not s.idle and cid not in held:
                    reason = "abandoned"     # not an idle connection (outside the property's sentence): neither idle nor held by a request
                if reason is None:
                    rec.fail("closed-without-reason", {"class": "idle-below-limit" if s.idle else "not-idle-but-held"}, payload)
            cur = [x for x in cur if x.cid != cid]
        # closed/expired ones examined earlier are dropped too (keep `cur` roughly in step)
        # reuse: a queued request with an available connection for its origin gets the first such one, nothing is created for it
        if ans:
            d = poolb1.compare(impl, poolb1.parse_model(ans))
            if d:
                rec.disagree("pool-pass", dict(payload, why=d, model=ans))
        if len(rec.samples) < 3 and impl["closing"] and impl["created"]:
            rec.samples.append({"case": c, "impl": payload["impl"], "model": ans})
    run_scenarios(ctx, rec)
    connlife.run(rec, driver, rng, (150 if ctx.quick else 3000) * (4 if ctx.broken else 1), (400 if ctx.quick else 8000) * (4 if ctx.broken else 1), "C09")
    return rec.finish("C09/B1 pool pass + B2 keep-alive histories", "as C04 (random stub pools, one pass each); oracles: idle bound, expired/closed never kept or handed "
                      "out, every closed connection has a reason; distinct = distinct cases")


def gen_scenario(rng):
    cfg = {"max_connections": rng.choice([1, 2, 3]), "max_keepalive_connections": rng.choice([0, 1, 2, None]),
           "keepalive_expiry": rng.choice([0, 1, 5, None]), "h2": rng.random() < 0.3}
    ops = []
    nopen = 0
    for _ in range(rng.randint(3, 12)):
        k = rng.choice(["req", "req", "req", "open", "close", "tick", "srvclose"] + (["req_rst"] if cfg["h2"] else []))
        if k == "req_rst":
            ops.append((k, rng.randint(0, 2)))      # HTTP/2: the server resets this request's stream; the connection stays usable
            continue
        if k in ("req", "open"):
            if k == "open":
                if nopen >= cfg["max_connections"]:
                    k = "req"
                else:
                    nopen += 1
            ops.append((k, rng.randint(0, 2)))
        elif k == "close":
            ops.append(("read_close" if rng.random() < 0.7 else "close", rng.randint(0, 3)))
        elif k == "tick":
            ops.append(("tick", rng.choice([0.5, 1, 2, 6])))
        else:
            ops.append(("srvclose", rng.randint(0, 2)))
    return cfg, ops


def run_scenario(cfg, ops):
    """-> list of per-op records with the facts the oracles need"""
    import scen
    import servers
    import simnet
    w = scen.World(max_connections=cfg["max_connections"], max_keepalive_connections=cfg["max_keepalive_connections"],
                   keepalive_expiry=cfg["keepalive_expiry"], http2=cfg["h2"], scheme="https" if cfg["h2"] else "http")
    eff_mk = cfg["max_connections"] if cfg["max_keepalive_connections"] is None else min(cfg["max_connections"], cfg["max_keepalive_connections"])
    trace = []
    idle_since = {}       # socket id -> time it became idle
    with servers.patched_clock(w.clock):
        with w.pool:
            pending_opens = 0
            for op in ops:
                before = w.snapshot()
                socks_before = {s.id: s for s in w.net.sockets if s.open}
                # which sockets are idle / expired / server-closed right now (harness-side knowledge)
                idle_socks = {}
                for c in w.pool.connections:
                    inner = getattr(c, "_connection", None)
                    if inner is not None and c.is_idle():
                        sock = inner._network_stream.get_extra_info("sim_socket")
                        exp = cfg["keepalive_expiry"] is not None and w.clock.now > idle_since.get(sock.id, w.clock.now) + cfg["keepalive_expiry"]
                        srv = bool(getattr(sock.peer, "server_closed", False))
                        idle_socks[sock.id] = {"host": sock.target[1], "expired": exp, "server_closed": srv, "h2": cfg["h2"]}
                nreq_before = {id(p): len(getattr(p, "requests", None) or getattr(p, "reqs", {})) for p in w.peers}
                kind, detail = w.do(op)
                after = w.snapshot()
                # who served the request?
                served_by = None
                for s in w.net.sockets:
                    p = s.peer
                    n = len(getattr(p, "requests", None) if hasattr(p, "requests") else getattr(p, "reqs", {}))
                    if n > nreq_before.get(id(p), 0):
                        served_by = s.id
                closed_now = [sid for sid in socks_before if not w.net.sockets[sid].open]
                # idle bookkeeping
                for c in w.pool.connections:
                    inner = getattr(c, "_connection", None)
                    if inner is not None:
                        sock = inner._network_stream.get_extra_info("sim_socket")
                        if c.is_idle():
                            idle_since.setdefault(sock.id, w.clock.now)
                        else:
                            idle_since.pop(sock.id, None)
                if served_by is not None and op[0] in ("req",):
                    idle_since[served_by] = w.clock.now
                if op[0] in ("read_close", "close"):
                    for c in w.pool.connections:
                        inner = getattr(c, "_connection", None)
                        if inner is not None and c.is_idle():
                            sock = inner._network_stream.get_extra_info("sim_socket")
                            if sock.id not in idle_socks:
                                idle_since[sock.id] = w.clock.now
                trace.append({"op": list(op), "result": kind, "before": before, "after": after, "idle_socks": idle_socks,
                              "served_by": served_by, "closed_now": closed_now, "eff_mk": eff_mk,
                              "idle_after": sum(1 for c in w.pool.connections if c.is_idle()),
                              "body_ok": (detail.get("body") == b"echo:/" + detail["url"].rsplit("/", 1)[1].encode() + b":") if "body" in detail and "url" in detail else None})
    return trace


def run_scenarios(ctx, rec):
    rng = ctx.rng
    n = 250 if ctx.quick else 20000
    for _ in range(n):
        cfg, ops = gen_scenario(rng)
        trace = run_scenario(cfg, ops)
        rec.evals += 1
        rec.distinct.add(repr((cfg, ops)))
        rec.dist["scenario:" + ("h2" if cfg["h2"] else "h1")] += 1
        payload = {"cfg": cfg, "ops": [list(o) for o in ops]}
        for i, t in enumerate(trace):
            p = dict(payload, step=i, step_record={k: v for k, v in t.items() if k not in ("before",)})
            op = t["op"]
            host = f"o{op[1]}.example" if op[0] in ("req", "open") else None
            if t["idle_after"] > t["eff_mk"]:
                rec.fail("idle-above-keepalive-limit", {"level": "scenario"}, p)
            if op[0] in ("req", "open") and t["result"] == "ok":
                usable = [sid for sid, s in t["idle_socks"].items() if s["host"] == host and not s["expired"] and not (s["server_closed"] and not s["h2"])]
                grew = t["after"]["connects"].get(host, 0) > t["before"]["connects"].get(host, 0)
                if usable and grew:
                    rec.fail("idle-connection-not-reused", {"proto": "h2" if cfg["h2"] else "h1"}, p)
                if t["served_by"] in t["idle_socks"]:
                    s = t["idle_socks"][t["served_by"]]
                    if s["expired"] or (s["server_closed"] and not s["h2"]):
                        rec.fail("expired-or-server-closed-connection-used", {"why": "expired" if s["expired"] else "server-closed"}, p)
                rec.dist["reuse" if t["served_by"] in t["idle_socks"] else "new-connection"] += 1
            if op[0] in ("req", "open") and t["result"].startswith("error") and not cfg["h2"]:
                # a request must not fail because it was put on a dead (expired / server-closed) HTTP/1.1 connection
                dead = [sid for sid, s in t["idle_socks"].items() if s["host"] == host and (s["expired"] or s["server_closed"])]
                if dead and t["result"] != "error:PoolTimeout":
                    rec.fail("expired-or-server-closed-connection-used", {"why": "request-failed"}, p)
            # every idle connection closed during this step needs a reason
            for sid in t["closed_now"]:
                s = t["idle_socks"].get(sid)
                if s is None or op[0] == "poolclose":
                    continue
                created = sum(t["after"]["connects"].values()) > sum(t["before"]["connects"].values())
                full = len(t["before"]["conns"]) >= cfg["max_connections"]
                becomes_idle = op[0] in ("req", "req_rst", "read_close", "close", "open")
                reasons = [s["expired"], s["server_closed"], created and full,
                           len(t["idle_socks"]) + (1 if becomes_idle else 0) > t["eff_mk"]]
                if not any(reasons):
                    rec.fail("closed-without-reason", {"level": "scenario"}, p)
            if t["body_ok"] is False:
                rec.fail("wrong-response", {}, p)
        if len(rec.samples) < 5 and len(ops) > 6:
            rec.samples.append({"cfg": cfg, "ops": [list(o) for o in ops][:8], "connects_at_end": trace[-1]["after"]["connects"]})


replay = propbase.default_replay
