"""C16 — time-outs are applied, and to the right operations."""
from __future__ import annotations

import itertools

import core
import propbase
import simnet
import sweep

ID = "C16"
MODULE = "HttpcoreModel.Props.C16"
THEOREMS = [f"Httpcore.C16.{n}" for n in ("sites", "no_site_without_timeout", "sites_cover", "absent_is_unlimited", "present_is_applied",
                                           "pool_timeout_exact", "pool_timeout_never_without_limit",
                                           "zero_timeout_succeeds_when_assigned_at_once", "assigned_in_time_never_times_out")]
TRUSTED = [
    "Lean 4.33 kernel; axioms per theorem under coverage.theorems",
    "harness/extract.py: the table of every network-operation call site in httpcore/_async/*.py with the time-out key that reaches it "
    "(keyword, positional, kwargs-dict and one interprocedural step); it refuses shapes it does not understand",
    "simulated network recording the time-out argument of every operation; virtual clocks of asyncio/trio for the pool time-out",
]
ASSUMPTIONS = ["the _sync sources are the mechanical translation of the _async sources (C18), so the async table covers both",
               "trio / anyio fail_after fire exactly at their deadline on the (virtual) clock"]
LEVEL_TEXT = ("Lean 4 theorems decided over a table regenerated from the source on every run: every call of a network operation (reached by a "
              "scenario or not) passes the time-out key matching its kind, negotiation steps a configured key, none passes nothing; absent key = "
              "unlimited; the PoolTimeout instant on a virtual clock. The dynamic half records the time-out argument of every simulated operation "
              "for every connection kind x (distinct values / None / 0), and checks the PoolTimeout instant under both orders of deadline vs. "
              "connection freed on asyncio and trio.")
LEVEL_NOTE = ("Trusted: Lean kernel, the extractor (static, all call sites), simulated network, virtual clocks. The model of the pool wait "
              "(waitOutcome) is a specification-level model validated by the timed runs.")
TECHNIQUE = "Lean 4 `decide` over a call-site table regenerated from the source (translator tie) + recorded time-outs on every simulated operation"
DESIGN_REF = "§5 C16"

KEYS = ("connect", "read", "write", "pool")


def run_kind(kind, tcfg, runtime, retries=0, faults=None):
    """one request (plus a reused second one) through `kind` with time-out configuration tcfg -> list of (op, timeout, phase)"""
    import anyio
    interim = kind == "direct-h1-interim"
    w = sweep.build_world("direct-h1" if interim else kind, True, max_connections=2, yield_in_ops=False, retries=retries)
    pool, net = w["pool"], w["net"]
    if faults:
        orig_fault = net.behavior._fault

        def _fault(rec, orig_fault=orig_fault):
            f = faults.get(rec.get("k"))
            if f is not None:
                rec["fault"] = f.__name__
                raise f(f"injected at op {rec['k']}")
            return orig_fault(rec)
        net.behavior._fault = _fault
    if interim:
        import servers

        def policy(server, req, idx):
            server.out.append(b"HTTP/1.1 100 Continue\r\n\r\n")       # its own read; the final response arrives in later reads
            server.out.append(b"HTTP/1.1 103 Early Hints\r\nLink: </x>\r\n\r\n")
            return servers.default_policy(server, req, idx)
        net.behavior.peer_factory = lambda rec: servers.H1Server(policy=policy)
    ext = {"timeout": dict(tcfg)}
    out = {}

    async def main():
        try:
            async def pieces():      # no Content-Length: HTTP/1.1 sends it chunked, the terminating chunk is a write of its own
                yield b"x"
                yield b"y"
            for tok in ("t1", "t2"):
                async with pool.stream("POST", w["url"](0, tok), content=b"xy" if tok == "t1" else pieces(), extensions=ext) as resp:
                    out["status"] = resp.status
                    async for _ in resp.aiter_stream():
                        pass
            out["outcome"] = "ok"
        except BaseException as e:  # noqa
            out["outcome"] = "error:" + simnet.exc_name(e) + ":" + repr(e)[:80]
        await pool.aclose()

    anyio.run(main, backend=runtime)
    ops = []
    for r in net.log:
        if r["op"] in simnet.NET_OPS:
            sock = net.sockets[r["sock"]] if "sock" in r and r["sock"] is not None else None
            ops.append((r["op"], r.get("timeout")))
    return ops, out


def expected_key(op):
    return {"connect_tcp": "connect", "connect_unix_socket": "connect", "start_tls": "connect", "read": "read", "write": "write"}[op]


def run(ctx, driver):
    rng = ctx.rng
    rec = propbase.Rec(ctx, ID)
    vals = [None, 0, 1.5, 2.5, 3.5, 4.5]
    cfgs = [{"connect": 1.5, "read": 2.5, "write": 3.5, "pool": 4.5}, {}, {"connect": 0, "read": 0, "write": 0, "pool": 0},
            {"read": 2.5}, {"connect": 1.5}, {"write": 3.5}, {"connect": None, "read": 2.5, "write": None}]
    for _ in range(4 if ctx.quick else 400):
        cfgs.append({k: v for k, v in ((k, rng.choice(vals)) for k in KEYS) if rng.random() < 0.8})
    for kind in sweep.KINDS + ["direct-h1-interim", "tunnel-ws"]:
        negotiation_kind = kind.startswith("socks5")
        for tcfg in cfgs:
            for rt in (("asyncio",) if ctx.quick else ("asyncio", "trio")):
                ops, out = run_kind(kind, tcfg, rt)
                rec.evals += 1
                rec.distinct.add((kind, repr(sorted(tcfg.items(), key=str))))
                rec.dist["kind:" + kind] += 1
                payload = {"kind": kind, "timeouts": {k: v for k, v in tcfg.items()}, "runtime": rt, "ops": [[o, t] for o, t in ops][:40],
                           "outcome": out.get("outcome")}
                if out.get("outcome") != "ok":
                    rec.fail("run-failed", {"kind": kind}, payload)
                    continue
                configured = [v for v in tcfg.values() if v is not None]
                # which operations belong to a SOCKS negotiation: the reads/writes between connect_tcp and the next start_tls / request
                in_neg = False
                neg_budget = 0
                for i, (op, t) in enumerate(ops):
                    want = tcfg.get(expected_key(op))
                    if negotiation_kind and op == "connect_tcp":
                        neg_budget = 4 if kind == "socks5" else 6     # method offer/reply (+ auth) + connect/reply
                        ok = (t == want)
                    elif negotiation_kind and neg_budget > 0 and op in ("read", "write"):
                        neg_budget -= 1
                        # a negotiation step uses the value of one of the three keys (an absent key means unlimited)
                        ok = t in [tcfg.get("connect"), tcfg.get("read"), tcfg.get("write")]
                        if not ok:
                            rec.fail("negotiation-step-without-timeout", {"kind": "socks5"}, dict(payload, op_index=i))
                            break
                        continue
                    else:
                        ok = (t == want)
                    if not ok:
                        rec.fail("wrong-timeout", {"kind": kind, "op": op}, dict(payload, op_index=i, got=t, want=want))
                        break
                if len(rec.samples) < 3 and kind in ("tunnel-h1", "socks5-auth-tls") and tcfg.get("connect") == 1.5:
                    rec.samples.append(payload)
    # connection attempts that are repeated (retries > 0, the first one or two fail): every attempt carries the request's connect time-out
    import httpcore
    for kind in ("direct-h1", "direct-tls-h1", "direct-h2"):
        for tcfg in cfgs[:7]:
            for nfail in (1, 2):
                for what in (httpcore.ConnectError, httpcore.ConnectTimeout):
                    ops, out = run_kind(kind, tcfg, "asyncio", retries=2, faults={k: what for k in range(nfail)})
                    rec.evals += 1
                    rec.distinct.add(("retry", kind, repr(sorted(tcfg.items(), key=str)), nfail, what.__name__))
                    rec.dist["retry-kind:" + kind] += 1
                    payload = {"kind": kind, "timeouts": dict(tcfg), "failed_attempts": nfail, "fault": what.__name__, "ops": [[o, t] for o, t in ops][:40],
                               "outcome": out.get("outcome")}
                    if out.get("outcome") != "ok":
                        rec.fail("run-failed", {"kind": kind, "how": "retry"}, payload)
                        continue
                    for i, (op, t) in enumerate(ops):
                        if op == "sleep":
                            continue
                        if t != tcfg.get(expected_key(op)):
                            rec.fail("wrong-timeout", {"kind": kind, "op": op, "how": "retry"}, dict(payload, op_index=i, got=t, want=tcfg.get(expected_key(op))))
                            break
    pool_timeout_runs(ctx, rec)
    return rec.finish("C16/B2 recorded time-outs + pool time-out instant",
                      "every connection kind (direct h1/TLS/h2, forward, tunnel h1/h2, SOCKS5 +-auth+TLS) x time-out configurations (all distinct, "
                      "empty, all 0, single keys, None values, random subsets) x two requests (fresh + reused connection): the time-out argument of "
                      "every simulated operation is compared with the configured value of the right key; PoolTimeout instant on virtual clocks "
                      "with the deadline before / at / after the moment a connection is freed. distinct = distinct (kind, configuration) + timed cases")


def pool_timeout_runs(ctx, rec):
    """PoolTimeout fires at t0+T exactly unless a connection was assigned before; T=0 succeeds when no waiting is needed."""
    import concur

    async def schedule(ex, spawn, settle):
        T, free_at = ex.cfg["T"], ex.cfg["free_at"]
        a = concur.Caller(0, 0, hold=True)
        ex.callers.append(a)
        spawn(a)
        await settle()
        for _ in range(12):                    # let A get its response head and hold it
            ch = ex.choices()
            if not ch or a.state == "holding":
                break
            ch[0][1].event.set()
            await settle()
        b = concur.Caller(1, 1, pool_timeout=T)
        ex.callers.append(b)
        t0 = ex.now()
        spawn(b)
        await settle()
        ex.result = {"b_at_0": b.outcome}
        t = 0.0
        events = sorted(set([free_at, T, max(T - 0.25, 0), T + 0.25, free_at + 0.25]))
        timeline = []
        for nxt in events:
            if nxt > t:
                ex.tick(nxt - t)
                t = nxt
                await settle()
            if abs(t - free_at) < 1e-9 and a.state == "holding":
                a.release.set()
                await settle()
                for _ in range(30):
                    ch = ex.choices()
                    if not ch:
                        break
                    ch[0][1].event.set()
                    await settle()
            timeline.append((t, b.outcome, b.state))
        ex.result["timeline"] = timeline
        ex.result["t0"] = t0
        ex.net.gated = False
        for c in ex.callers:
            if c.state == "holding":
                c.release.set()
        await settle()

    cases = [(1.0, 0.5), (1.0, 2.0), (1.0, 1.0), (0.0, 1.0), (2.0, 0.25), (0.5, 0.5)]
    for T, free_at in cases:
        for rt in ("asyncio", "trio"):
            import random
            ex = concur.Explorer(rt, {"max_connections": 1, "origins": 2, "callers": 2, "T": T, "free_at": free_at, "http2": False}, random.Random(1))
            concur.run_schedule(ex, schedule)
            rec.evals += 1
            rec.distinct.add(("pool-timeout", T, free_at, rt))
            tl = ex.result["timeline"]
            payload = {"T": T, "free_at": free_at, "runtime": rt, "timeline": [[t, o, s] for t, o, s in tl]}
            # expected: if a connection is freed strictly before the deadline, B proceeds and never times out; otherwise PoolTimeout from t >= T on
            for t, o, s in tl:
                if free_at < T:
                    if o == "error:PoolTimeout":
                        rec.fail("pool-timeout-although-served-in-time", {}, payload)
                else:
                    if t < T and o == "error:PoolTimeout":
                        rec.fail("pool-timeout-too-early", {}, payload)
                    if t >= T + 0.2 and o != "error:PoolTimeout" and free_at > T:
                        rec.fail("pool-timeout-too-late", {}, payload)
            rec.dist["pool-timeout-case"] += 1
    # a request that is re-queued (ConnectionNotAvailable) keeps its full pool time-out: three waiters behind one keep-alive connection
    async def requeue_schedule(ex, spawn, settle):
        async def drain():
            for _ in range(60):
                await settle()
                ch = ex.choices()
                if not ch:
                    break
                ch[0][1].event.set()
            await settle()
        T = ex.cfg["T"]
        cs = [concur.Caller(i, 0, hold=True, pool_timeout=(None if i == 0 else T)) for i in range(4)]
        ex.callers.extend(cs)
        spawn(cs[0])
        await drain()
        for c in cs[1:]:
            spawn(c)
        await settle()
        t = 0.0
        timeline = []
        for when in ex.cfg["release_at"]:
            ex.tick(when - t)
            t = when
            await settle()
            holders = [c for c in cs if c.state == "holding"]
            if holders:
                holders[0].release.set()
            await drain()
            timeline.append((t, [(c.idx, c.state, c.outcome) for c in cs]))
        ex.result = {"timeline": timeline}
        ex.net.gated = False
        for c in cs:
            if c.state == "holding":
                c.release.set()
        await settle()

    for rt in ("asyncio", "trio"):
        import random
        ex = concur.Explorer(rt, {"max_connections": 1, "origins": 1, "callers": 4, "T": 3.0, "release_at": [1.0, 2.0, 2.5, 2.75],
                                  "http2": False, "max_keepalive": None}, random.Random(2))
        concur.run_schedule(ex, requeue_schedule)
        rec.evals += 1
        rec.distinct.add(("pool-timeout-requeue", rt))
        outs = {c.idx: c.outcome for c in ex.callers}
        if any(o == "error:PoolTimeout" for o in outs.values()):
            rec.fail("pool-timeout-too-early", {"case": "re-queued"}, {"runtime": rt, "outcomes": outs, "timeline": [[t, x] for t, x in ex.result["timeline"]]})
        rec.dist["pool-timeout-requeue:" + "/".join(str(outs[i]) for i in sorted(outs))] += 1
    # zero pool time-out succeeds when no waiting is needed
    for rt in ("asyncio", "trio"):
        ops, out = run_kind("direct-h1", {"pool": 0}, rt)
        rec.evals += 1
        if out.get("outcome") != "ok":
            rec.fail("zero-pool-timeout-fails-without-waiting", {}, {"runtime": rt, "outcome": out.get("outcome")})


replay = propbase.default_replay
