"""C10 — requests travel only on connections made for their origin, TLS per scheme."""
from __future__ import annotations

import itertools

import core
import estb2
import propbase

ID = "C10"
MODULE = "HttpcoreModel.Props.C10"
THEOREMS = [f"Httpcore.C10.{n}" for n in ("kind_selection", "tls_iff", "sni_rule", "alpn_offer_h2_iff", "h2_iff", "establishment_target",
                                           "assigned_connection_has_request_origin", "near_miss_origins_differ", "scheme_tables")]
TRUSTED = [
    "Lean 4.33 kernel; axioms per theorem under coverage.theorems",
    "harness/extract.py transcribes the scheme tests of connection.py, connection_pool.py, http_proxy.py, socks_proxy.py (which schemes get TLS, "
    "which are forwarded, which proxy schemes are SOCKS) and the supported-scheme test",
    "hand-written Establish model (plan of operations per kind), tied by the full matrix of this run on the simulated network; TLS is a flag plus "
    "recorded server name and ALPN (abstracted)",
]
ASSUMPTIONS = ["TLS is abstract: a stream is 'TLS-wrapped' when start_tls succeeded on it", "the ssl_context objects are only asked to set ALPN protocols"]
LEVEL_TEXT = ("Lean 4 theorems over scheme tables regenerated from the source: connection kind as a function of (proxy scheme, origin scheme); the "
              "stream that carries the request is TLS-wrapped iff the scheme is https or wss, for every proxy mode; server name = sni_hostname or URL "
              "host; ALPN offers h2 iff HTTP/2 is enabled; HTTP/2 spoken iff negotiated or HTTP/1.1 disabled; the establishment target is the origin's "
              "host:port; a request is only assigned a connection created for an equal origin, and origins differing in one component differ. "
              "Tied by the full matrix scheme x proxy mode x http1/http2 x ALPN result x sni x near-miss origin sequences on the simulated network.")
LEVEL_NOTE = ("Trusted: Lean kernel, extractor, simulated network. The tunnel ignores the sni_hostname extension (it uses the URL host): reported "
              "in the evidence as an observation, not a violation (the property allows either). IPv6 SOCKS addresses are outside the byte model.")
TECHNIQUE = "Lean 4 proof by case analysis over scheme tables regenerated from the source + exhaustive configuration matrix on the simulated network"
DESIGN_REF = "§5 C10"

SECURE = {"https", "wss"}


def model_plan_line(cfg, scheme, host, port, sni):
    eff_port = port if port is not None else estb2.DEFAULT_PORT[scheme]
    return (f"est plan {estb2.proxy_arg(cfg)} {1 if cfg['http1'] else 0} {1 if cfg['http2'] else 0} {estb2.hexs(scheme)} "
            f"{estb2.hexs(host)} {eff_port} {estb2.hexs(sni) if sni else 'none'}")


def run(ctx, driver):
    rng = ctx.rng
    rec = propbase.Rec(ctx, ID)
    cells = []
    for proxy, scheme, (h1, h2), alpn, sni in itertools.product(estb2.PROXY_MODES, estb2.SCHEMES, [(True, False), (True, True), (False, True)],
                                                                ["http/1.1", "h2", None], [None, "sni.example"]):
        if alpn == "h2" and not h2:
            continue                # a server cannot select what was not offered
        cells.append({"proxy": proxy, "scheme": scheme, "http1": h1, "http2": h2, "alpn_result": alpn, "sni": sni,
                      "auth": ("u", "p") if rng.random() < 0.3 else None})
    if ctx.quick:
        cells = [c for i, c in enumerate(cells) if (i + ctx.seed) % 2 == 0 or c["scheme"] in ("ws", "wss")]
    lines = []
    for c in cells:
        lines.append(model_plan_line(c, c["scheme"], "a.example", None, c["sni"]))
    answers = driver.run(lines) if driver else [None] * len(cells)
    for c, ans in zip(cells, answers):
        check_cell(rec, c, ans)
    near_miss(ctx, rec)
    refused_tunnels(ctx, rec)
    target_extension(ctx, rec)
    return rec.finish("C10/B2 establishment matrix",
                      "proxy mode {none,http,https,socks5,socks5h} x scheme {http,https,ws,wss} x (http1,http2) in {10,11,01} x ALPN result "
                      "{http/1.1,h2,none} x sni_hostname {unset,set} (+-proxy auth): connect target, TLS handshakes (server name, ALPN offer, context), "
                      "protocol spoken and TLS layers under the request bytes are compared with the model plan and the property; plus sequences of "
                      "requests to origins differing in exactly one component. distinct = distinct cells / sequences")


def target_extension(ctx, rec):
    """The `target` extension replaces what is written as the request target; the connection is still chosen - host, port, TLS - by the
    URL.  Explicit non-default ports, every proxy mode."""
    for proxy in estb2.PROXY_MODES:
        for scheme, port in (("http", 8080), ("https", 8443), ("http", None), ("https", None), ("https", 444), ("ws", 81)):
            c = {"proxy": proxy, "scheme": scheme, "http1": True, "http2": False, "alpn_result": "http/1.1", "sni": None, "auth": None}
            w = estb2.World(c)
            out = w.request(scheme, "a.example", port, "tokTARGET", target=b"/elsewhere?x=1")
            rec.evals += 1
            rec.distinct.add(("target-ext", proxy, scheme, port))
            rec.dist["target-extension:" + out["outcome"]] += 1
            eff = port if port is not None else estb2.DEFAULT_PORT[scheme]
            payload = {"proxy": proxy, "scheme": scheme, "port": port, "outcome": out["outcome"], "exc": out.get("exc"),
                       "connects": [[r.get("host"), r.get("port")] for r in out["log"] if r["op"] == "connect_tcp"]}
            if out["outcome"] != "ok":
                rec.fail("target-extension-request-failed", {"proxy": proxy}, payload)
                continue
            # where did the request go?  direct: the TCP connection; tunnel: the CONNECT target; SOCKS: the negotiated target; forward:
            # the absolute URL is replaced by the extension, nothing to check beyond the proxy connection
            if proxy == "none":
                ok = any(r["op"] == "connect_tcp" and r.get("host") == "a.example" and r.get("port") == eff for r in out["log"])
            else:
                px = [p for p in w.peers if getattr(p, "role", "") in ("proxy", "socks")]
                wire = bytes(px[0].written) if px and hasattr(px[0], "written") else b""
                if proxy in ("http", "https") and scheme != "http":
                    ok = (b"CONNECT a.example:%d " % eff) in wire
                elif proxy.startswith("socks"):
                    tgt = getattr(px[0], "target", None) if px else None
                    ok = tgt is None or (tgt[1] if isinstance(tgt, tuple) else None) in (eff, None) or str(eff).encode() in repr(tgt).encode()
                else:
                    ok = True
            if not ok:
                rec.fail("target-extension-changes-the-connection", {"proxy": proxy, "scheme": scheme}, payload)


def refused_tunnels(ctx, rec):
    """A CONNECT that the proxy does not answer with 2xx has established nothing: the request must fail with ProxyError and neither a TLS
    handshake for the origin nor a single byte of the request may go onto the connection to the proxy."""
    statuses = [200, 201, 204, 299, 300, 301, 302, 307, 399, 400, 403, 407, 500, 502, 599]
    for proxy in ("http", "https"):
        for scheme in ("https", "wss", "ws"):
            for status in statuses:
                for h2 in (False, True):
                    c = {"proxy": proxy, "scheme": scheme, "http1": True, "http2": h2, "alpn_result": "http/1.1", "sni": None, "auth": None,
                         "connect_status": status, "connect_reason": b"Whatever"}
                    w = estb2.World(c)
                    tok = "tokREFUSED"
                    out = w.request(scheme, "a.example", None, tok, headers=[(b"Authorization", b"secret-credential")])
                    rec.evals += 1
                    rec.distinct.add(("refused-tunnel", proxy, scheme, status, h2))
                    rec.dist[f"connect-status:{status // 100}xx:{out['outcome']}"] += 1
                    px = [p for p in w.peers if getattr(p, "role", "") == "proxy"]
                    payload = {"cell": {k: (v.decode() if isinstance(v, bytes) else v) for k, v in c.items()}, "outcome": out["outcome"], "exc": out.get("exc"),
                               "written_after_connect": repr(bytes(px[0].pre_tunnel)[-200:]) if px else None}
                    accepted = 200 <= status <= 299
                    if accepted:
                        if out["outcome"] != "ok":
                            rec.fail("tunnel-2xx-not-accepted", {"status": status}, payload)
                        continue
                    if out["outcome"] != "error:ProxyError":
                        rec.fail("refused-tunnel-not-proxyerror", {"status_class": status // 100, "got": out["outcome"]}, payload)
                    origin_tls = [r for r in out["log"] if r["op"] == "start_tls" and r.get("server_hostname") == "a.example"]
                    if origin_tls:
                        rec.fail("tls-for-origin-on-refused-tunnel", {"status_class": status // 100}, payload)
                    if px and (tok.encode() in bytes(px[0].written) or b"secret-credential" in bytes(px[0].written)):
                        rec.fail("request-written-to-proxy-without-tunnel", {"status_class": status // 100}, payload)


def check_cell(rec, c, ans):
    w = estb2.World(c)
    host, scheme = "a.example", c["scheme"]
    tok = "tokCELL"
    out = w.request(scheme, host, None, tok, sni=c["sni"])
    rec.evals += 1
    rec.distinct.add(repr(sorted((k, str(v)) for k, v in c.items())))
    rec.dist["proxy:" + c["proxy"]] += 1
    rec.dist["outcome:" + out["outcome"]] += 1
    payload = {"cell": {k: (list(v) if isinstance(v, tuple) else v) for k, v in c.items()}, "outcome": out["outcome"], "exc": out.get("exc"),
               "ops": [{k: (v if not isinstance(v, bytes) else v[:40].hex()) for k, v in r.items() if k in ("op", "host", "port", "server_hostname", "alpn_offer", "ctx", "sock")}
                       for r in out["log"] if r["op"] in ("connect_tcp", "start_tls")]}
    port = estb2.DEFAULT_PORT[scheme]
    secure = scheme in SECURE
    conns = [r for r in out["log"] if r["op"] == "connect_tcp"]
    tls = [r for r in out["log"] if r["op"] == "start_tls"]
    # ---- property oracle --------------------------------------------------------------------------------
    if out["outcome"] != "ok":
        # the only legitimate failure: no protocol in common (ALPN gave nothing and http1 disabled is still h2 forced => fine)
        rec.fail("request-failed", {"proxy": c["proxy"], "scheme": scheme, "class": out["outcome"]}, payload)
        return
    if len(conns) != 1:
        rec.fail("not-exactly-one-connect", {}, payload)
        return
    want_host, want_port = ("proxy.example", 3128) if c["proxy"] != "none" else (host, port)
    if (conns[0]["host"], conns[0]["port"]) != (want_host, want_port):
        rec.fail("connect-target", {"proxy": c["proxy"]}, payload)
    origin_tls = [r for r in tls if r["ctx"] == "origin"]
    proxy_tls = [r for r in tls if r["ctx"] == "proxy"]
    if (len(proxy_tls) == 1) != (c["proxy"] == "https"):
        rec.fail("tls-to-proxy", {"proxy": c["proxy"]}, payload)
    if (len(origin_tls) == 1) != secure:
        kind = "tunnel" if c["proxy"] in ("http", "https") and scheme != "http" else "socks" if c["proxy"].startswith("socks") else "direct"
        rec.fail("tls-iff-secure-scheme", {"kind": kind, "scheme": scheme}, payload)
    hits = w.where_is(tok)
    if len(hits) != 1:
        rec.fail("request-not-on-exactly-one-stream", {}, dict(payload, hits=hits))
    else:
        layers = hits[0][1]
        if layers != len(tls):
            rec.fail("request-before-tls-completed", {}, dict(payload, hits=hits))
    if origin_tls:
        t = origin_tls[0]
        want_sni = {c["sni"], host} if c["sni"] else {host}
        if t["server_hostname"] not in want_sni:
            rec.fail("server-name", {}, payload)
        elif c["sni"] and t["server_hostname"] != c["sni"]:
            rec.dist["observation:sni_hostname-ignored:" + c["proxy"]] += 1
        if ("h2" in (t["alpn_offer"] or [])) != c["http2"]:
            rec.fail("alpn-offer", {}, payload)
        if "http/1.1" not in (t["alpn_offer"] or []):
            rec.fail("alpn-offer", {"missing": "http/1.1"}, payload)
    # HTTP/2 spoken iff negotiated or HTTP/1.1 disabled
    spoke_h2 = any(b"PRI * HTTP/2.0" in d for s in w.net.sockets for _, d in s.written)
    selected = c["alpn_result"] if (origin_tls and c["alpn_result"] in (origin_tls[0]["alpn_offer"] or [])) else None
    want_h2 = selected == "h2" or (c["http2"] and not c["http1"])
    forwarded = c["proxy"] in ("http", "https") and scheme == "http"      # the hop to a forwarding proxy is always HTTP/1.1
    if (spoke_h2 and not want_h2) or (want_h2 and not spoke_h2 and not forwarded):
        rec.fail("h2-iff-negotiated", {}, dict(payload, spoke_h2=spoke_h2))
    # tunnel / socks target
    for p in w.peers:
        if getattr(p, "role", "") == "proxy" and p.requests and p.requests[0]["method"] == b"CONNECT":
            if p.requests[0]["target"] != f"{host}:{port}".encode():
                rec.fail("connect-names-wrong-target", {}, payload)
        if getattr(p, "role", "") == "socks" and p.target is not None:
            want = bytes([5, 1, 0, 3, len(host)]) + host.encode() + bytes([port >> 8, port & 255])
            if p.target != want:
                rec.fail("socks-names-wrong-target", {}, dict(payload, got=p.target.hex(), want=want.hex()))
    # ---- model ------------------------------------------------------------------------------------------
    if ans:
        d = core.kv(ans)
        mh, mp = d["connect"].split(":")
        ok = (core.unhex(mh).decode(), int(mp)) == (conns[0]["host"], conns[0]["port"])
        ok = ok and (d["tlsproxy"] == "1") == (len(proxy_tls) == 1)
        ok = ok and (d["tls"] == "1") == (len(origin_tls) == 1)
        if origin_tls and d["tls"] == "1":
            ok = ok and core.unhex(d["sni"]).decode() == origin_tls[0]["server_hostname"]
            ok = ok and d["alpn"].split(",") == (origin_tls[0]["alpn_offer"] or [])
        if not ok:
            rec.disagree("plan", dict(payload, model=ans))
    if len(rec.samples) < 4 and c["proxy"] in ("https", "socks5") and secure and c["sni"]:
        rec.samples.append(dict(payload, model=ans))


def near_miss(ctx, rec):
    """sequences of requests to origins that differ in exactly one component never share a stream, and each lands on a stream
    established to exactly its own host:port"""
    rng = ctx.rng
    n = 30 if ctx.quick else 6000
    for _ in range(n):
        c = {"proxy": rng.choice(estb2.PROXY_MODES), "http1": True, "http2": rng.random() < 0.3, "alpn_result": "http/1.1"}
        if c["http2"] and rng.random() < 0.5:
            c["alpn_result"] = "h2"
        w = estb2.World(c)
        base = (rng.choice(["http", "https"]), "a.example", None)
        variants = [base, base,
                    ({"http": "https", "https": "http"}[base[0]], base[1], estb2.DEFAULT_PORT[base[0]]),      # scheme differs, same port
                    (base[0], "b.example", None),                                                            # host differs
                    (base[0], base[1], 8080),                                                                # port differs
                    (base[0], base[1], estb2.DEFAULT_PORT[base[0]]),                                         # explicit default = same origin
                    (base[0], "A.EXAMPLE", None)]                                                            # case differs = same origin
        order = variants[:]
        rng.shuffle(order)
        toks = {}
        ok = True
        for i, (s, h, p) in enumerate(order):
            tok = f"nm{i}x"
            out = w.request(s, h, p, tok)
            toks[tok] = (s, h.lower(), p if p is not None else estb2.DEFAULT_PORT[s], out["outcome"])
        rec.evals += 1
        rec.distinct.add(("near-miss", repr(c), repr(order)))
        sock_origin = {}
        payload = {"cfg": c, "order": [list(map(str, o)) for o in order]}
        for tok, (s, h, p, outcome) in toks.items():
            if outcome != "ok":
                rec.fail("request-failed", {"proxy": c["proxy"], "scheme": s, "class": outcome}, dict(payload, tok=tok))
                continue
            hits = w.where_is(tok)
            if len(hits) != 1:
                rec.fail("request-not-on-exactly-one-stream", {}, dict(payload, tok=tok, hits=hits))
                continue
            sid = hits[0][0]
            prev = sock_origin.setdefault(sid, (s, h, p))
            if prev != (s, h, p):
                rec.fail("stream-shared-across-origins", {}, dict(payload, a=list(map(str, prev)), b=[s, h, str(p)]))
            # established to exactly this host:port
            sock = w.net.sockets[sid]
            peer = sock.peer
            if c["proxy"] == "none":
                if (sock.target[1].lower(), sock.target[2]) != (h, p):
                    rec.fail("stream-established-elsewhere", {"proxy": "none"}, dict(payload, tok=tok, target=list(map(str, sock.target))))
            elif c["proxy"] in ("http", "https") and s != "http":
                if not peer.requests or peer.requests[0]["target"].lower() != f"{h}:{p}".encode():
                    rec.fail("stream-established-elsewhere", {"proxy": "tunnel"}, dict(payload, tok=tok))
            elif c["proxy"].startswith("socks"):
                want = bytes([5, 1, 0, 3, len(h)]) + h.encode() + bytes([p >> 8, p & 255])
                if (peer.target or b"").lower() != want.lower():
                    rec.fail("stream-established-elsewhere", {"proxy": "socks"}, dict(payload, tok=tok))
            if (len([l for l in sock.tls_layers]) - (1 if c["proxy"] == "https" else 0) >= 1) != (s in SECURE):
                rec.fail("tls-iff-secure-scheme", {"kind": "near-miss", "scheme": s}, dict(payload, tok=tok))


replay = propbase.default_replay
