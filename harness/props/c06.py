"""C06 — every network stream that is opened is eventually closed."""
from __future__ import annotations

import core
import propbase
import sweeprun

ID = "C06"
MODULE = "HttpcoreModel.Props.C06"
THEOREMS = [f"Httpcore.C06.{n}" for n in sweeprun.C06_THEOREMS]
TRUSTED = [
    "Lean 4.33 kernel; axioms per theorem under coverage.theorems",
    "hand-written transition-system model Sys (shared with C05), tied to the code by the fault/cancellation sweeps and the concurrent explorer of this "
    "run with the simulated network's stream ledger as the observation",
    "the simulated start_tls follows the real back ends' contract: the underlying stream is closed when the handshake fails with an exception, not when it is cancelled",
    "Sys is tied to the real pool step by step (harness/sysconf.py): after every scheduling step of explored runs the real pool is projected onto Sys's state space and the Lean driver searches Sys.step breadth-first for a model run between consecutive observations (this run)",
]
ASSUMPTIONS = ["no responses are outstanding when the pool is closed", "trace call-backs do not suspend"]
LEVEL_TEXT = ("Lean 4 theorems about the transition-system model: in every reachable state (every interleaving, fault position, scope-cancellation point) "
              "each open stream is owned by a pooled connection or by a connection a live caller is closing; with no caller running, closing the pool "
              "leaves no stream open. Tied to the code by the same exhaustive sweeps as C05 over all connection kinds, with the stream ledger checked "
              "after every run and after pool close.")
LEVEL_NOTE = ("Partial: proved for pool + direct HTTP/1.1/TLS establishment with scope cancellation; HTTP/2, CONNECT-tunnel and SOCKS establishment and "
              "native cancellation are covered by the sweeps (oracle on the ledger) only. Real back ends' own handling of sockets during handshakes "
              "is outside the model (their contract is an assumption).")
TECHNIQUE = "Lean 4 proof (inductive invariant: every open stream has an owner) + exhaustive fault/cancellation sweeps with a stream ledger"
DESIGN_REF = "§5 C06"


def run(ctx, driver):
    rec = propbase.Rec(ctx, ID)
    import sysconf
    sysconf.run_conformance(ctx, rec, 60, 2000)
    sweeprun.run_sweeps(ctx, rec, ID, ["C06:"])
    import concur
    concur.explore(ctx, rec, ID, {"p_fault": 0.12, "p_cancel": 0.15, "gate_close": True}, 100, 1500, ["C06:"])
    concur.explore(ctx, rec, ID, {"p_fault": 0.05, "p_cancel": 0.0, "srvclose": True, "max_connections": 2, "p_hold": 0.1, "callers": 5,
                                  "max_keepalive": None}, 80, 1000, ["C06:"])
    concur.explore(ctx, rec, ID, {"p_fault": 0.1, "p_cancel": 0.05, "http2": True, "max_connections": 1, "p_conn_close": 0.0, "callers": 4},
                   80, 1000, ["C06:"])
    return rec.finish("C06 sweeps + explorer", sweeprun.RULE)


replay = propbase.default_replay
