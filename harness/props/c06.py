"""C06 — every network stream that is opened is eventually closed."""
from __future__ import annotations

import core
import propbase
import sweeprun

ID = "C06"
MODULE = "HttpcoreModel.Props.C06"
THEOREMS = [f"Httpcore.C06.{n}" for n in sweeprun.C06_THEOREMS] + ["Httpcore.LifeProps.h1_out_of_service_means_stream_closed",
                                                                       "Httpcore.LifeProps.h1_unfinished_exchange_closes_stream"]
TRUSTED = [
    "Lean 4.33 kernel; axioms per theorem under coverage.theorems",
    "hand-written transition-system model Sys (shared with C05), tied to the code by the fault/cancellation sweeps and the concurrent explorer of this "
    "run with the simulated network's stream ledger as the observation",
    "the simulated start_tls follows the real back ends' contract: the underlying stream is closed when the handshake fails with an exception, not when it is cancelled",
    "Sys is tied to the real pool step by step (harness/sysconf.py): after every scheduling step of explored runs the real pool is projected onto Sys's state space and the Lean driver searches Sys.step breadth-first for a model run between consecutive observations (this run)",
]
TRUSTED.append("the two life-cycle theorems are about the statement-level translation of http11.py's _response_closed / aclose / gate (Generated.lean, regenerated "
               "by this run: Tie A), lock-stepped with the implementation by the connection life-cycle event log (C01/C09 runs) and by this run's hand-over scenarios on the stream ledger")
ASSUMPTIONS = ["no responses are outstanding when the pool is closed", "trace call-backs do not suspend"]
LEVEL_TEXT = ("Lean 4 theorems about the transition-system model: in every reachable state (every interleaving, fault position, scope-cancellation point) "
              "each open stream is owned by a pooled connection or by a connection a live caller is closing; with no caller running, closing the pool "
              "leaves no stream open. Tied to the code by the same exhaustive sweeps as C05 over all connection kinds, with the stream ledger checked "
              "after every run and after pool close.")
LEVEL_NOTE = ("Partial: proved for pool + direct HTTP/1.1/TLS establishment with scope cancellation; HTTP/2, CONNECT-tunnel and SOCKS establishment and "
              "native cancellation are covered by the sweeps (oracle on the ledger) only. Real back ends' own handling of sockets during handshakes "
              "is outside the model (their contract is an assumption).")
TECHNIQUE = "Lean 4 proof (inductive invariant: every open stream has an owner) + exhaustive fault/cancellation sweeps with a stream ledger"
DESIGN_REF = "§5 C06"


def run_handover(kind, leading, after, close_stream, reads):
    """A 101 / CONNECT-2xx exchange whose stream is handed to the caller; then `after` ordinary requests; then the pool is closed.
    The documented pattern closes the response only (close_stream=False).  -> (streams still open after the pool was closed, outcome)"""
    import httpcore
    import h1gen
    import simnet
    head = (b"HTTP/1.1 101 Switching Protocols\r\nUpgrade: websocket\r\nConnection: upgrade\r\n\r\n" if kind == "101"
            else b"HTTP/1.1 200 Connection established\r\n\r\n")
    peers = []

    def factory(rec):
        first = not peers
        peers.append(h1gen.OpenPeer([head + leading] if first else [b"HTTP/1.1 200 OK\r\nContent-Length: 2\r\n\r\nok"] * 4, eof=False))
        return peers[-1]
    net = simnet.Net(simnet.Behavior(peer_factory=factory))
    outcome = "complete"
    try:
        with propbase.time_limit(5.0):
            pool = httpcore.ConnectionPool(network_backend=simnet.SimBackend(net))
            if kind == "101":
                method, url, headers = "GET", "http://example.com/ws", [("Connection", "upgrade"), ("Upgrade", "websocket")]
            else:
                method, url, headers = "CONNECT", httpcore.URL(scheme=b"http", host=b"example.com", port=80, target=b"target.example:443"), []
            with pool.stream(method, url, headers=headers) as resp:
                ns = resp.extensions["network_stream"]
                got = 0
                for _ in range(reads):
                    if got >= len(leading):
                        break
                    got += len(ns.read(max_bytes=3, timeout=5))
                if close_stream:
                    ns.close()
            for i in range(after):
                pool.request("GET", "http://example.com/%d" % i)
            pool.close()
    except propbase.HangDetected:
        outcome = "hang"
    except BaseException as e:  # noqa
        outcome = "error:" + type(e).__name__ + ":" + repr(e)[:80]
    return net.open_sockets(), outcome


def handover_scenarios(ctx, rec):
    for kind in ("101", "connect"):
        for leading in (b"", b"abcdefg"):
            for after in (0, 1, 2):
                for close_stream in (False, True):
                    for reads in (0, 1, 9):
                        still, outcome = run_handover(kind, leading, after, close_stream, reads)
                        rec.evals += 1
                        rec.distinct.add(("handover", kind, leading, after, close_stream, reads))
                        rec.dist["handover:" + kind] += 1
                        rec.dist["handover-outcome:" + outcome.split(":")[0]] += 1
                        payload = {"scenario": "handover", "kind": kind, "leading": leading.hex(), "requests_after": after,
                                   "caller_closes_network_stream": close_stream, "reads": reads, "outcome": outcome, "open_after_pool_close": still}
                        if outcome != "complete":
                            rec.fail("C06:handover-run-failed", {"kind": kind}, payload)
                        elif still:
                            rec.fail("C06:stream-leaked-after-pool-close", {"kind": "handover-" + kind}, payload)


def run(ctx, driver):
    rec = propbase.Rec(ctx, ID)
    handover_scenarios(ctx, rec)
    import sysconf
    sysconf.run_conformance(ctx, rec, 60, 2000)
    sweeprun.run_sweeps(ctx, rec, ID, ["C06:"])
    import concur
    concur.explore(ctx, rec, ID, {"p_fault": 0.12, "p_cancel": 0.15, "gate_close": True}, 100, 1500, ["C06:"])
    concur.explore(ctx, rec, ID, {"p_fault": 0.05, "p_cancel": 0.0, "srvclose": True, "max_connections": 2, "p_hold": 0.1, "callers": 5,
                                  "max_keepalive": None}, 80, 1000, ["C06:"])
    concur.explore(ctx, rec, ID, {"p_fault": 0.1, "p_cancel": 0.05, "http2": True, "max_connections": 1, "p_conn_close": 0.0, "callers": 4},
                   80, 1000, ["C06:"])
    return rec.finish("C06 sweeps + explorer", sweeprun.RULE)


replay = propbase.default_replay
