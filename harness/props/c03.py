"""C03 — requests are serialised faithfully on the wire."""
from __future__ import annotations

import collections

import core
import propbase
import simnet

ID = "C03"
MODULE = "HttpcoreModel.Props.C03"
THEOREMS = [f"Httpcore.C03.{n}" for n in (
    "reject_writes_nothing", "head_written_first", "host_first", "others_in_order", "cl_body_exact", "cl_mismatch_detected",
    "chunked_roundtrip", "empty_chunk_writes_nothing", "defaults_only_if_missing", "h2_mapping", "h2_needs_host",
    "h2_validation_on", "h2_illegal_rejected", "h2_legal_handed", "h2_refuses_te", "h2_refuses_empty_path", "h2_refuses_custom_pseudo")] + [
    "Httpcore.C03P.head_roundtrip", "Httpcore.C03P.accepted_head_roundtrip", "Httpcore.C03P.h11Request_wellformed"] + [
    f"Httpcore.BackendProps.{n}" for n in ("write_nothing_lost_or_reordered", "write_complete", "pieces_bounded", "source_write_loop")]
TRUSTED = [
    "the sync back end's send loop (Backend.writeLoop): loop shape recognised from _backends/sync.py (Tie A) and lock-stepped on a scripted socket; "
    "the async back ends hand the whole buffer to anyio's send / trio's send_all (trusted)",
    "Lean 4.33 kernel; axioms per theorem under coverage.theorems",
    "hand-written model of h11 0.14's request validation / writers and of http2.py's header mapping (H1Write), tied by this run's differential",
    "HTTP/2 framing and HPACK: the real h2 library decodes what the client wrote (independent decoder, trusted)",
]
ASSUMPTIONS = ["body iterators yield bytes objects", "the Host header given to an HTTP/2 request is the one include_request_headers or the caller supplied"]
LEVEL_TEXT = ("Lean 4 theorems about the writer model: a rejected head writes nothing; Host first and all other headers in the caller's order; "
              "Content-Length bodies written exactly once for every chunking, mismatches detected; chunked bodies decode (with the independent "
              "reader model) to the concatenation of the chunks for every chunking incl. empty chunks; defaults only if missing; the HTTP/2 "
              "header mapping. Tied to the code by differential execution: wire bytes of 1-3 requests per keep-alive connection compared with the "
              "model byte for byte and parsed by an independent Python parser; HTTP/2 decoded by the real h2 server, send_headers calls recorded.")
LEVEL_NOTE = ("Trusted: Lean kernel; hand-written model of h11's request validation and writers (validated by this run); h2/hpack framing. "
              "The parse-of-write round trip of the request head is a theorem (C03P.accepted_head_roundtrip: for every request h11 accepts and "
              "every continuation of the byte stream, the written head parses - request-line grammar + h11's own header regex - to exactly "
              "that method, target and header list, Host first); its parser is lock-stepped against the independent Python parser on the wire "
              "bytes of every generated request. The sync back end's partial-send loop is a theorem too (BackendProps). Partial: bodies are "
              "covered by the chunked / Content-Length writer theorems, not by a parser round trip; transparent re-sends are covered under C14.")
TECHNIQUE = "Lean 4 proof about writer model (incl. write/parse round trip of the request head and the back end's partial-send loop) + independent parser + differential execution"
DESIGN_REF = "§5 C03"

TOKEN = b"abcdefghijklmnopqrstuvwxyzABCDEFGHIJKLMNOPQRSTUVWXYZ0123456789-_.!#$%&'*+^`|~"
VCHAR = bytes(range(0x21, 0x7f))
RESP = b"HTTP/1.1 200 OK\r\nContent-Length: 0\r\n\r\n"


def rb(rng, alphabet, lo, hi):
    return bytes(rng.choice(alphabet) for _ in range(rng.randint(lo, hi)))


def gen_request(rng, malformed_rate=0.15):
    r = {}
    bad = rng.random() < malformed_rate
    r["method"] = rng.choice([b"GET", b"POST", b"PUT", b"DELETE", b"OPTIONS", b"PATCH", b"get", rb(rng, TOKEN, 1, 8)])
    tk = rng.choice(["origin", "origin", "origin", "ext", "abs", "star"])
    path = b"/" + rb(rng, VCHAR.replace(b"#", b"").replace(b"?", b""), 0, 12)
    q = b"" if rng.random() < 0.5 else b"?" + rb(rng, VCHAR.replace(b"#", b""), 1, 8)
    r["url"] = b"http://example.com" + rng.choice([b"", b":8080", b":80"]) + path + q
    r["target_ext"] = None
    if tk == "ext":
        r["target_ext"] = b"/" + rb(rng, VCHAR, 0, 10)
    elif tk == "abs":
        r["target_ext"] = b"http://other.example/" + rb(rng, VCHAR, 0, 6)
    elif tk == "star":
        r["target_ext"] = b"*"
    hs = []
    for _ in range(rng.randint(0, 5)):
        name = rng.choice([b"Accept", b"accept", b"X-Token", b"x-token", b"Cookie", b"User-Agent", rb(rng, TOKEN, 1, 9)])
        words = [rb(rng, VCHAR + b"\x80\xfe", 1, 7) for _ in range(rng.randint(0, 3))]
        hs.append((name, rng.choice([b" ", b"\t", b"  "]).join(words)))
    if rng.random() < 0.35:
        hs.insert(rng.randint(0, len(hs)), (rng.choice([b"Host", b"host", b"HOST"]), rng.choice([b"example.com", b"other:81", b"h"])))
    kind = rng.choice(["none", "bytes", "bytes", "iter", "iter"])
    chunks = []
    if kind == "bytes":
        chunks = [rb(rng, bytes(range(256)), 0, rng.choice([0, 1, 10, 200, 3000]))]
    elif kind == "iter":
        chunks = [rb(rng, bytes(range(256)), 0, rng.choice([0, 0, 1, 5, 100, 2000])) for _ in range(rng.randint(0, 5))]
    r["kind"], r["chunks"] = kind, chunks
    total = sum(len(c) for c in chunks)
    fr = rng.random()
    if fr < 0.2:
        nm = rng.choice([b"Content-Length", b"content-length"])
        hs.insert(rng.randint(0, len(hs)), (nm, str(total).encode()))
    elif fr < 0.3 and kind != "none":
        hs.insert(rng.randint(0, len(hs)), (rng.choice([b"Transfer-Encoding", b"transfer-encoding"]), rng.choice([b"chunked", b"Chunked"])))
    elif fr < 0.34:
        hs.insert(rng.randint(0, len(hs)), (b"Content-Length", str(total + rng.choice([-1, 1, 5])).encode() if total else b"3"))
    if bad:
        what = rng.randrange(6)
        if what == 0:
            r["method"] = rng.choice([b"GE T", b"", b"G\x00T", b"GET\r\n"])
        elif what == 1:
            r["target_ext"] = rng.choice([b"/a b", b"/\x7f", b"/\x80", b"", b"/a\r\nX: y"])
        elif what == 2:
            hs.insert(rng.randint(0, len(hs)), (rng.choice([b"Bad Name", b"", b"X:Y", b"X\r\n"]), b"v"))
        elif what == 3:
            hs.insert(rng.randint(0, len(hs)), (b"X-Bad", rng.choice([b" lead", b"trail ", b"a\r\nb", b"a\x00b", b"a\x0bb"])))
        elif what == 4:
            hs.append((b"Host", b"second.example"))
            hs.insert(0, (b"host", b"first.example"))
        else:
            hs.append((b"Transfer-Encoding", rng.choice([b"gzip", b"chunked, gzip"])))
    r["headers"] = hs
    return r


H2_SPECIAL = [(b"TE", b"gzip"), (b"te", b"trailers"), (b"Te", b" Trailers"), (b"te", b"trailers, deflate"), (b"TE", b""), (b":foo", b"1"),
              (b":status", b"200"), (b":path", b"/other"), (b":Method", b"GET"), (b":protocol", b"websocket"), (b" Host", b"other.example"),
              (b"Connection", b"keep-alive"), (b"Upgrade", b"h2c"), (b"Keep-Alive", b"timeout=5"), (b"Proxy-Connection", b"keep-alive"),
              (b"X-Ok", b"1")]
H2_CONNECTION_SPECIFIC = (b"connection", b"proxy-connection", b"keep-alive", b"transfer-encoding", b"upgrade")


def h2_special(rng, r):
    """heads that are legal for HTTP/1.1 or at least reach h2, but that RFC 7540 s8.1.2 / RFC 9113 s8.3-8.5 constrain over HTTP/2"""
    r = dict(r, headers=list(r["headers"]))
    what = rng.randrange(8)
    if what == 0:
        r["method"] = b"CONNECT"
    elif what == 1:
        r["target_ext"] = b""
    else:
        r["headers"].insert(rng.randint(0, len(r["headers"])), rng.choice(H2_SPECIAL))
        if rng.random() < 0.15:
            r["method"] = b"CONNECT"
    return r


def content_of(r):
    if r["kind"] == "none":
        return None
    if r["kind"] == "bytes":
        return r["chunks"][0]
    return iter(list(r["chunks"]))


def effective(r):
    """what include_request_headers + the target extension make of the request (via the model's view)"""
    import httpcore
    from httpcore._models import include_request_headers
    url = httpcore.URL(r["url"])
    c = content_of(r)
    hs = include_request_headers(list(r["headers"]), url=url, content=c)
    target = r["target_ext"] if r["target_ext"] is not None else url.target
    return url, hs, target


def run_h1(reqs, runtime="sync"):
    """send the requests sequentially on one pool / one keep-alive connection; -> per-request (written bytes, outcome)"""
    import httpcore
    peer = simnet.ChunkPeer([RESP] * len(reqs))
    net = simnet.Net(simnet.Behavior(peer_factory=lambda rec: peer))
    out = []
    with httpcore.ConnectionPool(network_backend=simnet.SimBackend(net)) as pool:
        for r in reqs:
            before = [sum(len(d) for _, d in s.written) for s in net.sockets]
            nsock = len(net.sockets)
            ext = {"target": r["target_ext"]} if r["target_ext"] is not None else None
            try:
                resp = pool.request(r["method"], r["url"], headers=r["headers"], content=content_of(r), extensions=ext)
                outcome = "ok" if resp.status == 200 else f"status:{resp.status}"
            except BaseException as e:  # noqa
                outcome = "error:" + simnet.exc_name(e)
                if simnet.exc_name(e) == "Other":
                    outcome += ":" + type(e).__module__.split(".")[0] + "." + type(e).__name__
            neww = b"".join(b"".join(d for _, d in s.written)[(before[i] if i < len(before) else 0):] for i, s in enumerate(net.sockets))
            out.append({"written": neww, "outcome": outcome, "new_socket": len(net.sockets) > nsock,
                        "conn_info": [c.info() for c in pool.connections]})
    return out


def run_h2(reqs, window=None, max_frame=None):
    """send the requests sequentially over one HTTP/2 connection to the real h2 library in server role"""
    import h2.events
    import h2.settings
    import httpcore
    seen = {}

    def handler(peer, ev):
        key = (id(peer), getattr(ev, "stream_id", None))
        if isinstance(ev, h2.events.RequestReceived):
            seen[key] = {"headers": list(ev.headers), "data": [], "ended": False}
        elif isinstance(ev, h2.events.DataReceived):
            seen[key]["data"].append(bytes(ev.data))
            peer.conn.acknowledge_received_data(ev.flow_controlled_length, ev.stream_id)
        elif isinstance(ev, h2.events.StreamEnded):
            seen[key]["ended"] = True
            peer.conn.send_headers(ev.stream_id, [(":status", "200")], end_stream=True)

    settings = {}
    if window is not None:
        settings[h2.settings.SettingCodes.INITIAL_WINDOW_SIZE] = window
    if max_frame is not None:
        settings[h2.settings.SettingCodes.MAX_FRAME_SIZE] = max_frame
    peers = []

    def factory(rec):
        peers.append(simnet.H2Peer(handler=handler, settings=settings or None))
        return peers[-1]

    net = simnet.Net(simnet.Behavior(peer_factory=factory))
    out = []
    handed = []
    import h2.connection
    orig = h2.connection.H2Connection.send_headers

    def rec_send_headers(self, stream_id, headers, end_stream=False, **kw):
        if self.config.client_side:
            handed.append((stream_id, [tuple(h) for h in headers], end_stream))
        return orig(self, stream_id, headers, end_stream=end_stream, **kw)

    h2.connection.H2Connection.send_headers = rec_send_headers
    try:
        return _run_h2_inner(httpcore, net, reqs, seen, handed, out)
    finally:
        h2.connection.H2Connection.send_headers = orig


def _run_h2_inner(httpcore, net, reqs, seen, handed, out):
    with httpcore.ConnectionPool(network_backend=simnet.SimBackend(net), http2=True, ssl_context=simnet.RecordingSSLContext()) as pool:
        for r in reqs:
            known = set(seen)
            nh = len(handed)
            ext = {"target": r["target_ext"]} if r["target_ext"] is not None else None
            try:
                resp = pool.request(r["method"], r["url"].replace(b"http://", b"https://"), headers=r["headers"], content=content_of(r), extensions=ext)
                outcome = "ok" if resp.status == 200 else f"status:{resp.status}"
            except BaseException as e:  # noqa
                outcome = "error:" + simnet.exc_name(e)
                if simnet.exc_name(e) == "Other":
                    outcome += ":" + type(e).__module__.split(".")[0] + "." + type(e).__name__
            new = [sid for sid in seen if sid not in known]
            out.append({"outcome": outcome, "streams": [dict(seen[sid], stream_id=sid[1]) for sid in new], "nsockets": len(net.sockets),
                        "handed": handed[nh:]})
    return out


def py_parse_request(data):
    """Independent parser of one request from the wire bytes (oracle). -> dict or None"""
    i = data.find(b"\r\n\r\n")
    if i < 0:
        return None
    lines = data[:i].split(b"\r\n")
    parts = lines[0].split(b" ")
    if len(parts) != 3 or parts[2] != b"HTTP/1.1":
        return None
    hs = []
    for l in lines[1:]:
        n, sep, v = l.partition(b":")
        if not sep:
            return None
        hs.append((n, v.strip(b" \t")))
    rest = data[i + 4:]
    low = {n.lower(): v for n, v in hs}
    if b"transfer-encoding" in low:
        body = b""
        while True:
            j = rest.find(b"\r\n")
            if j < 0:
                return None
            n = int(rest[:j].split(b";")[0], 16)
            rest = rest[j + 2:]
            if n == 0:
                if rest[:2] != b"\r\n":
                    return None
                rest = rest[2:]
                break
            body += rest[:n]
            if rest[n:n + 2] != b"\r\n":
                return None
            rest = rest[n + 2:]
    else:
        n = int(low.get(b"content-length", b"0"))
        if len(rest) < n:
            return None
        body, rest = rest[:n], rest[n:]
    return {"method": parts[0], "target": parts[1], "headers": hs, "body": body, "rest": rest}


def body_length_mismatch(r, written):
    """the head was legal and written; the error is about the body not matching the declared
    Content-Length (reported as LocalProtocolError since the h11 send calls are mapped) - the
    property's rejection clause is about heads only"""
    i = written.find(b"\r\n\r\n")
    if i < 0:
        return False
    lines = written[:i].split(b"\r\n")[1:]
    cl = [v.strip() for n, _, v in (l.partition(b":") for l in lines) if n.lower() == b"content-length"]
    te = [1 for n, _, v in (l.partition(b":") for l in lines) if n.lower() == b"transfer-encoding"]
    if te or len(cl) != 1 or not cl[0].isdigit():
        return False
    sent = written[i + 4:]
    body = b"".join(r["chunks"])
    return int(cl[0]) != len(body) and body.startswith(sent) and len(sent) <= int(cl[0])


def oracle_h1(r, url, eff_hs, target, written, outcome):
    """property statement on one transmission"""
    fails = []
    if outcome.startswith("error:LocalProtocolError"):
        if written and not body_length_mismatch(r, written):
            fails.append(("rejected-but-written", {}))
        return fails
    if not outcome == "ok":
        return fails     # other errors are judged by the model correspondence / C15
    p = py_parse_request(written)
    if p is None or p["rest"]:
        return [("wire-not-parseable", {})]
    if p["method"] != r["method"] or p["target"] != target:
        fails.append(("request-line", {}))
    # header list: order and values, Host allowed to lead; defaults only if missing
    caller = list(r["headers"])
    lows = [n.lower() for n, _ in caller]
    want = list(caller)
    if b"host" not in lows:
        want = [eff_hs[0]] + want
    if r["kind"] != "none" and b"content-length" not in lows and b"transfer-encoding" not in lows:
        want = want + [eff_hs[-1]]
    hosts = [h for h in want if h[0].lower() == b"host"]
    want_wire = hosts + [h for h in want if h[0].lower() != b"host"]
    got = p["headers"]
    if got != want_wire:
        norm = [(n, v.lower() if n.lower() == b"transfer-encoding" else v) for n, v in want_wire]
        cls = "transfer-encoding-value-case" if got == norm else "other"
        fails.append(("headers", {"class": cls}))
    if p["body"] != b"".join(r["chunks"]):
        fails.append(("body", {}))
    return fails


RESEND_PROFILE = dict(max_connections=2, p_goaway=0.4, segment="coarse", init_max_streams=10, ups=[300, 5000, 70000], auto_credit=True)


def run_resend(ctx):
    """transparent re-sends (HTTP/2 GOAWAY refusal): every transmission attempt that ends its stream must carry the whole body"""
    import h2x
    import propbase
    rec = propbase.Rec(ctx, ID)
    rng = ctx.rng
    n = 80 if ctx.quick else 2000
    resent = 0
    stored = h2x.corpus(ctx, ID)
    for i in range(-len(stored), n):
        if i < 0:
            rt, cfg, seed = stored[i]
            one_shot = bool(cfg.get("one_shot_body"))
        else:
            one_shot = i % 4 == 3
            cfg = dict(RESEND_PROFILE, callers=rng.randint(2, 5), one_shot_body=one_shot)
            seed = rng.randrange(1 << 30)
            rt = ("asyncio", "trio")[i % 2]
        ex = h2x.run_one(rt, cfg, seed)
        rec.evals += 1
        rec.distinct.add(("h2x-resend", rt, tuple(map(str, ex.trace))))
        for c in ex.callers:
            if len(ex.request_peers(c)) > 1:
                resent += 1
        for clause, detail in ex.violations:
            if clause in ("C13:upload-corrupt", "C13:upload-incomplete"):
                rec.fail("resend-body", {"proto": "h2", "one_shot_iterator": one_shot},
                         {"runtime": rt, "cfg": cfg, "seed": seed, "detail": detail, "trace": [list(map(str, t)) for t in ex.trace][-40:],
                          "how_to_replay": "h2x.run_one(runtime, cfg, seed)"})
    rec.dist["resend:requests-sent-on-two-connections"] = resent
    return rec


def run(ctx, driver):
    rng = ctx.rng
    dist = collections.Counter()
    distinct = set()
    disagreements = []
    samples = []
    evals = 0
    n = 1200 if ctx.quick else 15000
    groups = []
    for _ in range(n):
        k = rng.choice([1, 1, 2, 3])
        groups.append([gen_request(rng) for _ in range(k)])
    lines, meta = [], []
    for g in groups:
        for r in g:
            try:
                url, hs, target = effective(r)
            except Exception:
                url, hs, target = None, None, None
            meta.append((url, hs, target))
            if hs is None:
                lines.append("empty")
            else:
                lines.append(f"h1write {core.hexb(r['method'])} {core.hexb(target)} " +
                             (",".join(core.hexb(k) + ":" + core.hexb(v) for k, v in hs) if hs else "-") + " " +
                             (",".join(core.hexb(c) for c in r["chunks"]) if r["chunks"] else "-"))
    answers = driver.run(lines) if driver else [None] * len(lines)
    pos = 0
    parse_inputs = []
    for gi, g in enumerate(groups):
        rt = "sync"
        outs = run_h1(g, rt)
        for r, o in zip(g, outs):
            url, hs, target = meta[pos]
            ans = answers[pos]
            pos += 1
            evals += 1
            if o["outcome"] == "ok":
                parse_inputs.append(bytes(o["written"]))
            dist["outcome:" + o["outcome"]] += 1
            dist["content:" + r["kind"]] += 1
            distinct.add((r["method"], r["url"], r["target_ext"], tuple(r["headers"]), tuple(r["chunks"]), r["kind"]))
            payload = {"property": ID, "request": {k: repr(v)[:300] for k, v in r.items()}, "written": repr(o["written"])[:600],
                       "outcome": o["outcome"]}
            if hs is not None:
                for clause, extra in oracle_h1(r, url, hs, target, o["written"], o["outcome"]):
                    sig = dict({"clause": clause, "proto": "h1"}, **extra)
                    known = core.match_known(ID, sig)
                    dist["oracle-fail:" + clause] += 1
                    if known:
                        line = f"KNOWN-FINDING: property={ID} {known['id']} {known['what']}"
                        if line not in ctx.known_lines:
                            ctx.known_lines.append(line)
                    elif sum(1 for v in ctx.violations if v["clause"] == clause) < 2:
                        path = core.write_replay(ctx, f"fail_{core.digest(payload)}", dict(payload, oracle_clause=clause, signature=sig))
                        ctx.violations.append({"clause": clause, "replay": path})
            if ans is not None and ans != "empty":
                d = core.kv(ans)
                mw = core.unhex(d["written"])
                me = d["err"]
                want_out = "ok" if me == "none" else ("error:LocalProtocolError" if me == "LocalProtocolError" else "error:Other")
                got_out = o["outcome"] if not o["outcome"].startswith("error:Other") else "error:Other"
                if mw != o["written"] or want_out != got_out:
                    if len(disagreements) < 10:
                        disagreements.append(dict(payload, model_written=repr(mw)[:600], model_err=me))
            if len(samples) < 3 and r["kind"] == "iter" and len(r["chunks"]) > 2 and o["outcome"] == "ok":
                samples.append({"request": {k: repr(v)[:120] for k, v in r.items()}, "written": repr(o["written"])[:300], "model": (ans or "")[:200]})
    # ---------------- the head as a server reads it (Lean parser of C03P.head_roundtrip vs the independent Python parser) --------
    if driver:
        wires = sorted({w for w in parse_inputs if w})[:2000]
        pans = driver.run(["h1parse " + core.hexb(w) for w in wires])
        for w, a in zip(wires, pans):
            i = w.find(b"\r\n\r\n")
            lines0 = w[:i].split(b"\r\n") if i >= 0 else []
            parts = lines0[0].split(b" ") if lines0 else []
            py = None
            if i >= 0 and len(parts) == 3 and parts[2] == b"HTTP/1.1":
                hs = []
                for l in lines0[1:]:
                    n_, sep, v_ = l.partition(b":")
                    hs.append((n_, v_.strip(b" \t")))
                py = (parts[0], parts[1], hs, len(w) - i - 4)
            dist["head-parse:" + ("none" if a == "none" else "ok")] += 1
            if a == "none" or py is None:
                ok = (a == "none") == (py is None)
            else:
                d = core.kv(a)
                mh = [] if d["headers"] == "-" else [tuple(core.unhex(x) for x in item.split(":")) for item in d["headers"].split(",")]
                ok = (core.unhex(d["method"]), core.unhex(d["target"]), mh, int(d["restlen"])) == py
            evals += 1
            if not ok and len(disagreements) < 10:
                disagreements.append({"family": "head-parse", "wire": repr(w)[:400], "lean": a[:400], "python": repr(py)[:400]})
    # ---------------- HTTP/2 -------------------------------------------------------------------
    n2 = 300 if ctx.quick else 4000
    groups2 = [[gen_request(rng, malformed_rate=0.1) for _ in range(rng.choice([1, 2, 3]))] for _ in range(n2)]
    groups2 = [[h2_special(rng, r) if rng.random() < 0.2 else r for r in g] for g in groups2]
    # corpus (runs on every seed): a request h2 rejects while encoding it, between two requests whose headers share HPACK entries
    groups2.insert(0, [
        {"method": b"POST", "url": b"http://example.com/a", "target_ext": None, "kind": "bytes", "chunks": [b"x"],
         "headers": [(b"x-first", b""), (b"x-token", b"")]},
        {"method": b"OPTIONS", "url": b"http://example.com/b", "target_ext": b"", "kind": "bytes", "chunks": [b"y"],
         "headers": [(b"User-Agent", b"ua"), (b"Cookie", b"c=1")]},
        {"method": b"POST", "url": b"http://example.com/c", "target_ext": None, "kind": "bytes", "chunks": [b""],
         "headers": [(b"x-token", b""), (b"X-Token", b""), (b"x-token", b"v")]}])
    lines, meta = [], []
    for g in groups2:
        for r in g:
            try:
                url, hs, target = effective(dict(r, url=r["url"].replace(b"http://", b"https://")))
                lines.append(f"h2hdrs {core.hexb(r['method'])} {core.hexb(b'https')} {core.hexb(target)} " +
                             (",".join(core.hexb(k) + ":" + core.hexb(v) for k, v in hs) if hs else "-"))
            except Exception:
                url, hs, target = None, None, None
                lines.append("empty")
            meta.append((url, hs, target))
    answers = driver.run(lines) if driver else [None] * len(lines)
    pos = 0
    for g in groups2:
        win = rng.choice([None, None, 1, 100, 70000])
        outs = run_h2(g, window=win, max_frame=rng.choice([None, 16384, 20000]))
        for r, o in zip(g, outs):
            url, hs, target = meta[pos]
            ans = answers[pos]
            pos += 1
            evals += 1
            dist["h2:outcome:" + o["outcome"]] += 1
            distinct.add(("h2", r["method"], r["url"], r["target_ext"], tuple(r["headers"]), tuple(r["chunks"]), r["kind"]))
            payload = {"property": ID, "proto": "h2", "request": {k: repr(v)[:300] for k, v in r.items()}, "outcome": o["outcome"],
                       "server_saw": repr(o["streams"])[:800], "server_window": win, "group": repr(g)}
            fails = []
            mk = core.kv(ans) if (ans and not ans.startswith(("err=", "empty", "bad-args"))) else {}
            verdict, illegal = mk.get("h2"), mk.get("illegal") == "1"
            dist["h2:model-verdict:" + str(verdict) + (":illegal-head" if illegal else "")] += 1
            refused = o["outcome"].startswith("error:LocalProtocolError")
            if illegal and verdict != "crash" and not (refused and not o["streams"]):
                # the property itself: the head cannot legally be encoded for HTTP/2 (RFC 7540 s8.1.2 rules as h2 enforces them), yet it
                # was not refused
                fails.append(("h2-illegal-head-not-rejected", {"outcome": o["outcome"].split(":")[0]}))
            if verdict in ("sent", "rejected") and (verdict == "rejected") != refused and len(disagreements) < 10:
                # correspondence: the model (with the regenerated h2 configuration) and the implementation disagree on whether h2 refuses
                disagreements.append(dict(payload, why="model and implementation disagree on whether the head is refused", model=ans[:400]))
            if o["outcome"].startswith("error:LocalProtocolError"):
                if o["streams"]:
                    fails.append(("rejected-but-written", {}))
            elif o["outcome"] == "ok" and hs is not None:
                if len(o["streams"]) != 1:
                    fails.append(("h2-not-exactly-one-stream", {}))
                else:
                    st = o["streams"][0]
                    lows = [n.lower() for n, _ in hs]
                    authority = [v for n, v in hs if n.lower() == b"host"][0]
                    want = [(b":method", r["method"]), (b":authority", authority), (b":scheme", b"https"), (b":path", target)] + \
                           [(n.lower(), v) for n, v in hs if n.lower() not in (b"host", b"transfer-encoding")]
                    if st["headers"] != want:
                        ws = b" \t\r\n\x0b\x0c"
                        stripped = [(n.strip(ws), v.strip(ws)) for n, v in want]
                        kept = [(n, v) for n, v in stripped if n not in H2_CONNECTION_SPECIFIC]
                        cls_ = ("surrounding-whitespace-stripped" if st["headers"] == stripped else
                                "connection-specific-header-dropped" if st["headers"] == kept else "other")
                        fails.append(("h2-headers", {"class": cls_}))
                    has_body_hdr = b"content-length" in lows or b"transfer-encoding" in lows
                    want_body = b"".join(r["chunks"]) if has_body_hdr else b""
                    if b"".join(st["data"]) != want_body:
                        fails.append(("h2-body", {"class": "no-framing-header" if not has_body_hdr and r["chunks"] else "other"}))
                    if not st["ended"]:
                        fails.append(("h2-stream-not-ended", {}))
            # model: the (headers, end_stream) handed to h2.send_headers, whatever h2 then makes of them
            if ans and ans != "empty" and hs is not None:
                if ans.startswith("err="):
                    ok = o["handed"] == [] and o["outcome"].startswith("error:Other")
                else:
                    d = core.kv(ans)
                    mh = [] if d["headers"] == "-" else [tuple(core.unhex(x) for x in item.split(":")) for item in d["headers"].split(",")]
                    ok = len(o["handed"]) == 1 and o["handed"][0][1] == mh and o["handed"][0][2] == (d["end"] == "1")
                if not ok and len(disagreements) < 10:
                    disagreements.append(dict(payload, model=ans[:400], handed=repr(o["handed"])[:400]))
            for clause, extra in fails:
                sig = dict({"clause": clause, "proto": "h2"}, **extra)
                known = core.match_known(ID, sig)
                dist["oracle-fail:" + clause] += 1
                if known:
                    line = f"KNOWN-FINDING: property={ID} {known['id']} {known['what']}"
                    if line not in ctx.known_lines:
                        ctx.known_lines.append(line)
                elif sum(1 for v in ctx.violations if v["clause"] == clause) < 2:
                    path = core.write_replay(ctx, f"fail_{core.digest(payload)}", dict(payload, oracle_clause=clause, signature=sig))
                    ctx.violations.append({"clause": clause, "replay": path})
    if disagreements:
        ctx.broken.append({"kind": "correspondence", "family": "C03/B2 H1 writer", "first": disagreements[:3], "count_capped": len(disagreements)})
    rr = run_resend(ctx)
    evals += rr.evals
    distinct |= rr.distinct
    dist.update(rr.dist)
    # the sync back end's partial-send loop against Backend.writeLoop
    import backendb
    rb = propbase.Rec(ctx, ID)
    backendb.run(rb, driver, rng, 400 if ctx.quick else 20000)
    if rb.disagreements:
        ctx.broken.append({"kind": "correspondence", "family": "C03 back-end write loop", "first": rb.disagreements[:3], "count_capped": len(rb.disagreements)})
    evals += rb.evals
    distinct |= rb.distinct
    dist.update(rb.dist)
    return {
        "evaluations": evals, "distinct_nontrivial": len(distinct),
        "rule": "requests from gen_request (method, origin-form / target extension / absolute-form / '*', 0-5 headers with case variants, "
                "with/without Host / Content-Length / Transfer-Encoding incl. wrong lengths, body none / bytes / iterator chunkings with empty "
                "chunks; 15% malformed heads) sent 1-3 in a row on one keep-alive connection (first use and reuse); wire bytes compared with the "
                "model and parsed by an independent parser. Re-sends: 2-5 concurrent HTTP/2 uploads, GOAWAY refusing some streams, the re-sent "
                "attempt must carry the whole body again (re-iterable bodies; every fourth run uses one-shot iterators). distinct = distinct requests",
        "samples": samples, "disagreements": len(disagreements), "disagreements_checked": evals, "distribution": dict(dist),
    }


def replay(ctx, path):
    import json
    p = json.load(open(path))
    print(json.dumps(p, indent=1)[:3000])
    return 1
