"""C02 — responses are delivered byte-exact, independent of network segmentation."""
from __future__ import annotations

import collections
import itertools

import core
import h1gen
import simnet

ID = "C02"
MODULE = "HttpcoreModel.Props.C02Chunked"
THEOREMS = [f"Httpcore.C02.{n}" for n in (
    "h1_segmentation", "h1_segmentation_open", "h1_interim_skipped", "h1_body_content_length", "h1_truncation_cl",
    "h1_truncation_head", "h1_body_until_close", "headGives_of_extract", "extract_head_status",
    "h2_body_exact", "h2_truncation", "recv_is_strict", "h1_body_chunked")] + [
    f"Httpcore.C02H.{n}" for n in ("parse_head_roundtrip", "head_ends_where_it_ends", "final_head_delivered", "wellFormed_of_b", "parse_head_roundtrip_spelled", "parseHeaderLine_spelled", "stripOWS_pad")]
TRUSTED = [
    "Lean 4.33 kernel; axioms per theorem under coverage.theorems",
    "hand-written byte-level model of h11 0.14's response reader and of httpcore's receive loops (H1Read/H1Obs), tied by differential execution on structured, cut and malformed streams (this run)",
    "HTTP/2: framing and HPACK are h2/hpack's; the model works at h2's event interface",
]
ASSUMPTIONS = [
    "the network back end returns at most max_bytes per read and b'' only at end of file",
    "response head, chunk-size lines and trailer blocks are below h11's 100 KiB incomplete-event limit",
]
LEVEL_TEXT = ("Lean 4 theorems about the byte-level model of the response reader: segmentation independence for EVERY byte stream and every "
              "way of cutting it (generic incremental-extractor theorem instantiated with the h11 reader model), interim 1xx never returned, "
              "Content-Length and close-delimited bodies delivered exactly, truncation in head or Content-Length body raises. The model is tied "
              "to the code by differential execution over structured responses, cuts inside CRLF / chunk lines, every truncation point and a "
              "malformed stream, on sync/asyncio/trio.")
LEVEL_NOTE = ("Trusted: Lean kernel; the hand-written model of h11's reader (validated by this run's differential only); simulated network. "
              "Exact decoding of a well-formed head is a theorem about that model (C02H.parse_head_roundtrip, head_ends_where_it_ends, "
              "final_head_delivered: status line, header lines in canonical `name: value` form, end of head) and the model's own rendering is "
              "applied to the implementation on every run. Every legal spelling of a header line (any run of spaces / tabs after the colon and "
              "after the value) is covered too (parse_head_roundtrip_spelled). Partial: obsolete line folding and chunk extensions are validated by the differential against generator ground truth, not proved; HTTP/2 DATA delivery is checked against the real h2 peer at event level (framing/HPACK trusted).")
TECHNIQUE = "Lean 4 proof (generic incremental-extractor theorem instantiated with the h11 reader model; render/parse round trip of the response head for every legal spelling) + differential execution (generator ground truth and model-rendered heads)"
DESIGN_REF = "§5 C02"


class Rec:
    def __init__(self, ctx):
        self.ctx = ctx
        self.dist = collections.Counter()
        self.distinct = set()
        self.disagreements = []
        self.samples = []
        self.evals = 0

    def fail(self, clause, sig_extra, payload):
        ctx = self.ctx
        sig = dict({"clause": clause}, **sig_extra)
        known = core.match_known(ID, sig)
        self.dist["oracle-fail:" + clause] += 1
        if known:
            line = f"KNOWN-FINDING: property={ID} {known['id']} {known['what']}"
            if line not in ctx.known_lines:
                ctx.known_lines.append(line)
            return
        if sum(1 for v in ctx.violations if v["clause"] == clause) < 2:
            payload = dict(payload, property=ID, oracle_clause=clause, signature=sig)
            path = core.write_replay(ctx, f"fail_{core.digest(payload)}", payload)
            ctx.violations.append({"clause": clause, "replay": path})

    def disagree(self, family, payload):
        if len(self.disagreements) < 10:
            self.disagreements.append(dict(payload, family=family))
        self.dist["disagree:" + family] += 1


def oracle_complete(rec, r, segs, impl, kind):
    """ground truth for a complete well-formed response"""
    want = h1gen.expected(r)
    payload = {"kind": kind, "method": r["method"].decode(), "segs_hex": [s.hex() for s in segs]}
    if impl["outcome"] != "complete":
        rec.fail("wellformed-rejected", {"class": impl["outcome"]}, dict(payload, exc=impl.get("exc")))
        return
    if impl["status"] != want["status"]:
        rec.fail("status", {"class": "interim-returned" if impl["status"] < 200 else "other"},
                 dict(payload, got=impl["status"], want=want["status"]))
    if impl["reason"] != want["reason"] or impl["version"] != want["version"]:
        rec.fail("reason-version", {}, dict(payload, got=repr((impl["reason"], impl["version"])), want=repr((want["reason"], want["version"]))))
    if impl["headers"] != want["headers"]:
        gl = [(n, v.lower() if n.lower() == b"transfer-encoding" else v) for n, v in want["headers"]]
        cls = "transfer-encoding-value-case" if impl["headers"] == gl else "other"
        rec.fail("headers", {"class": cls}, dict(payload, got=repr(impl["headers"]), want=repr(want["headers"])))
    if impl["body"] != want["body"]:
        rec.fail("body", {"class": r["framing"]}, dict(payload, got_len=len(impl["body"]), want_len=len(want["body"])))


def oracle_truncated(rec, r, segs, impl, cut, total, head_len):
    """a stream that ends early must raise, never return a shorter body (until-close framing is complete at EOF)"""
    payload = {"kind": "truncated", "cut": cut, "total": total, "method": r["method"].decode(), "segs_hex": [s.hex() for s in segs]}
    exempt = r["framing"] == "close" and cut >= head_len and not h1gen.bodyless(r)
    if exempt:
        if impl["outcome"] != "complete" or impl["body"] != r["body"][:cut - head_len]:
            rec.fail("until-close-prefix", {}, payload)
        return
    if h1gen.bodyless(r) and cut >= head_len:
        return
    if impl["outcome"] == "complete":
        rec.fail("truncation-silent", {"class": r["framing"]}, dict(payload, got_len=len(impl["body"])))
    elif impl["outcome"] != "error:RemoteProtocolError":
        rec.fail("truncation-wrong-error", {"class": impl["outcome"]}, payload)


H2_PROFILE = dict(max_connections=1, init_max_streams=10, p_rst=0.25, p_eof=0.05, downs=[0, 1, 10, 3000, 70000], ups=[0, 0, 5],
                  padding=True, p_ping=0.1, empty_data=True)


def run_head_roundtrip(ctx, rec, driver):
    """The theorems of Props/C02Head.lean applied to the implementation: heads are rendered by the *model* (`h1head`), which also decides
    whether a head is well-formed; for every well-formed final head the real reader (h11 + httpcore) must report exactly that version,
    status, reason phrase and header list, and exactly the body that follows it."""
    if not driver:
        return
    rng = ctx.rng
    tok = b"!#$%&'*+-.^_`|~0123456789abcdefghijklmnopqrstuvwxyzABCDEFGHIJKLMNOPQRSTUVWXYZ"
    vch = bytes(range(33, 127)) + bytes(range(128, 256))
    cases = []
    for _ in range(300 if ctx.quick else 6000):
        a, b = 49, rng.choice([49, 49, 49, 48])
        status = rng.choice([200, 200, 201, 204, 206, 299, 300, 304, 404, 418, 500, 599, 600, 999, rng.randint(200, 999)])
        d1, d2, d3 = [48 + int(c) for c in str(status)]
        reason = rng.choice([b"OK", b"", b"Not Found", b"a\tb  c", bytes(rng.choice(vch + b" \t") for _ in range(rng.randint(0, 12)))])
        hs = []
        for _ in range(rng.randint(0, 5)):
            name = bytes(rng.choice(tok) for _ in range(rng.randint(1, 10)))
            if name.lower() in (b"content-length", b"transfer-encoding", b"connection", b"upgrade"):
                name = b"x-" + name
            k = rng.randint(0, 12)
            val = bytes(rng.choice(vch) for _ in range(min(k, 1))) + bytes(rng.choice(vch + b"  \t") for _ in range(max(k - 2, 0))) + \
                bytes(rng.choice(vch) for _ in range(1 if k > 1 else 0))
            if rng.random() < 0.05:
                val = b" " + val          # not a field value as the model renders it (wf = 0)
            hs.append((name, val))
        body = bytes(rng.randrange(256) for _ in range(rng.choice([0, 1, 5, 200])))
        bodyless = status in (204, 304)
        framing = rng.choice(["cl", "cl", "close"])
        if framing == "cl":
            hs.insert(rng.randint(0, len(hs)), (rng.choice([b"Content-Length", b"content-length"]), str(0 if bodyless else len(body)).encode()))
        cases.append((a, b, d1, d2, d3, status, reason, hs, b"" if bodyless else body, framing))
    lines = [f"h1head {a} {b} {d1} {d2} {d3} {core.hexb(r) if r else '-'} " + (",".join(core.hexb(n) + ":" + core.hexb(v) for n, v in hs) if hs else "-")
             for a, b, d1, d2, d3, _, r, hs, _, _ in cases]
    answers = driver.run(lines)
    for (a, b, d1, d2, d3, status, reason, hs, body, framing), ans in zip(cases, answers):
        d = core.kv(ans)
        rec.evals += 1
        rec.dist["head-roundtrip:wf=" + d["wf"]] += 1
        if d["wf"] != "1":
            continue
        wire = core.unhex(d["render"]) + body
        segs = h1gen.cuts_random(rng, wire, 4)
        impl = h1gen.read_response(b"GET", segs, eof=True)
        rec.distinct.add(("head-roundtrip", wire))
        want = {"status": status, "reason": reason, "version": b"HTTP/" + bytes([a, 46, b]), "headers": hs, "body": body}
        got = {k: impl.get(k) for k in want}
        if impl["outcome"] != "complete" or got != want:
            rec.fail("head-or-body-not-exact", {"how": "model-rendered head"},
                     {"wire": repr(wire)[:600], "segments": len(segs), "outcome": impl["outcome"], "exc": impl.get("exc"),
                      "want": {k: repr(v)[:300] for k, v in want.items()}, "got": {k: repr(v)[:300] for k, v in got.items()}})


def run_h2(ctx, rec, driver):
    """HTTP/2: the server sends HEADERS / DATA pieces (also padded) / END_STREAM / RST_STREAM (any code, NO_ERROR included) / EOF in any
    interleaving and segmentation (down to one byte, i.e. inside frame headers); the caller must get exactly the DATA framed before
    END_STREAM or an error; per stream the outcome is also compared with the model's `recv` on the events the server emitted."""
    import h2x
    rng = ctx.rng
    n = 150 if ctx.quick else 4000
    lines, meta = [], []
    for i in range(n):
        cfg = dict(H2_PROFILE, callers=rng.randint(1, 4), segment=rng.choice(["whole", "coarse", "fine", "fine"]), coalesce=rng.random() < 0.3)
        seed = rng.randrange(1 << 30)
        rt = ("asyncio", "trio")[i % 2]
        ex = h2x.run_one(rt, cfg, seed)
        rec.evals += 1
        rec.distinct.add(("h2x", rt, tuple(map(str, ex.trace))))
        rec.dist["h2:schedules"] += 1
        for clause, detail in ex.violations:
            if clause.startswith(("C02:", "C12:wrong-response", "C12:foreign-data")):
                rec.fail(clause, {"proto": "h2"}, {"runtime": rt, "cfg": cfg, "seed": seed, "detail": detail,
                                                    "trace": [list(map(str, t)) for t in ex.trace][-60:], "how_to_replay": "h2x.run_one(runtime, cfg, seed)"})
        eof = any(p.server_closed for p in ex.peers)
        for c in ex.callers:
            rec.dist[f"h2:outcome:{c.outcome}"] += 1
            where = ex.request_peers(c)
            if len(where) != 1 or c.mode == "abandon" or ex.inconclusive:
                continue
            st = ex.peers[where[0][0]].streams[where[0][1]]
            if st.sent_events:
                lines.append("h2recv " + ",".join(st.sent_events))
                meta.append((c.outcome, len(c.body or b"") if c.outcome == "ok" else None, eof, st.sent_events, rt, cfg, seed, c.idx))
    answers = driver.run(lines) if driver and lines else []
    for ans, (outcome, blen, eof, evs, rt, cfg, seed, idx) in zip(answers, meta):
        rec.dist["h2:model:" + ans.split()[0]] += 1
        # the property demands *an* error for a reset / truncated stream; which class is C15's question (a reset that arrives while the
        # request is still uploading surfaces through h2's StreamClosedError)
        want = {"complete": "ok", "failed": None, "needmore": None}[ans.split()[0]]
        ok = True
        if ans.startswith("complete"):
            ok = outcome == "ok" and blen == int(ans.split()[1])
        elif want is not None:
            ok = outcome == want
        else:
            ok = outcome != "ok"
        if not ok:
            rec.disagree("h2-receive", {"events": evs, "model": ans, "impl_outcome": outcome, "impl_body_len": blen, "runtime": rt, "cfg": cfg,
                                        "seed": seed, "caller": idx})


def mutate(rng, data):
    raw = bytearray(data)
    for _ in range(rng.randint(1, 3)):
        op = rng.randrange(3)
        pos = rng.randrange(len(raw) + 1)
        ch = rng.choice(b"\r\n :;\t\x00\x0b\x0cHh1z,\xff0a")
        if op == 0:
            raw.insert(pos, ch)
        elif op == 1 and raw:
            del raw[min(pos, len(raw) - 1)]
        elif raw:
            raw[min(pos, len(raw) - 1)] = ch
    return bytes(raw)


def run(ctx, driver):
    rng = ctx.rng
    rec = Rec(ctx)
    cases = []   # (kind, r, method, segs, eof, extra)
    n_resp = 250 if ctx.quick else 2500
    for i in range(n_resp):
        r = h1gen.gen_response(rng)
        data, head_len = h1gen.encode(r, rng)
        rec.distinct.add(data)
        segsets = [("whole", [data]), ("random", h1gen.cuts_random(rng, data)), ("random", h1gen.cuts_random(rng, data, 20))]
        ip = h1gen.interesting_points(data)
        if ip:
            segsets.append(("crlf-cuts", h1gen.cuts_at(data, rng.sample(ip, min(len(ip), rng.randint(1, 8))))))
        if len(data) <= (400 if ctx.quick else 1500):
            segsets.append(("bytewise", h1gen.cuts_bytewise(data)))
        for kind, segs in segsets:
            cases.append((kind, r, r["method"], segs, True, None))
        # truncation points
        if len(data) <= 600:
            pts = range(0, len(data)) if (len(data) <= 120 or not ctx.quick) else sorted(set(rng.sample(range(len(data)), 25)) | set(p for p in ip if p < len(data)))
            for cut in pts:
                pre = data[:cut]
                cases.append(("truncated", r, r["method"], h1gen.cuts_random(rng, pre, 3), True, (cut, len(data), head_len)))
    # exhaustive segmentations of tiny responses
    tiny = [b"HTTP/1.1 200 OK\r\n\r\n", b"HTTP/1.1 200\r\nContent-Length: 2\r\n\r\nhi",
            b"HTTP/1.1 200 OK\r\nTransfer-Encoding: chunked\r\n\r\n1\r\na\r\n0\r\n\r\n"]
    for data in tiny:
        tail = data[-(11 if ctx.quick else 14):]
        headp = data[:len(data) - len(tail)]
        for mask in range(1 << (len(tail) - 1)):
            pts = [len(headp) + i + 1 for i in range(len(tail) - 1) if mask >> i & 1]
            cases.append(("exhaustive-tail", None, b"GET", h1gen.cuts_at(data, pts), True, data))
    # malformed stream
    for i in range(300 if ctx.quick else 5000):
        r = h1gen.gen_response(rng)
        data, _ = h1gen.encode(r, rng)
        if len(data) > 800:
            continue
        bad = mutate(rng, data)
        cases.append(("malformed", r, r["method"], h1gen.cuts_random(rng, bad, 4), True, None))

    answers = driver.run([h1gen.model_line(m, segs, eof) for _, _, m, segs, eof, _ in cases]) if driver else [None] * len(cases)
    ref = {}
    for idx, ((kind, r, method, segs, eof, extra), ans) in enumerate(zip(cases, answers)):
        rt = "sync" if (ctx.quick and idx % 20) or (not ctx.quick and idx % 5) else simnet.RUNTIMES[(idx // 20) % 3]
        impl = h1gen.read_response(method, segs, eof=eof, runtime=rt)
        rec.evals += 1
        rec.dist[kind] += 1
        rec.dist["outcome:" + impl["outcome"]] += 1
        if ans is not None:
            m = h1gen.parse_model(ans)
            if m["outcome"] == "error:out-of-domain":
                rec.dist["model-out-of-domain"] += 1
            d = h1gen.same(impl, m)
            if d:
                rec.disagree("h1-read/" + kind, {"why": d, "runtime": rt, "method": method.decode(), "segs_hex": [s.hex() for s in segs][:12]})
        if kind in ("whole", "random", "crlf-cuts", "bytewise"):
            oracle_complete(rec, r, segs, impl, kind)
            rec.dist["framing:" + r["framing"]] += 1
            if r["interims"]:
                rec.dist["with-interim"] += 1
        elif kind == "truncated":
            oracle_truncated(rec, r, segs, impl, *extra)
        elif kind == "exhaustive-tail":
            key = extra
            sig = (impl["outcome"], impl["status"], impl["reason"], tuple(impl["headers"] or ()), impl["body"])
            if key not in ref:
                ref[key] = sig
            elif ref[key] != sig:
                rec.fail("segmentation-dependent", {}, {"data_hex": key.hex(), "segs_hex": [s.hex() for s in segs]})
        if len(rec.samples) < 3 and kind == "crlf-cuts" and r["framing"] == "chunked":
            rec.samples.append({"kind": kind, "segments": [repr(s)[:60] for s in segs][:8], "impl_outcome": impl["outcome"],
                                "impl_status": impl["status"], "body_len": len(impl["body"]), "model": (ans or "")[:160]})
    run_head_roundtrip(ctx, rec, driver)
    run_h2(ctx, rec, driver)
    if rec.disagreements:
        ctx.broken.append({"kind": "correspondence", "family": "C02/B2 H1 reader + H2 receive", "first": rec.disagreements[:3],
                           "count_capped": len(rec.disagreements)})
    return {
        "evaluations": rec.evals,
        "distinct_nontrivial": len(rec.distinct),
        "rule": "structured responses (status, reason, version 1.0/1.1, 0-5 random headers incl. obs-text, framing CL/chunked/until-close, "
                "body 0-3000 B, chunk sizes/extensions/trailers, 0-3 interim 1xx, HEAD/204/304) x segmentations (whole, random cuts, cuts "
                "inside CRLF, byte-wise, exhaustive over the last 11-14 bytes of three tiny responses) + every truncation point + "
                "mutated (malformed) streams. distinct_nontrivial = distinct encoded responses",
        "samples": rec.samples,
        "disagreements": len(rec.disagreements),
        "disagreements_checked": rec.evals,
        "distribution": dict(rec.dist),
    }


def replay(ctx, path):
    import json
    p = json.load(open(path))
    print(json.dumps(p, indent=1)[:3000])
    if "segs_hex" in p:
        segs = [bytes.fromhex(s) for s in p["segs_hex"]]
        impl = h1gen.read_response(p.get("method", "GET").encode(), segs)
        print("now:", {k: v for k, v in impl.items() if k not in ("net", "peer")})
    return 1
