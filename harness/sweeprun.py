"""Driver of the B2 fault / cancellation sweeps shared by C05, C06 (and C04's stream bound)."""
from __future__ import annotations

import re

import sweep

C05_THEOREMS = ["inv_init", "inv_step", "inv_reachable", "no_orphan_request", "no_limbo_connection", "quiescent_capacity",
                "limbo_counterexample_assigned", "limbo_counterexample_107"]
C06_THEOREMS = ["owned_reachable", "quiescent_streams", "pool_close_closes_all", "pool_close_monotone", "leak_counterexample_107"]

RULE = ("sweeps: connection kinds {direct h1, direct TLS h1, direct h2, forward proxy, CONNECT tunnel h1/h2, SOCKS5, SOCKS5+auth+TLS} x shapes {first "
        "use, reuse, with a request queued behind} x {every documented fault at every network operation; cancellation at every suspension point: "
        "scope-style on asyncio and trio, one-shot native on asyncio; back end with and without a suspension inside each operation}; then a capacity "
        "probe and pool close. Explorer: random multi-caller schedules on the gated network. distinct = distinct (kind, shape, injection) / schedules")

FAULTS = {"connect_tcp": ["ConnectError", "ConnectTimeout"], "start_tls": ["ConnectError", "ConnectTimeout"],
          "read": ["ReadError", "ReadTimeout"], "write": ["WriteError", "WriteTimeout"]}
SHAPES = [{"reuse": False, "queued": False}, {"reuse": True, "queued": False}, {"reuse": False, "queued": True}]


def coarse_site(site):
    return re.sub(r"#\d+$", "", site or "")


def make_signature(res, clause, extra):
    sig = sweep.signature(res, clause, extra)
    sig.pop("probes", None)
    sig.pop("b", None)
    if "site" in sig:
        sig["site"] = coarse_site(sig["site"])
    # the wrapper kind does not matter for defects located in the protocol connections
    site = sig.get("site", "")
    if site.startswith(("_synchronization", "http11.", "http2.")) and ("http11." in site or "http2." in site) and "proxy" not in site:
        sig["kind"] = "any"
    elif sig["trigger"].startswith("cancel") and "connection.AsyncHTTPConnection._connect" in site:
        sig["kind"] = "any-tls"
    if sig["trigger"] == "cancel:native":
        sig["kind"] = "any"          # a one-shot native cancellation defeats every shield, whatever the wrapper
    return sig


def cases_for(ctx, kind, shape, rt, base, yield_in_ops):
    K = len(base["labels"])
    ops = [o for o, _ in base["net_ops"]]
    injs = []
    if K <= 45:
        ks = list(range(1, K + 1))
    else:
        # the 99-step semaphore drain: every 9th step, everything around it
        ks = list(range(1, 14)) + list(range(14, K - 16, 9 if ctx.quick else 3)) + list(range(K - 16, K + 1))
    for k in ks:
        injs.append(("cancel", k, "scope"))
        if rt == "asyncio":
            injs.append(("cancel", k, "native"))
    if yield_in_ops:
        warm = 0
        for k, op in enumerate(ops):
            for exc in FAULTS.get(op, []):
                injs.append(("fault", k, exc))
    return injs


def record(rec, pid, prefixes, res, kind, shape, rt, inj, yield_in_ops):
    for clause, extra in sweep.judge(res):
        if not clause.startswith(tuple(prefixes)) and clause != "harness-exception":
            rec.dist["other-property:" + clause] += 1
            continue
        sig = make_signature(res, clause, extra)
        rec.fail(clause, sig, {"kind": kind, "shape": shape, "runtime": rt, "inject": list(inj), "yield_in_ops": yield_in_ops,
                               "result": {k: v for k, v in res.items() if k not in ("labels", "a", "b")},
                               "site": res.get("cancel_label"),
                               "how_to_replay": "sweep.run_case(runtime, kind, shape, inject, yield_in_ops=...)"})


def run_corpus(rec, pid, prefixes):
    """the stored replay of every known finding of this property runs first, on every run"""
    import core
    seen = set()
    for k in core.load_known():
        ra = k.get("replay_args")
        if k["property"] != pid or not ra or ra.get("engine") != "sweep":
            continue
        key = repr(sorted(ra.items(), key=str))
        if key in seen:
            continue
        seen.add(key)
        inj = tuple(ra["inject"])
        res = sweep.run_case(ra["runtime"], ra["kind"], ra["shape"], inj, yield_in_ops=ra["yield_in_ops"])
        rec.evals += 1
        rec.dist[f"{pid}:corpus"] += 1
        record(rec, pid, prefixes, res, ra["kind"], ra["shape"], ra["runtime"], inj, ra["yield_in_ops"])


def run_sweeps(ctx, rec, pid, prefixes):
    n_run = 0
    run_corpus(rec, pid, prefixes)
    for yield_in_ops in (True, False):
        kinds = sweep.KINDS if yield_in_ops else ["direct-h1", "direct-h2", "tunnel-h1", "socks5"]
        for ki, kind in enumerate(kinds):
            for si, shape in enumerate(SHAPES):
                if not yield_in_ops and shape["reuse"]:
                    continue
                for rt in ("asyncio", "trio"):
                    if ctx.quick and (ki + si + (0 if rt == "asyncio" else 1) + ctx.seed) % 2 and kind not in ("direct-h1",):
                        continue      # quick tier: half of the (kind, shape, runtime) cells per seed, all of direct-h1
                    base = sweep.run_case(rt, kind, shape, None, yield_in_ops=yield_in_ops)
                    if base.get("a_outcome") != "ok" or sweep.judge(base):
                        rec.fail(pid + ":clean-run-fails", {"kind": kind}, {"kind": kind, "shape": shape, "runtime": rt,
                                                                              "outcome": base.get("a_outcome"), "judge": str(sweep.judge(base))})
                        continue
                    # fault indices count caller A's own operations after its warm-up request (sweep.CallerFaults)
                    for inj in cases_for(ctx, kind, shape, rt, base, yield_in_ops):
                        res = sweep.run_case(rt, kind, shape, inj, yield_in_ops=yield_in_ops)
                        n_run += 1
                        rec.evals += 1
                        rec.distinct.add((kind, str(shape), rt, inj, yield_in_ops))
                        rec.dist[f"{pid}:sweep:{inj[0]}:{inj[2] if inj[0] == 'cancel' else 'fault'}"] += 1
                        rec.dist[f"{pid}:sweep:outcome:{res.get('a_outcome')}"] += 1
                        record(rec, pid, prefixes, res, kind, shape, rt, inj, yield_in_ops)
                        if len(rec.samples) < 4 and inj[0] == "cancel" and res.get("a_outcome") == "cancelled" and kind != "direct-h1":
                            rec.samples.append({"kind": kind, "shape": shape, "runtime": rt, "inject": list(inj), "site": res.get("cancel_label"),
                                                "conns_after": res.get("conns"), "probes": res.get("probes"),
                                                "open_after_close": res.get("open_after_close")})
    rec.dist[f"{pid}:sweep:runs"] = n_run
