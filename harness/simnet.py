"""Deterministic simulated network behind httpcore's public back-end interfaces.

One runtime-agnostic core (`Net`) records every operation with all its arguments, keeps a ledger of
sockets (open / closed) and asks a *behaviour* object what each operation returns or raises.  Thin
sync / async wrappers expose it as `NetworkBackend` / `AsyncNetworkBackend`.  In `gated` mode every
async operation parks on an event until the harness resolves it (interactive scheduling, DESIGN §4).
"""
from __future__ import annotations

import typing

import httpcore

NET_OPS = ("connect_tcp", "connect_unix_socket", "start_tls", "read", "write")


class Starved(BaseException):
    """The script ran out: raised into httpcore to stop the run (never an implementation outcome)."""


class RecordingSSLContext:
    """Duck-typed stand-in for ssl.SSLContext: httpcore only calls set_alpn_protocols on it."""

    def __init__(self, name="ctx"):
        self.name = name
        self.alpn = None

    def set_alpn_protocols(self, protos):
        self.alpn = list(protos)

    def __repr__(self):
        return f"<ctx {self.name}>"


class SSLObject:
    def __init__(self, alpn):
        self._alpn = alpn

    def selected_alpn_protocol(self):
        return self._alpn


class Peer:
    """What sits at the other end of a socket."""

    def on_write(self, data: bytes) -> None:
        pass

    def on_read(self, max_bytes: int) -> bytes:
        return b""

    def readable(self) -> bool:
        return False

    def on_tls(self, offer, server_hostname):
        """-> selected ALPN protocol (or None)"""
        return None

    def on_close(self):
        pass


class ChunkPeer(Peer):
    """Serves a fixed list of read results (bytes), then EOF; records what was written."""

    def __init__(self, chunks=(), alpn=None):
        self.chunks = list(chunks)
        self.alpn = alpn
        self.written = bytearray()

    def on_write(self, data):
        self.written += data

    def on_read(self, max_bytes):
        if not self.chunks:
            return b""
        c = self.chunks.pop(0)
        if len(c) > max_bytes:
            self.chunks.insert(0, c[max_bytes:])
            c = c[:max_bytes]
        return c

    def readable(self):
        return False

    def on_tls(self, offer, server_hostname):
        return self.alpn


class Socket:
    def __init__(self, sid, peer, target):
        self.id = sid
        self.peer = peer
        self.target = target        # ('tcp', host, port) | ('uds', path)
        self.open = True
        self.tls_layers = []        # list of dict(server_hostname, offer, selected, ctx)
        self.written = []           # list of (layer_count, bytes)


class Net:
    def __init__(self, behavior=None, gated=False):
        self.behavior = behavior or Behavior()
        self.gated = gated
        self.log = []               # every operation, in order
        self.sockets = []
        self.net_op_index = 0       # counts connect/start_tls/read/write
        self.pending = []           # gated mode: parked operations
        self.ungated_ops = {"close"}   # operations that complete at once even in gated mode

    # -- ledger ---------------------------------------------------------------------------
    def open_sockets(self):
        return [s.id for s in self.sockets if s.open]

    # -- core of every operation ----------------------------------------------------------
    def begin(self, rec):
        rec["i"] = len(self.log)
        if rec["op"] in NET_OPS:
            rec["k"] = self.net_op_index
            self.net_op_index += 1
        self.log.append(rec)
        return rec

    def do_connect(self, rec):
        rec = self.begin(rec)
        peer = self.behavior.connect(self, rec)      # may raise
        target = ("uds", rec["path"]) if rec["op"] == "connect_unix_socket" else ("tcp", rec["host"], rec["port"])
        sock = Socket(len(self.sockets), peer, target)
        self.sockets.append(sock)
        rec["sock"] = sock.id
        return sock

    def do_start_tls(self, sock, rec):
        rec = self.begin(rec)
        try:
            selected = self.behavior.start_tls(self, sock, rec)
        except BaseException:
            # contract of the real back ends: a failed handshake closes the underlying stream
            if sock.open:
                sock.open = False
                sock.peer.on_close()
                rec["closed_underlying"] = True
            raise
        sock.tls_layers.append({"server_hostname": rec["server_hostname"], "offer": rec["alpn_offer"], "selected": selected})
        return selected

    def do_read(self, sock, rec):
        rec = self.begin(rec)
        data = self.behavior.read(self, sock, rec)
        rec["ret"] = len(data)
        return data

    def do_write(self, sock, rec):
        rec = self.begin(rec)
        self.behavior.write(self, sock, rec)
        sock.written.append((len(sock.tls_layers), bytes(rec["data"])))

    def do_close(self, sock, rec):
        rec = self.begin(rec)
        if sock.open:
            sock.open = False
            sock.peer.on_close()

    def do_sleep(self, rec):
        self.begin(rec)


class Behavior:
    """Default behaviour: every connect succeeds with `peer_factory(rec)`, faults by net-op index."""

    def __init__(self, peer_factory=None, faults=None):
        self.peer_factory = peer_factory or (lambda rec: ChunkPeer())
        self.faults = dict(faults or {})     # net-op index -> exception instance | class | callable(rec)

    def _fault(self, rec):
        f = self.faults.get(rec.get("k"))
        if f is not None:
            rec["fault"] = getattr(f, "__name__", type(f).__name__)
            if isinstance(f, type):
                raise f(f"injected at op {rec['k']}")
            raise f

    def connect(self, net, rec):
        self._fault(rec)
        return self.peer_factory(rec)

    def start_tls(self, net, sock, rec):
        self._fault(rec)
        return sock.peer.on_tls(rec["alpn_offer"], rec["server_hostname"])

    def read(self, net, sock, rec):
        self._fault(rec)
        if not sock.open:
            raise httpcore.ReadError("read on closed socket")
        return sock.peer.on_read(rec["max_bytes"])

    def write(self, net, sock, rec):
        self._fault(rec)
        if not sock.open:
            raise httpcore.WriteError("write on closed socket")
        sock.peer.on_write(rec["data"])


def _tls_rec(sock, ssl_context, server_hostname, timeout):
    return {"op": "start_tls", "sock": sock.id, "server_hostname": server_hostname, "timeout": timeout,
            "alpn_offer": list(getattr(ssl_context, "alpn", None) or []) if getattr(ssl_context, "alpn", None) is not None else None,
            "ctx": getattr(ssl_context, "name", type(ssl_context).__name__)}


# ---------------------------------------------------------------------------------------------
# sync flavour
# ---------------------------------------------------------------------------------------------

class SimStream(httpcore.NetworkStream):
    def __init__(self, net, sock, ssl_object=None):
        self.net, self.sock, self.ssl_object = net, sock, ssl_object

    def read(self, max_bytes, timeout=None):
        return self.net.do_read(self.sock, {"op": "read", "sock": self.sock.id, "max_bytes": max_bytes, "timeout": timeout})

    def write(self, buffer, timeout=None):
        self.net.do_write(self.sock, {"op": "write", "sock": self.sock.id, "data": bytes(buffer), "timeout": timeout})

    def close(self):
        self.net.do_close(self.sock, {"op": "close", "sock": self.sock.id})

    def start_tls(self, ssl_context, server_hostname=None, timeout=None):
        sel = self.net.do_start_tls(self.sock, _tls_rec(self.sock, ssl_context, server_hostname, timeout))
        return SimStream(self.net, self.sock, SSLObject(sel))

    def get_extra_info(self, info):
        if info == "ssl_object":
            return self.ssl_object
        if info == "is_readable":
            return self.sock.peer.readable() if self.sock.open else False
        if info == "sim_socket":
            return self.sock
        return None


class SimBackend(httpcore.NetworkBackend):
    def __init__(self, net):
        self.net = net

    def connect_tcp(self, host, port, timeout=None, local_address=None, socket_options=None):
        sock = self.net.do_connect({"op": "connect_tcp", "host": host, "port": port, "timeout": timeout,
                                    "local_address": local_address, "socket_options": socket_options})
        return SimStream(self.net, sock)

    def connect_unix_socket(self, path, timeout=None, socket_options=None):
        sock = self.net.do_connect({"op": "connect_unix_socket", "path": path, "timeout": timeout,
                                    "socket_options": socket_options})
        return SimStream(self.net, sock)

    def sleep(self, seconds):
        self.net.do_sleep({"op": "sleep", "seconds": seconds})


# ---------------------------------------------------------------------------------------------
# async flavour (immediate or gated)
# ---------------------------------------------------------------------------------------------

class Parked:
    def __init__(self, rec, event):
        self.rec = rec
        self.event = event
        self.inject = None     # exception to raise instead of performing the operation
        self.done = False


class AsyncSimStream(httpcore.AsyncNetworkStream):
    def __init__(self, net, sock, ssl_object=None):
        self.net, self.sock, self.ssl_object = net, sock, ssl_object

    async def _gate(self, rec):
        await _gate(self.net, rec)

    async def read(self, max_bytes, timeout=None):
        rec = {"op": "read", "sock": self.sock.id, "max_bytes": max_bytes, "timeout": timeout}
        await self._gate(rec)
        return self.net.do_read(self.sock, rec)

    async def write(self, buffer, timeout=None):
        rec = {"op": "write", "sock": self.sock.id, "data": bytes(buffer), "timeout": timeout}
        await self._gate(rec)
        self.net.do_write(self.sock, rec)

    async def aclose(self):
        rec = {"op": "close", "sock": self.sock.id}
        await self._gate(rec)
        self.net.do_close(self.sock, rec)

    async def start_tls(self, ssl_context, server_hostname=None, timeout=None):
        rec = _tls_rec(self.sock, ssl_context, server_hostname, timeout)
        await self._gate(rec)
        sel = self.net.do_start_tls(self.sock, rec)
        return AsyncSimStream(self.net, self.sock, SSLObject(sel))

    def get_extra_info(self, info):
        if info == "ssl_object":
            return self.ssl_object
        if info == "is_readable":
            return self.sock.peer.readable() if self.sock.open else False
        if info == "sim_socket":
            return self.sock
        return None


import contextvars
CUR_CALLER = contextvars.ContextVar("verif_cur_caller", default=None)     # set by harness caller tasks: who performs an operation


async def _gate(net, rec):
    rec.setdefault("caller", CUR_CALLER.get())
    if getattr(net, "yield_in_ops", False) and not net.gated:
        import anyio
        await anyio.sleep(0)        # every network operation is a (cancellable) suspension point
        return
    if not net.gated or rec["op"] in net.ungated_ops:
        return
    import anyio
    import sys
    f = sys._getframe(1)
    while f is not None:        # is this operation part of closing a response / connection (RST_STREAM, connection close ...)?
        if f.f_code.co_name in ("_response_closed", "aclose") and "/httpcore/" in f.f_code.co_filename.replace("\\", "/"):
            rec["in_close"] = True
            break
        f = f.f_back
    p = Parked(rec, anyio.Event())
    net.pending.append(p)
    try:
        await p.event.wait()
    finally:
        p.done = True
        if p in net.pending:
            net.pending.remove(p)
    if p.inject is not None:
        # the operation fails without being performed; still logged
        rec2 = net.begin(dict(rec))
        rec2["fault"] = type(p.inject).__name__
        if rec["op"] == "start_tls":
            sock = net.sockets[rec["sock"]]
            if sock.open:
                sock.open = False
                rec2["closed_underlying"] = True
        raise p.inject


class AsyncSimBackend(httpcore.AsyncNetworkBackend):
    def __init__(self, net):
        self.net = net

    async def connect_tcp(self, host, port, timeout=None, local_address=None, socket_options=None):
        rec = {"op": "connect_tcp", "host": host, "port": port, "timeout": timeout,
               "local_address": local_address, "socket_options": socket_options}
        await _gate(self.net, rec)
        return AsyncSimStream(self.net, self.net.do_connect(rec))

    async def connect_unix_socket(self, path, timeout=None, socket_options=None):
        rec = {"op": "connect_unix_socket", "path": path, "timeout": timeout, "socket_options": socket_options}
        await _gate(self.net, rec)
        return AsyncSimStream(self.net, self.net.do_connect(rec))

    async def sleep(self, seconds):
        rec = {"op": "sleep", "seconds": seconds}
        await _gate(self.net, rec)
        self.net.do_sleep(rec)


# ---------------------------------------------------------------------------------------------
# running one scenario on the three runtimes
# ---------------------------------------------------------------------------------------------

RUNTIMES = ("sync", "asyncio", "trio")


def exc_name(e: BaseException) -> str:
    """Canonical class of an exception as the model sees it."""
    if isinstance(e, Starved):
        return "Starved"
    t = type(e)
    if t.__module__.startswith("httpcore") and t.__name__ in (
        "ConnectionNotAvailable", "ProxyError", "UnsupportedProtocol", "ProtocolError", "RemoteProtocolError",
        "LocalProtocolError", "TimeoutException", "PoolTimeout", "ConnectTimeout", "ReadTimeout", "WriteTimeout",
        "NetworkError", "ConnectError", "ReadError", "WriteError"):
        return t.__name__
    return "Other"


def run_async(fn, runtime):
    """fn: async callable without arguments"""
    if runtime == "asyncio":
        import anyio
        return anyio.run(fn, backend="asyncio")
    import trio
    return trio.run(fn)


# ---------------------------------------------------------------------------------------------
# HTTP/2 server peer: the real h2 library in the server role
# ---------------------------------------------------------------------------------------------

class H2Peer(Peer):
    """An HTTP/2 server built on h2 (an independent decoder of what the client wrote and the generator
    of what it reads).  `handler(peer, event)` reacts to h2 events by calling h2 methods on `peer.conn`;
    outgoing bytes are collected and served to reads, cut by `segmenter(bytes) -> list[bytes]`."""

    def __init__(self, handler=None, segmenter=None, alpn="h2", settings=None, eof_when_idle=False, auto_settings=True):
        import h2.config
        import h2.connection
        self.conn = h2.connection.H2Connection(config=h2.config.H2Configuration(client_side=False, validate_inbound_headers=False,
                                                                             normalize_inbound_headers=False, header_encoding=None))
        self.handler = handler
        self.segmenter = segmenter or (lambda b: [b])
        self.alpn = alpn
        self.settings = settings
        self.out = []              # pending read results
        self.events = []           # every h2 event seen, in order
        self.written = bytearray()
        self.started = False
        self.eof_when_idle = eof_when_idle
        self.errors = []
        self.closed = False
        self.frames_log = []       # (kind, stream_id, length) of DATA/HEADERS seen, for oracles

    def on_tls(self, offer, server_hostname):
        return self.alpn if (offer and self.alpn in offer) else None

    def _start(self):
        if not self.started:
            self.started = True
            if self.settings is not None:
                self.conn.local_settings.update(self.settings) if False else None
                self.conn.update_settings(self.settings) if False else None
            self.conn.initiate_connection()
            if self.settings:
                self.conn.update_settings(self.settings)
            self.flush()

    def flush(self):
        data = self.conn.data_to_send()
        if data:
            self.out.extend(s for s in self.segmenter(data) if s)

    def push_raw(self, data):
        self.out.extend(s for s in self.segmenter(data) if s)

    def on_write(self, data):
        import h2.exceptions
        self.written += data
        self._start()
        try:
            events = self.conn.receive_data(data)
        except h2.exceptions.ProtocolError as e:
            self.errors.append(repr(e))
            self.flush()
            return
        for ev in events:
            self.events.append(ev)
            if self.handler:
                self.handler(self, ev)
        self.flush()

    def on_read(self, max_bytes):
        self._start()
        if not self.out:
            if self.eof_when_idle:
                return b""
            raise Starved()
        c = self.out.pop(0)
        if len(c) > max_bytes:
            self.out.insert(0, c[max_bytes:])
            c = c[:max_bytes]
        return c

    def readable(self):
        return bool(self.out)

    def on_close(self):
        self.closed = True
