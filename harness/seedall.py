"""Development aid (not a registered check): apply every stored seeded change to a scratch worktree of /repo's HEAD and run the
property's own check (plus any listed extra checks) against it; prints one line per change and rewrites seeded/<id>/result.json.

usage: seedall.py [--only C12-a,C13-b] [--extra C05,C06] [--tier quick]
The worktree lives under /tmp and is removed afterwards."""
import argparse
import json
import os
import subprocess
import sys

VERIF = os.path.dirname(os.path.dirname(os.path.abspath(__file__)))
WT = "/tmp/seedall_wt"


def sh(cmd, cwd, env=None, timeout=3600):
    p = subprocess.run(cmd, cwd=cwd, shell=True, stdout=subprocess.PIPE, stderr=subprocess.STDOUT, text=True, env=env, timeout=timeout)
    return p.returncode, p.stdout


def main():
    ap = argparse.ArgumentParser()
    ap.add_argument("--only", default="")
    ap.add_argument("--extra", default="")
    ap.add_argument("--tier", default="quick")
    ap.add_argument("--shard", default="0/1", help="k/n: take every n-th change starting at k (run n of these in parallel)")
    ap.add_argument("--lean-dir", default="", help="a second build directory (copy of lean/) for this shard")
    a = ap.parse_args()
    global WT
    k, n = map(int, a.shard.split("/"))
    if n > 1:
        WT = f"{WT}_{k}"
    only = [x for x in a.only.split(",") if x]
    sh(f"git -C /repo worktree remove --force {WT}", "/")
    rc, o = sh(f"git -C /repo worktree add -f --detach {WT} HEAD", "/")
    if rc != 0:
        print(o)
        return 2
    summary = []
    try:
        for idx, sid in enumerate(sorted(os.listdir(os.path.join(VERIF, "seeded")))):
            if only and sid not in only:
                continue
            if idx % n != k:
                continue
            d = os.path.join(VERIF, "seeded", sid)
            patch = os.path.join(d, "patch.diff")
            if not os.path.exists(patch):
                continue
            sh("git reset -q --hard HEAD && git clean -fdq httpcore scripts", WT)
            rc, o = sh(f"git apply {patch}", WT)
            if rc != 0:
                print(f"{sid}: patch does not apply to HEAD")
                summary.append((sid, "patch-does-not-apply"))
                continue
            prop = sid.split("-")[0]
            res = {}
            for pid in [prop] + [x for x in a.extra.split(",") if x and x != prop]:
                env = dict(os.environ, VERIF_REPO=WT)
                if a.lean_dir:
                    env["VERIF_LEAN_DIR"] = a.lean_dir
                rc, o = sh(f"bin/check {pid} --tier {a.tier}", VERIF, env=env)
                lines = [l for l in o.splitlines() if l.startswith(("VIOLATION", "["))]
                res[pid] = {"rc": rc, "violations": sum(1 for l in lines if l.startswith("VIOLATION")),
                            "no_failing_input_found": any("no-failing-input-found" in l for l in lines), "summary": lines[-1] if lines else ""}
            json.dump({"head": subprocess.run("git -C /repo rev-parse --short HEAD", shell=True, capture_output=True, text=True).stdout.strip(),
                       "results": res}, open(os.path.join(d, "result.json"), "w"), indent=1)
            verdict = "CAUGHT" if res[prop]["rc"] == 1 else ("ERROR" if res[prop]["rc"] not in (0, 1) else "MISSED")
            how = "theorem/tie only" if res[prop]["no_failing_input_found"] and res[prop]["violations"] == 1 else "failing input"
            print(f"{sid}: {verdict} ({how if verdict == 'CAUGHT' else ''}) " + " ".join(f"{k}:rc={v['rc']}" for k, v in res.items()))
            summary.append((sid, verdict))
    finally:
        sh(f"git -C /repo worktree remove --force {WT}", "/")
        # the checks above regenerated Generated.lean from the scratch tree: put the real one back
        sh("/venv/bin/python harness/extract.py", VERIF)
    missed = [s for s, v in summary if v != "CAUGHT"]
    print("missed / not applicable:", missed)
    return 0


if __name__ == "__main__":
    sys.exit(main())
