"""C08 worlds: several threads share one synchronous pool over the simulated network, under the controlled scheduler."""
from __future__ import annotations

import random

import servers
import simnet
import threadsched


class PointBehavior(simnet.Behavior):
    """every network operation is a pre-emption point"""

    def __init__(self, sched, peer_factory):
        super().__init__(peer_factory=peer_factory)
        self.sched = sched
        self.faulty = set()
        self.fired = set()

    def connect(self, net, rec):
        self.sched.point(("net", "connect"))
        return super().connect(net, rec)

    def start_tls(self, net, sock, rec):
        self.sched.point(("net", "start_tls"))
        return super().start_tls(net, sock, rec)

    def read(self, net, sock, rec):
        self.sched.point(("net", "read"))
        # requests marked faulty fail at their first read (a genuine network failure: that request is expected to fail, nobody else)
        import re

        import httpcore
        data = b"".join(b for _, b in sock.written[-6:])
        toks = re.findall(rb"/(c\d+x\d+) HTTP/1\.1", data)
        if toks and toks[-1].decode() in self.faulty and toks[-1] not in self.fired:
            self.fired.add(toks[-1])
            rec["fault"] = "ReadError"
            raise httpcore.ReadError("injected")
        return super().read(net, sock, rec)

    def write(self, net, sock, rec):
        self.sched.point(("net", "write"))
        return super().write(net, sock, rec)


def gate_lines():
    """line number of the gate's test `if self._state in (NEW, IDLE):` in httpcore/_sync/http11.py handle_request"""
    import ast
    import os

    import core
    path = os.path.join(core.REPO, "httpcore", "_sync", "http11.py")
    tree = ast.parse(open(path).read())
    for n in ast.walk(tree):
        if isinstance(n, ast.If) and ast.unparse(n.test).startswith("self._state in"):
            return n.lineno          # the gate's test is evaluated when this line runs
    return None


class GateTracker:
    """who passed a connection's ACTIVE gate when, and when did somebody's close() of that connection execute its first statement"""

    def __init__(self):
        self.after_gate = gate_lines()
        self.step = 0
        self.gate = {}           # conn id -> list of (step, thread)
        self.closing = {}        # thread -> conn id whose close() has been entered but whose first statement has not completed yet
        self.close_done = {}     # conn id -> step at which the first statement of a close() had executed
        self.checking = {}       # thread -> conn id whose gate test is about to be evaluated

    def __call__(self, what):
        import threading
        self.step += 1
        me = threading.current_thread().name
        if me in self.closing:
            self.close_done.setdefault(self.closing.pop(me), self.step)
        if me in self.checking:
            self.gate.setdefault(self.checking.pop(me), []).append((self.step, me))      # the gate's test has been evaluated by now
        if what and what[0] == "line" and what[1] == "http11.py":
            if what[2] == "close" and what[4] not in self.close_done:
                self.closing[me] = what[4]
            elif what[2] == "handle_request" and what[3] == self.after_gate:
                self.checking[me] = what[4]


def gen_cfg(rng):
    return {"threads": rng.choice([2, 2, 3, 3, 4]), "max_connections": rng.choice([1, 1, 2, 3]), "max_keepalive": rng.choice([None, 0, 1, 1]),
            "origins": rng.choice([1, 2, 2, 3]), "requests_per_thread": rng.choice([1, 2, 2, 3]), "http2": rng.random() < 0.2,
            "switch_prob": rng.choice([0.05, 0.2, 0.5]), "modes": rng.choice([["read"], ["read", "read", "partial"]]),
            "policies": rng.choice([["default_policy"], ["default_policy", "closing_policy", "long_policy"]]),
            "trace_lines": True, "hot": rng.random() < 0.4, "p_faulty": rng.choice([0.0, 0.0, 0.25]),
            # how the pool reaches the origins, and "HTTP/2 enabled but every server settles for HTTP/1.1" (requests then share a
            # connection while it is being established and are sent back to the pool once it turns out to be HTTP/1.1)
            "kind": rng.choice(["direct", "direct", "direct", "socks5", "tunnel", "forward"]), "h2_offer": rng.random() < 0.35}


def run_one(cfg, seed):
    """-> dict(results per thread, violations, stats)"""
    import httpcore
    rng = random.Random(seed)
    sched = threadsched.Scheduler(seed, switch_prob=cfg["switch_prob"], trace_lines=cfg.get("trace_lines", True), hot=cfg.get("hot", True))
    peers = []
    import scen

    ckind = cfg.get("kind", "direct") if not cfg["http2"] else "direct"
    h2_offer = bool(cfg.get("h2_offer")) and not cfg["http2"] and ckind != "forward"

    def origin_peer(_t=None):
        if cfg["http2"]:
            p = simnet.H2Peer(handler=scen.h2_handler_factory([]))
            p.reqs = {}
        else:
            p = servers.H1Server(policy=getattr(servers, rng.choice(cfg["policies"])))
        peers.append(p)
        return p

    def peer_factory(rec):
        if ckind == "socks5":
            return servers.SocksServer(inner_factory=origin_peer)
        if ckind == "tunnel":
            return servers.ProxyServer(inner_factory=origin_peer)
        if ckind == "forward":
            p = servers.ProxyServer()
            p.forward = origin_peer()
            return p
        return origin_peer()

    net = simnet.Net(PointBehavior(sched, peer_factory))
    orig_begin = net.begin

    def begin(rec):
        import threading
        rec["thread"] = threading.current_thread().name
        return orig_begin(rec)
    net.begin = begin
    kw = dict(max_connections=cfg["max_connections"], max_keepalive_connections=cfg["max_keepalive"], network_backend=simnet.SimBackend(net),
              http2=cfg["http2"] or h2_offer)
    tls = cfg["http2"] or h2_offer or ckind == "tunnel"
    if tls:
        kw["ssl_context"] = simnet.RecordingSSLContext()
    if ckind in ("tunnel", "forward"):
        kw["proxy"] = httpcore.Proxy("http://proxy.example:3128")
    elif ckind == "socks5":
        kw["proxy"] = httpcore.Proxy("socks5://socks.example:1080")
    violations = []
    plans = {}
    for t in range(cfg["threads"]):
        plans[f"T{t}"] = [(f"c{t}x{j}", rng.randrange(cfg["origins"]), rng.choice(cfg["modes"]), rng.choice([None, None, b"B"]))
                          for j in range(cfg["requests_per_thread"])]
    frng = random.Random(seed ^ 0x5EED)       # a stream of its own: stored replays keep their schedules
    faulty = {tok for plan in plans.values() for (tok, _o, _m, _b) in plan if frng.random() < cfg.get("p_faulty", 0.0)} \
        if not cfg["http2"] else set()
    net.behavior.faulty = faulty
    with threadsched.patched_sync(sched):
        pool = httpcore.ConnectionPool(**kw)
        maxc = cfg["max_connections"]
        seen_over = []

        def observer(what):
            n = len(pool._connections)
            if n > maxc and not seen_over:
                seen_over.append(n)
                violations.append(("C08:connection-limit-exceeded", {"connections": n, "max": maxc, "at": repr(what)}))
        sched.observers.append(observer)
        retired_assigned = []       # connections a pass handed to _close_connections while a request was assigned to them
        orig_pass = pool._assign_requests_to_connections

        def traced_pass():
            before = {id(r): r.connection for r in pool._requests}
            closing = orig_pass()
            for conn in closing:
                users = [r for r in pool._requests if r.connection is conn or before.get(id(r)) is conn]
                if users:
                    retired_assigned.append((conn, [r.request.url.target for r in users]))
            return closing
        pool._assign_requests_to_connections = traced_pass
        scheme = "https" if tls else "http"

        def worker(plan):
            def fn():
                out = []
                for tok, origin, mode, body in plan:
                    r = {"tok": tok, "mode": mode}
                    try:
                        with pool.stream("POST" if body else "GET", f"{scheme}://o{origin}.example/{tok}", content=body) as resp:
                            r["status"] = resp.status
                            if mode == "read":
                                r["body"] = b"".join(resp.iter_stream())
                            else:
                                for part in resp.iter_stream():
                                    r["first"] = part
                                    break
                        r["outcome"] = "ok"
                    except threadsched.Deadlock:
                        raise
                    except BaseException as e:  # noqa
                        r["outcome"] = "error:" + type(e).__name__
                        r["exc"] = repr(e)[:200]
                        import traceback
                        r["where"] = [f"{f.filename.rsplit('/', 1)[-1]}:{f.lineno}:{f.name}" for f in traceback.extract_tb(e.__traceback__)][-4:]
                    out.append(r)
                return out
            return fn
        results = sched.run({name: worker(plan) for name, plan in plans.items()})
        sched.observers.clear()
    # ---- judge ------------------------------------------------------------------------------------------------------------------
    if sched.deadlock:
        violations.append(("C08:deadlock", {"blocked": {k: repr(v) for k, v in sched.deadlock.items()},
                                            "pool": repr(pool), "conns": [c.info() for c in pool._connections]}))
    for name, (kind, val) in results.items():
        if kind == "error":
            violations.append(("C08:internal-error", {"thread": name, "exception": repr(val)[:200]}))
        elif kind == "ok":
            for r, (tok, origin, mode, body) in zip(val, plans[name]):
                target = (f"{scheme}://o{origin}.example/{tok}".encode() if ckind == "forward" else b"/" + tok.encode())
                want = b"echo:" + target + b":" + (body or b"")
                if r["outcome"] != "ok" and tok in faulty and r["outcome"] == "error:ReadError":
                    continue            # the injected failure of this very request
                if r["outcome"] != "ok":
                    cls = r["outcome"].split(":")[1]
                    documented = cls in ("ConnectError", "ReadError", "WriteError", "RemoteProtocolError", "LocalProtocolError", "PoolTimeout",
                                         "ConnectionNotAvailable", "ReadTimeout", "WriteTimeout", "ConnectTimeout")
                    violations.append(("C08:request-failed" if documented else "C08:internal-error",
                                       {"thread": name, "tok": tok, "outcome": r["outcome"], "exc": r.get("exc"), "where": r.get("where")}))
                elif mode == "read" and r.get("body") not in (want, want + b":" + b"z" * 3000):
                    violations.append(("C08:wrong-response", {"thread": name, "tok": tok, "got": repr(r.get("body"))[:80]}))
                elif mode != "read" and "first" in r and not (want + b":" + b"z" * 3000).startswith(r["first"]):
                    violations.append(("C08:wrong-response", {"thread": name, "tok": tok, "got": repr(r.get("first"))[:80], "partial": True}))
    if not sched.deadlock:
        try:
            pool.close()
        except BaseException as e:  # noqa
            violations.append(("C08:internal-error", {"thread": "main", "exception": "pool.close(): " + repr(e)[:160]}))
        if net.open_sockets():
            violations.append(("C08:socket-left-open", {"open": net.open_sockets()}))
        if pool._requests:
            violations.append(("C08:request-left-queued", {"n": len(pool._requests)}))
    for cl, d in violations:
        if cl == "C08:request-failed" and d.get("tok"):
            # root cause: had a pass retired (handed to _close_connections) a connection while this request was assigned to it?
            target = b"/" + d["tok"].encode()
            hit = [c for c, targets in retired_assigned if target in targets]
            d["cause"] = "pass-retired-a-connection-assigned-to-this-request" if hit and "closed socket" in (d.get("exc") or "") else "other"
            d["retired_assigned"] = [[t.decode() for t in targets] for _c, targets in retired_assigned][:6]
    if violations:
        tail = [(r.get("thread"), r["op"], r.get("sock"), bytes(r["data"][:30]) if "data" in r else r.get("ret")) for r in net.log][-40:]
        for _c, d in violations:
            d["net_log_tail"] = [repr(x) for x in tail]
    return {"results": {k: (a, b if a == "ok" else repr(b)) for k, (a, b) in results.items()}, "violations": violations,
            "stats": {"points": sched.points, "switches": sched.switches, "sockets": len(net.sockets)}}
