#!/bin/sh
# development aid: run every claimed check with several seeds; print only the summary lines and failures
D="$(cd "$(dirname "$0")/.." && pwd)"
cd "$D"
TIER="${1:-quick}"; shift
SEEDS="${*:-1 2 3}"
for pid in $(python3 -c "import json;print(' '.join(c['property_id'] for c in json.load(open('MANIFEST.json'))['checks']))"); do
  for s in $SEEDS; do
    out=$(VERIF_SEED=$s timeout 3000 bin/check $pid --tier $TIER 2>&1); rc=$?
    echo "$pid seed=$s rc=$rc $(echo "$out" | grep -c '^VIOLATION') violations :: $(echo "$out" | tail -1)"
    if [ $rc -ne 0 ]; then echo "$out" | grep -v '^KNOWN' | tail -5; fi
  done
done
