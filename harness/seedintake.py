"""Development aid: take a sub-agent's seeded change from <src>/<Cxx>/out, confirm it on a scratch worktree of /repo's HEAD (suite passes with
the patch, demo fails with it and passes without it), store it as seeded/<Cxx>-<suffix>/ and run the property's quick check against it.

usage: seedintake.py <srcdir> <suffix> C01 C02 ...   [--extra C09,C12]"""
import json
import os
import shutil
import subprocess
import sys

VERIF = os.path.dirname(os.path.dirname(os.path.abspath(__file__)))
WT = os.environ.get("SEEDINTAKE_WT", "/tmp/seedintake_wt")


def sh(cmd, cwd, env=None, timeout=1800):
    p = subprocess.run(cmd, cwd=cwd, shell=True, stdout=subprocess.PIPE, stderr=subprocess.STDOUT, text=True, env=env, timeout=timeout)
    return p.returncode, p.stdout


def main():
    src, suffix = sys.argv[1], sys.argv[2]
    extra = []
    ids = []
    for a in sys.argv[3:]:
        if a.startswith("--extra="):
            extra = a.split("=", 1)[1].split(",")
        else:
            ids.append(a)
    sh(f"git -C /repo worktree remove --force {WT}", "/")
    rc, o = sh(f"git -C /repo worktree add -f --detach {WT} HEAD", "/")
    assert rc == 0, o
    try:
        for pid in ids:
            out = os.path.join(src, pid, "out")
            patch = os.path.join(out, "patch.diff")
            demo = os.path.join(out, "demo.py")
            if not (os.path.exists(patch) and os.path.exists(demo)):
                print(f"{pid}: deliverables missing")
                continue
            sh("git reset -q --hard HEAD && git clean -fdq httpcore scripts", WT)
            env = dict(os.environ, PYTHONPATH=WT)
            rc0, o0 = sh(f"timeout 120 /venv/bin/python {demo}", WT, env=env)
            rc, o = sh(f"git apply {patch}", WT)
            ported = False
            if rc != 0:
                rc, o = sh(f"patch -p1 --fuzz=3 < {patch}", WT)
                ported = rc == 0
                sh("find . -name '*.orig' -delete; find . -name '*.rej' -delete", WT)
            if rc != 0:
                print(f"{pid}: patch does not apply: {o[-300:]}")
                continue
            rcs, os_ = sh("/venv/bin/python -m pytest -q -p no:cacheprovider --timeout=900 -x 2>&1 | tail -1", WT)
            rc1, o1 = sh(f"timeout 120 /venv/bin/python {demo}", WT, env=env)
            import re as _re
            confirmed = rc0 == 0 and rc1 != 0 and "passed" in os_ and not _re.search(r"\b\d+ (failed|error)", os_)
            print(f"{pid}: demo clean rc={rc0} patched rc={rc1} suite='{os_.strip()}' confirmed={confirmed} ported={ported}")
            if not confirmed:
                print("   clean:", o0[-300:].replace("\n", " | "))
                print("   patched:", o1[-300:].replace("\n", " | "))
                continue
            d = os.path.join(VERIF, "seeded", f"{pid}-{suffix}")
            os.makedirs(d, exist_ok=True)
            if ported:
                shutil.copy(patch, os.path.join(d, "patch_orig.diff"))
                _, diff = sh("git diff", WT)
                open(os.path.join(d, "patch.diff"), "w").write(diff)
            else:
                shutil.copy(patch, os.path.join(d, "patch.diff"))
            shutil.copy(demo, os.path.join(d, "demo.py"))
            if os.path.exists(os.path.join(out, "notes.md")):
                shutil.copy(os.path.join(out, "notes.md"), os.path.join(d, "notes.md"))
            meta = {}
            try:
                meta = json.load(open(os.path.join(out, "meta.json")))
            except Exception:
                pass
            meta.update({"breaks_property": pid, "origin": "independent sub-agent given only the property text and the titles of the existing changes",
                         "suite": os_.strip(), "what_was_run": {"demo_clean_rc": rc0, "demo_patched_rc": rc1}})
            res = {}
            for c in [pid] + [x for x in extra if x != pid]:
                env2 = dict(os.environ, VERIF_REPO=WT)
                rcc, oc = sh(f"bin/check {c}", VERIF, env=env2, timeout=3000)
                lines = [l for l in oc.splitlines() if l.startswith(("VIOLATION", "["))]
                res[c] = {"rc": rcc, "violations": sum(1 for l in lines if l.startswith("VIOLATION")),
                          "no_failing_input_found": any("no-failing-input-found" in l for l in lines), "summary": lines[-1] if lines else oc[-300:]}
            head = subprocess.run("git -C /repo rev-parse --short HEAD", shell=True, capture_output=True, text=True).stdout.strip()
            json.dump({"head": head, "results": res}, open(os.path.join(d, "result.json"), "w"), indent=1)
            json.dump(meta, open(os.path.join(d, "meta.json"), "w"), indent=1)
            v = "CAUGHT" if res[pid]["rc"] == 1 else ("ERROR" if res[pid]["rc"] not in (0, 1) else "MISSED")
            print(f"   -> {pid}-{suffix}: {v} " + " ".join(f"{k}:rc={x['rc']},viol={x['violations']},nfi={int(x['no_failing_input_found'])}" for k, x in res.items()))
    finally:
        sh(f"git -C /repo worktree remove --force {WT}", "/")


main()
