"""development aid: list the distinct failing signatures of the sweeps on the current tree"""
import collections, json, os, sys
sys.path.insert(0, os.path.dirname(os.path.abspath(__file__)))
import core
core.use_repo()
import propbase, sweeprun

class Ctx:
    quick = False
    seed = 0
    def __init__(self):
        import random
        self.rng = random.Random(0); self.known_lines=[]; self.violations=[]; self.broken=[]; self.pid="X"
class Rec(propbase.Rec):
    def __init__(self, ctx):
        super().__init__(ctx, "X"); self.sigs = collections.Counter(); self.first = {}
    def fail(self, clause, sig_extra, payload, cap=2):
        sig = dict({"clause": clause}, **sig_extra)
        key = json.dumps(sig, sort_keys=True)
        self.sigs[key] += 1
        if key not in self.first and "inject" in payload:
            self.first[key] = {"engine": "sweep", "runtime": payload["runtime"], "kind": payload["kind"], "shape": payload["shape"],
                               "inject": payload["inject"], "yield_in_ops": payload["yield_in_ops"]}
        return True
ctx = Ctx(); ctx.quick = (len(sys.argv) > 1 and sys.argv[1] == "quick")
rec = Rec(ctx)
sweeprun.run_sweeps(ctx, rec, "X", ["C05:", "C06:"])
for s, n in sorted(rec.sigs.items()):
    print(n, s, "@@", json.dumps(rec.first.get(s)))
