"""Small helpers shared by the property modules: recording oracle failures, known findings, disagreements."""
from __future__ import annotations

import collections

import core


class Rec:
    def __init__(self, ctx, pid):
        self.ctx, self.pid = ctx, pid
        self.dist = collections.Counter()
        self.distinct = set()
        self.disagreements = []
        self.samples = []
        self.evals = 0

    def fail(self, clause, sig_extra, payload, cap=None):
        import os
        cap = cap if cap is not None else int(os.environ.get("VERIF_FAIL_CAP", "2"))
        ctx = self.ctx
        sig = dict({"clause": clause}, **sig_extra)
        known = core.match_known(self.pid, sig)
        self.dist["oracle-fail:" + clause] += 1
        if known:
            line = f"KNOWN-FINDING: property={self.pid} {known['id']} {known['what']}"
            if line not in ctx.known_lines:
                ctx.known_lines.append(line)
            return False
        if sum(1 for v in ctx.violations if v["clause"] == clause) < cap:
            payload = dict(payload, property=self.pid, oracle_clause=clause, signature=sig)
            path = core.write_replay(ctx, f"fail_{core.digest(payload)}", payload)
            ctx.violations.append({"clause": clause, "replay": path})
        return True

    def disagree(self, family, payload):
        if len(self.disagreements) < 10:
            self.disagreements.append(dict(payload, family=family))
        self.dist["disagree:" + family] += 1

    def finish(self, family, rule, extra=None):
        if self.disagreements:
            self.ctx.broken.append({"kind": "correspondence", "family": family, "first": self.disagreements[:3],
                                    "count_capped": len(self.disagreements)})
        out = {"evaluations": self.evals, "distinct_nontrivial": len(self.distinct), "rule": rule, "samples": self.samples,
               "disagreements": len(self.disagreements), "disagreements_checked": self.evals, "distribution": dict(self.dist)}
        out.update(extra or {})
        return out


def default_replay(ctx, path):
    import json
    p = json.load(open(path))
    print(json.dumps(p, indent=1)[:4000])
    return 1


class HangDetected(BaseException):
    pass


class time_limit:
    """Raise HangDetected in the main thread if the block runs longer than `seconds` (real time); nests inside the check's own alarm."""

    def __init__(self, seconds):
        self.seconds = seconds

    def __enter__(self):
        import signal

        def handler(signum, frame):
            raise HangDetected()
        import time
        self.t0 = time.monotonic()
        self.old_handler = signal.signal(signal.SIGALRM, handler)
        self.old_timer = signal.setitimer(signal.ITIMER_REAL, self.seconds)
        return self

    def __exit__(self, *a):
        import signal
        signal.setitimer(signal.ITIMER_REAL, 0)
        signal.signal(signal.SIGALRM, self.old_handler)
        import time
        remaining = self.old_timer[0]
        if remaining > 0:
            # re-arm the enclosing timer (the check's watchdog) with what is really left of it
            signal.setitimer(signal.ITIMER_REAL, max(remaining - (time.monotonic() - self.t0), 1.0))
        return False
