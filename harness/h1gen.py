"""Structured HTTP/1.1 response generator, segmenters, and the runner that reads a response through the
real httpcore over the simulated network."""
from __future__ import annotations

import core
import simnet

TOKEN = b"abcdefghijklmnopqrstuvwxyzABCDEFGHIJKLMNOPQRSTUVWXYZ0123456789-_.!#$%&'*+^`|~"
VCHAR = bytes(range(0x21, 0x7f))
REASONS = [b"OK", b"Not Found", b"", b"Weird  reason\twith tabs", b"\xe9t\xe9", b"Created", b"x"]


def rb(rng, alphabet, lo, hi):
    return bytes(rng.choice(alphabet) for _ in range(rng.randint(lo, hi)))


def gen_header(rng):
    name = rng.choice([b"X-A", b"x-a", b"Set-Cookie", b"set-cookie", b"Server", b"Date", b"ETag", b"Vary", b"Content-Type",
                       b"Connection-Info", rb(rng, TOKEN, 1, 10)])
    words = [rb(rng, VCHAR + b"\x80\xff", 1, 8) for _ in range(rng.randint(0, 3))]
    value = rng.choice([b" ", b"  ", b"\t", b" \t "]).join(words) if words else b""
    pre = rng.choice([b"", b" ", b"  ", b"\t"])
    post = rng.choice([b"", b"", b" ", b"\t "])
    return name, value, name + b":" + pre + value + post


def gen_response(rng, allow_interim=True, force=None):
    r = {}
    r["method"] = rng.choice([b"GET", b"GET", b"POST", b"HEAD", b"PUT"])
    r["status"] = rng.choice([200, 200, 201, 204, 304, 301, 404, 500, 599, 299, 206])
    r["reason"] = rng.choice(REASONS)
    r["version"] = rng.choice([b"1.1", b"1.1", b"1.1", b"1.0"])
    hs = [gen_header(rng) for _ in range(rng.randint(0, 5))]
    framing = force or rng.choice(["cl", "cl", "chunked", "chunked", "close"])
    body = rb(rng, bytes(range(256)), 0, rng.choice([0, 1, 5, 30, 300, 3000]))
    r["framing"] = framing
    r["body"] = body
    pos = rng.randint(0, len(hs))
    if framing == "cl":
        nm = rng.choice([b"Content-Length", b"content-length", b"CONTENT-LENGTH"])
        v = (b"0" * rng.choice([0, 0, 2])) + str(len(body)).encode()
        hs.insert(pos, (nm, v, nm + b": " + v))
    elif framing == "chunked":
        nm = rng.choice([b"Transfer-Encoding", b"transfer-encoding"])
        v = rng.choice([b"chunked", b"chunked", b"Chunked", b"CHUNKED"])
        hs.insert(pos, (nm, v, nm + b": " + v))
        chunks = []
        i = 0
        while i < len(body):
            n = rng.choice([1, 1, 2, 7, 16, 255, 1000, len(body) - i])
            n = max(1, min(n, len(body) - i))
            chunks.append(body[i:i + n])
            i += n
        r["chunks"] = chunks
        r["trailers"] = [gen_header(rng) for _ in range(rng.choice([0, 0, 0, 1, 2]))]
    if rng.random() < 0.25:
        v = rng.choice([b"close", b"keep-alive", b"Close", b"keep-alive, close"])
        hs.insert(rng.randint(0, len(hs)), (b"Connection", v, b"Connection: " + v))
    r["headers"] = hs
    r["interims"] = []
    if allow_interim and rng.random() < 0.3:
        for _ in range(rng.randint(1, 3)):
            st = rng.choice([100, 102, 103, 199])
            r["interims"].append((st, rng.choice([b"Continue", b"Processing", b"Early Hints", b""]),
                                  [gen_header(rng) for _ in range(rng.randint(0, 2))]))
    return r


def bodyless(r):
    return r["method"] == b"HEAD" or r["status"] in (204, 304)


def encode(r, rng=None):
    out = bytearray()
    for st, reason, hs in r["interims"]:
        out += b"HTTP/1.1 %d" % st + (b" " + reason if reason or (rng and rng.random() < 0.5) else b"") + b"\r\n"
        for _, _, line in hs:
            out += line + b"\r\n"
        out += b"\r\n"
    sl = b"HTTP/" + r["version"] + b" %d" % r["status"]
    if r["reason"] or r.get("space_before_empty_reason"):
        sl += b" " + r["reason"]
    out += sl + b"\r\n"
    for _, _, line in r["headers"]:
        out += line + b"\r\n"
    out += b"\r\n"
    head_len = len(out)
    if not bodyless(r):
        if r["framing"] in ("cl", "close"):
            out += r["body"]
        else:
            for i, c in enumerate(r["chunks"]):
                ext = b""
                if rng and rng.random() < 0.2:
                    ext = rng.choice([b";a=b", b";x", b"; q=\"1\"", b" ", b"\t"])
                sz = (b"%x" if not rng or rng.random() < 0.7 else b"%X") % len(c)
                if rng and rng.random() < 0.2:
                    sz = b"0" * rng.randint(1, 3) + sz
                out += sz + ext + b"\r\n" + c + b"\r\n"
            out += b"0\r\n"
            for _, _, line in r["trailers"]:
                out += line + b"\r\n"
            out += b"\r\n"
    return bytes(out), head_len


def expected(r):
    """Ground truth per the property statement."""
    hs = [(n, v) for n, v, _ in r["headers"]]
    body = b"" if bodyless(r) else r["body"]
    return {"status": r["status"], "reason": r["reason"], "version": b"HTTP/" + r["version"], "headers": hs, "body": body}


def cuts_random(rng, data, nmax=6):
    if len(data) <= 1:
        return [data] if data else []
    k = rng.randint(0, min(nmax, len(data) - 1))
    pts = sorted(set(rng.randrange(1, len(data)) for _ in range(k)))
    return [data[a:b] for a, b in zip([0] + pts, pts + [len(data)])]


def cuts_at(data, pts):
    pts = sorted(set(p for p in pts if 0 < p < len(data)))
    return [data[a:b] for a, b in zip([0] + pts, pts + [len(data)])]


def cuts_bytewise(data):
    return [data[i:i + 1] for i in range(len(data))]


def interesting_points(data):
    """cut positions inside CRLF pairs and right after them"""
    pts = set()
    i = data.find(b"\r\n")
    while i != -1:
        pts.update((i, i + 1, i + 2))
        i = data.find(b"\r\n", i + 1)
    return sorted(pts)


class OpenPeer(simnet.ChunkPeer):
    """After the scripted segments: EOF if eof else the run is stopped (connection stays open)."""

    def __init__(self, chunks, eof=True, alpn=None):
        super().__init__(chunks, alpn)
        self.eof = eof
        self.reads_after_end = 0

    def on_read(self, max_bytes):
        if not self.chunks:
            if self.eof:
                return b""
            self.reads_after_end += 1
            raise simnet.Starved()
        return super().on_read(max_bytes)


def read_response(method, segs, eof=True, runtime="sync", req_headers=None, url="http://example.com/", content=None,
                  body_reads=None):
    """Run one exchange through the real pool.  -> dict(status, reason, version, headers, body, outcome, peer, net)"""
    import httpcore
    peer = OpenPeer(list(segs), eof=eof)
    net = simnet.Net(simnet.Behavior(peer_factory=lambda rec: peer))
    obs = {"status": None, "headers": None, "reason": None, "version": None, "body": b"", "chunks": 0, "outcome": "pending"}

    def on_head(resp):
        obs["status"] = resp.status
        obs["headers"] = list(resp.headers)
        obs["reason"] = resp.extensions.get("reason_phrase")
        obs["version"] = resp.extensions.get("http_version")

    def on_exc(e):
        obs["outcome"] = "starved" if isinstance(e, simnet.Starved) else "error:" + simnet.exc_name(e)
        obs["exc"] = repr(e)[:200]

    if runtime == "sync":
        try:
            with httpcore.ConnectionPool(network_backend=simnet.SimBackend(net)) as pool:
                with pool.stream(method, url, headers=req_headers, content=content) as resp:
                    on_head(resp)
                    for chunk in resp.iter_stream():
                        obs["body"] += chunk
                        obs["chunks"] += 1
                    obs["outcome"] = "complete"
        except BaseException as e:  # noqa
            on_exc(e)
    else:
        async def main():
            try:
                async with httpcore.AsyncConnectionPool(network_backend=simnet.AsyncSimBackend(net)) as pool:
                    async with pool.stream(method, url, headers=req_headers, content=content) as resp:
                        on_head(resp)
                        async for chunk in resp.aiter_stream():
                            obs["body"] += chunk
                            obs["chunks"] += 1
                        obs["outcome"] = "complete"
            except BaseException as e:  # noqa
                on_exc(e)
        simnet.run_async(main, runtime)
    obs["net"] = net
    obs["peer"] = peer
    return obs


def model_line(method, segs, eof=True, upgrade=False):
    flags = ("1" if method == b"HEAD" else "0") + ("1" if method == b"CONNECT" else "0") + ("1" if upgrade else "0")
    return f"h1read {flags} {1 if eof else 0} " + (",".join(core.hexb(s) for s in segs) if segs else "-")


def parse_model(ans):
    d = core.kv(ans)
    out = {"outcome": d["outcome"], "body": core.unhex(d["body"]), "state": d["state"], "residual": core.unhex(d["residual"])}
    if d["head"] == "none":
        out.update(status=None, reason=None, version=None, headers=None)
    else:
        ver, status, reason, hs = d["head"].split("/")
        out.update(status=int(status), reason=core.unhex(reason), version=b"HTTP/" + core.unhex(ver),
                   headers=[] if hs == "-" else [tuple(core.unhex(x) for x in item.split(":")) for item in hs.split(",")])
    return out


def same(impl, model):
    """canonical comparison of an implementation run with the model's answer; None = agree"""
    mo = model["outcome"]
    if mo == "error:out-of-domain":
        return None
    io = impl["outcome"]
    want = {"complete": "complete", "error:protocol": "error:RemoteProtocolError", "pending": "starved"}[mo]
    if io != want:
        return f"outcome impl={io} model={mo}"
    for k in ("status", "reason", "version", "headers"):
        if impl[k] != model[k]:
            return f"{k} impl={impl[k]!r} model={model[k]!r}"
    if impl["body"] != model["body"]:
        return f"body impl={len(impl['body'])}B model={len(model['body'])}B"
    return None
