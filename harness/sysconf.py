"""Conformance of the real async pool to the transition system `Sys` (lean/HttpcoreModel/Sys/Model.lean), by execution.

The explorer of concur.py drives the real pool (direct HTTPS / HTTP/1.1 connections, gated network).  After every scheduling
step, at quiescence, the real system is projected onto Sys's state space - per connection object (status, in the pool?, network
stream open?), per caller (program counter class, request counted by the pool?) - and the Lean driver is asked whether some
sequence of model actions leads from a model state that matched the previous observation to one that matches this one
(breadth-first over `Sys.step`, ghost owners carried by the model).  "none" = the implementation took a step the model cannot
take: the correspondence on which C01/C05/C06/C08's Sys theorems rest is broken, and the observation pair is the replay."""
from __future__ import annotations

import random
import subprocess

import concur
import core
import simnet

STATUS = {"NEW": "n", "ACTIVE": "A", "IDLE": "i", "CLOSED": "z"}
MAXC, MAXT = 6, 5


class ModelSearch:
    def __init__(self):
        self.p = subprocess.Popen([core.DRIVER], stdin=subprocess.PIPE, stdout=subprocess.PIPE, text=True, bufsize=1)

    def reach(self, depth, flags, cands, target):
        """iterative deepening: the shallowest depth at which some model run matches"""
        for d in range(1, depth + 1):
            self.p.stdin.write(f"sysreach {d} {flags} {';'.join(cands)} {target}\n")
            self.p.stdin.flush()
            ans = self.p.stdout.readline().strip()
            if ans == "bad-args":
                return None
            if ans == "budget":
                return "budget"
            if ans not in ("none", ""):
                self.depth_hist[d] = self.depth_hist.get(d, 0) + 1
                return ans.split(";")
        return []

    depth_hist = {}

    def close(self):
        try:
            self.p.kill()
        except Exception:  # noqa
            pass


class ConfExplorer(concur.Explorer):
    """Explorer over https:// origins (so that connections go through TCP and TLS like Sys's), HTTP/1.1 only."""

    def __init__(self, runtime, cfg, rng):
        super().__init__(runtime, cfg, rng)
        self.wrappers = []          # connection objects in order of creation -> Sys connection index
        self.sock_of = {}           # id(wrapper) -> socket id

    def url(self, c):
        # plain http: the connection is established by the TCP connect alone - one observation, two model steps (tcp ok, tls ok:
        # the model's TLS step stands for "whatever remains of the establishment", here nothing)
        return f"{'http' if self.cfg.get('plain') else 'https'}://o{c.origin}.example/{c.token}"

    def make_pool(self):
        import httpcore
        self.net = simnet.Net(simnet.Behavior(peer_factory=self.peer_factory), gated=True)
        kw = dict(max_connections=self.cfg["max_connections"], max_keepalive_connections=self.cfg.get("max_keepalive"),
                  keepalive_expiry=None, http2=False, retries=0, network_backend=simnet.AsyncSimBackend(self.net),
                  ssl_context=simnet.RecordingSSLContext())
        self.pool = httpcore.AsyncConnectionPool(**kw)
        orig = self.pool.create_connection

        def create_connection(origin):
            w = orig(origin)
            self.wrappers.append(w)
            return w
        self.pool.create_connection = create_connection

    async def caller_main(self, c):
        simnet.CUR_CALLER.set(c.idx)
        return await super().caller_main(c)

    # ---- projection --------------------------------------------------------------------------------------------------
    def pool_request_of(self, c):
        target = ("/" + c.token).encode()
        for pr in self.pool._requests:
            if pr.request.url.target == target:
                return pr
        return None

    def observe(self):
        """-> (target string for the driver, human-readable dict)"""
        net, pool = self.net, self.pool
        # sockets of connections: a connect_tcp that completed for caller X belongs to the wrapper X was assigned at the time
        for r in net.log:
            if r["op"] == "connect_tcp" and "sock" in r and r.get("caller") is not None and r["sock"] not in self.sock_of.values():
                c = next((x for x in self.callers if x.idx == r["caller"]), None)
                w = getattr(c, "last_wrapper", None)
                if w is not None and id(w) not in self.sock_of:
                    self.sock_of[id(w)] = r["sock"]
        pend = {}
        for p in net.pending:
            if not p.done and p.rec.get("caller") is not None:
                pend[p.rec["caller"]] = p.rec["op"]
        tasks = []
        nt = min(MAXT, max([x.idx for x in self.callers] + [0]) + 1)
        nc = min(MAXC, len(self.wrappers) + 1)
        for i in range(nt):
            c = next((x for x in self.callers if x.idx == i), None)
            if c is None or c.state == "new":
                tasks.append("n-")
                continue
            pr = self.pool_request_of(c)
            counted = "+" if pr is not None else "-"
            if pr is not None and pr.connection is not None:
                c.last_wrapper = pr.connection
            if c.state == "done":
                tasks.append("d" + counted)
                continue
            w = pr.connection if pr is not None else getattr(c, "last_wrapper", None)
            ci = self.wrappers.index(w) if w in self.wrappers else None
            op = pend.get(i)
            if pr is not None and pr.connection is None:
                tasks.append("q" + counted)
            elif op == "connect_tcp":
                tasks.append(f"t{ci}{counted}")
            elif op == "start_tls":
                tasks.append(f"l{ci}{counted}")
            elif op in ("read", "write") or c.state == "holding":
                tasks.append(f"i{ci}{counted}")
            elif op == "close":
                tasks.append(f"c{ci}{counted}")
            else:
                tasks.append(f"?{ci}{counted}")
        conns = []
        connecting = {int(t[1:-1]) for t in tasks if t[0] in "tl" and t[1:-1].isdigit()}
        for k in range(nc):
            if k >= len(self.wrappers):
                conns.append("a--?")
                continue
            w = self.wrappers[k]
            inpool = "p" if w in pool._connections else "-"
            sock = self.sock_of.get(id(w))
            is_open = "o" if sock is not None and net.sockets[sock].open else "-"
            if w._connection is not None:
                st = STATUS[w._connection._state.name]
            elif w._connect_failed:
                st = "x"
            elif k in connecting:
                st = "c"
            else:
                st = "f"
            conns.append(st + inpool + is_open + "?")
        return ",".join(conns) + "|" + ",".join(tasks)


def pad(state, like):
    """grow a model state to the number of connections / callers of an observation (new ones are absent / not started)"""
    cs, ts = state.split("|")
    lc, lt = like.split("|")
    cs, ts = cs.split(","), ts.split(",")
    cs += ["a--_"] * (len(lc.split(",")) - len(cs))
    ts += ["n-"] * (len(lt.split(",")) - len(ts))
    return ",".join(cs) + "|" + ",".join(ts)


async def conf_schedule(ex, spawn, settle):
    """the random schedule of concur with an observation after every step"""
    rng, cfg = ex.rng, ex.cfg
    search = ex.search
    cands = ["a--_|n-"]
    ex.observations = []
    ex.nonconformance = None
    to_spawn = list(range(min(cfg["callers"], MAXT)))
    p_fault, p_cancel = cfg.get("p_fault", 0.0), cfg.get("p_cancel", 0.0)
    for step in range(cfg.get("max_steps", 80)):
        opts = []
        if to_spawn:
            opts += ["spawn"] * 3
        ch = ex.choices()
        if ch:
            opts += ["ok"] * 6
        pend = [p for p in ex.net.pending if not p.done and p.rec["op"] != "close"]
        if pend and p_fault:
            opts += ["fault"] * 2
        running = [c for c in ex.callers if c.state in ("running", "holding") and not c.cancel_requested]
        if running and p_cancel:
            opts += ["cancel"] * 2
        holding = [c for c in ex.callers if c.state == "holding"]
        if holding:
            opts += ["release"] * 2
        if not opts:
            break
        a = rng.choice(opts)
        flags = "---"
        if a == "spawn":
            i = to_spawn.pop(0)
            c = concur.Caller(i, rng.randrange(cfg["origins"]), hold=rng.random() < 0.3)
            ex.callers.append(c)
            spawn(c)
            ex.trace.append(("spawn", i, c.origin, c.hold))
        elif a == "ok":
            _k, p = rng.choice(ch)
            ex.trace.append(("ok", p.rec["op"], p.rec.get("sock"), p.rec.get("caller")))
            p.event.set()
        elif a == "fault":
            p = rng.choice(pend)
            op = p.rec["op"]
            name = {"connect_tcp": "ConnectError", "start_tls": "ConnectError", "read": "ReadError", "write": "WriteError"}.get(op, "ReadError")
            p.inject = concur.mk_exc(name)
            ex.trace.append(("fault", op, p.rec.get("sock"), p.rec.get("caller")))
            p.event.set()
            flags = "f--"
        elif a == "cancel":
            c = rng.choice(running)
            c.cancel_requested = True
            ex.trace.append(("cancel", c.idx))
            if c.scope is not None:
                c.scope.cancel()
            flags = "-c-"
        elif a == "release":
            c = rng.choice(holding)
            ex.trace.append(("release", c.idx))
            c.release.set()
        await settle()
        obs = ex.observe()
        ex.observations.append((ex.trace[-1], obs))
        if "?" in obs.split("|")[1]:
            ex.nonconformance = {"kind": "unclassified-caller-position", "observation": obs, "step": list(map(str, ex.trace[-1]))}
            break
        # a fault / cancel may also have happened earlier and still be unwinding: allow both once they occurred
        if any(t[0] == "fault" for t in ex.trace):
            flags = "f" + flags[1:]
        if any(t[0] == "cancel" for t in ex.trace):
            flags = flags[0] + "c" + flags[2]
        cands = [pad(x, obs) for x in cands]
        new = search.reach(cfg.get("depth", 9), flags, cands, obs)
        if new is None:
            ex.nonconformance = {"kind": "driver-rejected-encoding", "observation": obs}
            break
        if new == "budget":
            ex.search_abandoned = True        # the model search hit its state budget: no verdict for the rest of this schedule
            break
        if not new:
            ex.nonconformance = {"kind": "no-model-run-matches", "previous_model_states": cands[:5], "observation": obs,
                                 "step": list(map(str, ex.trace[-1])), "flags": flags}
            break
        cands = new
    ex.final_cands = cands
    # let everything finish so that the runtime can shut down
    ex.net.gated = False
    for p in list(ex.net.pending):
        p.event.set()
    for c in ex.callers:
        if c.state == "holding":
            c.release.set()
    await settle()


def run_one(runtime, cfg, seed, search):
    rng = random.Random(seed)
    ex = ConfExplorer(runtime, cfg, rng)
    ex.trio_seed = seed
    ex.search = search
    return concur.run_schedule(ex, conf_schedule)


def gen_cfg(rng):
    return {"max_connections": rng.choice([1, 1, 2, 3]), "origins": rng.choice([1, 2, 3]), "callers": rng.randint(2, 5),
            "max_keepalive": rng.choice([None, None, 0, 1]), "p_fault": rng.choice([0.0, 0.15]), "p_cancel": rng.choice([0.0, 0.0, 0.1]),
            "p_conn_close": rng.choice([0.0, 0.3]), "http2": False, "plain": rng.random() < 0.35}


def run_conformance(ctx, rec, n_quick, n_thorough):
    """the tie of the transition system Sys to the real pool: see the module docstring"""
    rng = ctx.rng
    n = n_quick if ctx.quick else n_thorough
    search = ModelSearch()
    try:
        for i in range(n):
            cfg = gen_cfg(rng)
            seed = rng.randrange(1 << 30)
            rt = ("asyncio", "trio")[i % 2]
            ex = run_one(rt, cfg, seed, search)
            rec.evals += 1
            rec.distinct.add(("sysconf", rt, tuple(map(str, ex.trace))))
            rec.dist["sys-conformance:schedules"] += 1
            rec.dist["sys-conformance:observations-matched"] += len(ex.observations) - (1 if ex.nonconformance else 0)
            if getattr(ex, "search_abandoned", False):
                rec.dist["sys-conformance:search-budget-exhausted"] += 1
            if ex.nonconformance:
                rec.disagree("Sys conformance", {"runtime": rt, "cfg": cfg, "seed": seed, "nonconformance": ex.nonconformance,
                                                 "last_observations": [[list(map(str, t)), o] for t, o in ex.observations[-5:]],
                                                 "how_to_replay": "sysconf.run_one(runtime, cfg, seed, sysconf.ModelSearch())"})
        for d, k in sorted(ModelSearch.depth_hist.items()):
            rec.dist[f"sys-conformance:model-steps-per-observation:{d}"] = k
    finally:
        search.close()
