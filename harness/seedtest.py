"""Development aid (not a registered check): confirm a seeded change and run checks against it.

usage: seedtest.py <worktree> <variant a|b> [--confirm] [--checks C20,C05] [--tier quick]
 --confirm : demo passes on clean tree, full suite passes with patch, demo fails with patch
Checks run with VERIF_REPO=<worktree> (patch applied there), then the worktree is restored.
"""
import argparse
import os
import subprocess
import sys

VERIF = os.path.dirname(os.path.dirname(os.path.abspath(__file__)))


def sh(cmd, cwd, env=None, timeout=1800):
    p = subprocess.run(cmd, cwd=cwd, shell=True, stdout=subprocess.PIPE, stderr=subprocess.STDOUT, text=True, env=env, timeout=timeout)
    return p.returncode, p.stdout


def demo_cmd(wt, v):
    demo = f"MUTANT/demo_{v}.py"
    src = open(os.path.join(wt, demo)).read()
    if "def test_" in src and "__main__" not in src:
        return f"/venv/bin/python -m pytest -q -p no:cacheprovider {demo}"
    return f"/venv/bin/python {demo}"


def main():
    ap = argparse.ArgumentParser()
    ap.add_argument("wt")
    ap.add_argument("variant")
    ap.add_argument("--confirm", action="store_true")
    ap.add_argument("--checks", default="")
    ap.add_argument("--tier", default="quick")
    ap.add_argument("--patch", default=None)
    ap.add_argument("--keep", default=None, help="store under /verif/seeded/<keep>/")
    ap.add_argument("--prop", default=None)
    ap.add_argument("--needs", default="")
    a = ap.parse_args()
    wt, v = a.wt, a.variant
    patch = a.patch or os.path.join(wt, "MUTANT", f"patch_{v}.diff")
    sh("git checkout -- httpcore scripts", wt)
    sh("git checkout -q --detach $(git -C /repo rev-parse HEAD)", wt)   # follow fix: commits made in /repo
    out = {}
    try:
        if a.confirm:
            rc, o = sh(demo_cmd(wt, v), wt)
            out["demo_clean_rc"] = rc
        rc, o = sh(f"git apply {patch}", wt)
        if rc != 0:
            print("patch does not apply:", o)
            return 2
        if a.confirm:
            rc, o = sh("/venv/bin/python -m pytest -q -p no:cacheprovider -x tests 2>&1 | tail -3", wt)
            out["suite_tail"] = o.strip().splitlines()[-1] if o.strip() else ""
            rc, o = sh(demo_cmd(wt, v), wt)
            out["demo_patched_rc"] = rc
        for pid in [c for c in a.checks.split(",") if c]:
            env = dict(os.environ, VERIF_REPO=wt)
            rc, o = sh(f"bin/check {pid} --tier {a.tier}", VERIF, env=env)
            lines = [l for l in o.splitlines() if l.startswith(("VIOLATION", "KNOWN-FINDING", "["))]
            out[f"check_{pid}"] = {"rc": rc, "lines": lines[:6]}
            if rc == 2:
                out[f"check_{pid}"]["tail"] = o[-1500:]
    finally:
        sh("git checkout -- httpcore scripts", wt)
        # restore Generated.lean for the real repo
        sh("/venv/bin/python harness/extract.py /repo", VERIF)
    import json
    print(json.dumps(out, indent=1))
    if a.keep:
        import shutil
        d = os.path.join(VERIF, "seeded", a.keep)
        os.makedirs(d, exist_ok=True)
        shutil.copy(patch, os.path.join(d, "patch.diff"))
        shutil.copy(os.path.join(wt, "MUTANT", f"demo_{v}.py"), os.path.join(d, "demo.py"))
        notes = os.path.join(wt, "MUTANT", f"notes_{v}.md")
        if os.path.exists(notes):
            shutil.copy(notes, os.path.join(d, "notes.md"))
        meta_path = os.path.join(d, "meta.json")
        meta = json.load(open(meta_path)) if os.path.exists(meta_path) else {}
        meta.update({"breaks_property": a.prop or a.keep.split("-")[0], "needs_to_manifest": a.needs or meta.get("needs_to_manifest", "see notes.md"),
                     "origin": "written by an independent sub-agent given only the property text and a scratch worktree",
                     "demo_cmd": "cd <worktree with patch applied> && " + demo_cmd(wt, v).replace("MUTANT/demo_%s.py" % v, "<this dir>/demo.py")})
        ran = meta.setdefault("what_was_run", {})
        for k, val in out.items():
            ran[k] = val
        json.dump(meta, open(meta_path, "w"), indent=1, sort_keys=True)


if __name__ == "__main__":
    sys.exit(main())
