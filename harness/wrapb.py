"""Tie B for the translated wrapper predicates (Gen.wrap*): the real wrapper objects, put into every combination of their flags and
of the answers of the connection inside them (a stub), against the Lean driver - exhaustively (3 x 1024 states x 4 predicates)."""
from __future__ import annotations

import itertools

import httpcore
from httpcore._async.connection import AsyncHTTPConnection
from httpcore._async.http_proxy import AsyncTunnelHTTPConnection
from httpcore._async.socks_proxy import AsyncSocks5Connection


class Inner:
    def __init__(self, a, e, i, c):
        self.a, self.e, self.i, self.c = a, e, i, c

    def is_available(self):
        return self.a

    def has_expired(self):
        return self.e

    def is_idle(self):
        return self.i

    def is_closed(self):
        return self.c


def make(cls, hi, cf, co, h1, h2, hs, ia, ie, ii, ic):
    scheme = b"https" if hs else b"http"
    origin = httpcore.Origin(scheme, b"o.example", 443 if hs else 80)
    inner = Inner(ia, ie, ii, ic)
    if cls == "Direct":
        w = AsyncHTTPConnection(origin=origin, http1=h1, http2=h2)
        w._connection = inner if hi else None
        w._connect_failed = cf
    elif cls == "Socks":
        w = AsyncSocks5Connection(proxy_origin=httpcore.Origin(b"socks5", b"p.example", 1080), remote_origin=origin, http1=h1, http2=h2)
        w._connection = inner if hi else None
        w._connect_failed = cf
    else:
        if not hi:
            return None          # a tunnel always holds the connection to the proxy
        w = AsyncTunnelHTTPConnection(proxy_origin=httpcore.Origin(b"http", b"p.example", 8080), remote_origin=origin, http1=h1, http2=h2)
        w._connection = inner
        w._connected = co
    return w


def run(rec, driver):
    cases, lines = [], []
    for cls in ("Direct", "Tunnel", "Socks"):
        for bits in itertools.product([False, True], repeat=10):
            w = make(cls, *bits)
            if w is None:
                continue
            cases.append((cls, bits, w))
            lines.append(f"wrap {cls} " + "".join("1" if b else "0" for b in bits))
    answers = driver.run(lines) if driver else [None] * len(cases)
    for (cls, bits, w), ans in zip(cases, answers):
        impl = "".join("1" if x else "0" for x in (w.is_available(), w.has_expired(), w.is_idle(), w.is_closed()))
        rec.evals += 1
        rec.distinct.add(("wrap", cls, bits))
        rec.dist["wrapper-predicates:" + cls] += 1
        if ans is not None and ans != impl:
            rec.disagree("wrapper-predicates", {"class": cls, "flags(hasInner,connectFailed,connected,http1,http2,https,innerAvail,innerExpired,innerIdle,innerClosed)": bits,
                                                "impl(avail,expired,idle,closed)": impl, "model": ans})
