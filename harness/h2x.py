"""Interactive exploration of one multiplexed HTTP/2 connection (C12 / C13 / C14 and the HTTP/2 part of C02):
the harness plays the scheduler *and* the server.  The server is the real h2 library in the server role
(an independent decoder and flow-control/stream-limit enforcer of what the client wrote); every server frame is
an explicit choice: response HEADERS / DATA pieces (optionally padded) / END_STREAM per stream in any
interleaving, RST_STREAM, SETTINGS (MAX_CONCURRENT_STREAMS up and down, INITIAL_WINDOW_SIZE, MAX_FRAME_SIZE),
PING, WINDOW_UPDATE (stream or connection, any increment), GOAWAY with any last-stream-id, EOF; and every
client network operation completes only when chosen.  Oracles are the property statements themselves."""
from __future__ import annotations

import random
import re

import concur
import simnet


def pattern(token: bytes, n: int) -> bytes:
    unit = token + b"|"
    return (unit * (n // len(unit) + 1))[:n]


class Stream:
    def __init__(self, sid, path):
        self.sid, self.path = sid, path
        m = re.match(rb"^/(c\d+)\?up=(\d+)&down=(\d+)$", path or b"")
        self.token = m.group(1) if m else None
        self.up = int(m.group(2)) if m else 0
        self.down = int(m.group(3)) if m else 0
        self.body = bytearray()
        self.ended = False          # client ended the stream
        self.reset_by_client = False
        self.stage = 0              # 0 nothing sent, 1 headers sent, 2 ended, 3 reset by server
        self.sent = 0
        self.sent_events = []       # what the server put on this stream, in order: r | d<n> | e | x<code>
        self.zero_frames = 0
        self.unacked = 0            # flow-controlled bytes received and not yet credited back (manual credit mode)


def _lenient_zero_length_data():
    """RFC 7540 6.9: an empty DATA frame may be sent whatever the window; h2's receiving side rejects it when the
    window is negative (after INITIAL_WINDOW_SIZE was lowered). The harness's *server* instances accept it."""
    import h2.windows
    if getattr(h2.windows.WindowManager, "_verif_patched", False):
        return
    orig = h2.windows.WindowManager.window_consumed

    def window_consumed(self, size):
        if size == 0 and getattr(self, "_verif_lenient", False):
            return
        return orig(self, size)
    h2.windows.WindowManager.window_consumed = window_consumed
    h2.windows.WindowManager._verif_patched = True


class ManualH2Peer(simnet.H2Peer):
    def __init__(self, ex, idx, settings, segmenter, auto_credit):
        super().__init__(handler=self._handle, segmenter=segmenter, settings=settings)
        _lenient_zero_length_data()
        self.conn._inbound_flow_control_window_manager._verif_lenient = True
        self.ex, self.idx = ex, idx
        self.streams = {}
        self.auto_credit = auto_credit
        self.conn_unacked = 0
        self.acked_limit = 1                 # the client holds to one stream until it has seen our SETTINGS
        self.pending_limits = []             # MAX_CONCURRENT_STREAMS values sent and not yet acknowledged
        import h2.settings
        self.pending_limits.append((settings or {}).get(h2.settings.SettingCodes.MAX_CONCURRENT_STREAMS, 100))
        self.advertised = self.pending_limits[0]
        self.goaway_last = None
        self.goaway_seen_open = None
        self.server_closed = False
        self.max_open_seen = 0

    def _start(self):
        """one SETTINGS frame carrying the configured initial values"""
        if not self.started:
            import h2.settings
            self.started = True
            MCS = h2.settings.SettingCodes.MAX_CONCURRENT_STREAMS
            settings = dict(self.settings or {})
            if MCS in settings:
                self.conn.local_settings = h2.settings.Settings(client=False, initial_values={MCS: settings.pop(MCS)})
            self.conn.initiate_connection()
            # window and frame sizes bind the server only once acknowledged, and h2 as a server is exact only with one
            # SETTINGS frame outstanding: they follow in a second frame when the first has been acknowledged
            self.deferred_settings = settings
            self.flush()

    # ---- inbound ------------------------------------------------------------------------------------
    def _handle(self, peer, ev):
        import h2.events
        ex = self.ex
        if isinstance(ev, h2.events.RequestReceived):
            hs = dict(ev.headers)
            st = Stream(ev.stream_id, hs.get(b":path"))
            st.method = hs.get(b":method")
            self.streams[ev.stream_id] = st
            ex.heads.append((self.idx, ev.stream_id, st.token, st.method))
            n_open = self.conn.open_inbound_streams
            self.max_open_seen = max(self.max_open_seen, n_open)
            bound = min(self.acked_limit, 100)
            if n_open > bound:
                ex.violations.append(("C12:limit-exceeded", {"peer": self.idx, "open": n_open, "limit_in_force": bound,
                                                              "stream": ev.stream_id, "pending_limits": list(self.pending_limits),
                                                              "states": {k: str(v.state_machine.state) for k, v in self.conn.streams.items()}}))
        elif isinstance(ev, h2.events.DataReceived):
            st = self.streams[ev.stream_id]
            st.body += ev.data
            if self.auto_credit:
                self.conn.acknowledge_received_data(ev.flow_controlled_length, ev.stream_id)
            else:
                st.unacked += ev.flow_controlled_length
                self.conn_unacked += ev.flow_controlled_length
        elif isinstance(ev, h2.events.StreamEnded):
            st = self.streams[ev.stream_id]
            st.ended = True
            if st.token is not None and bytes(st.body) != pattern(st.token, st.up):
                ex.violations.append(("C13:upload-corrupt", {"peer": self.idx, "stream": ev.stream_id, "got_len": len(st.body),
                                                              "want_len": st.up}))
        elif isinstance(ev, h2.events.StreamReset):
            st = self.streams.get(ev.stream_id)
            if st is not None:
                st.reset_by_client = True
        elif isinstance(ev, h2.events.PingAckReceived):
            self.pings_outstanding = max(0, getattr(self, "pings_outstanding", 0) - 1)
        elif isinstance(ev, h2.events.SettingsAcknowledged):
            if self.pending_limits:
                v = self.pending_limits.pop(0)
                if v is not None:
                    self.acked_limit = v
            if not self.pending_limits and getattr(self, "deferred_settings", None):
                self.conn.update_settings(self.deferred_settings)
                self.deferred_settings = None
                self.pending_limits.append(None)
                self.initial_window_lowered = True

    def on_write(self, data):
        """feed the server one frame at a time, so that the oracles in `_handle` see the state at that frame"""
        import h2.exceptions
        self.written += data
        self._start()
        self.inbuf += data
        while True:
            if not self.preface_done:
                if len(self.inbuf) < 24:
                    break
                piece, self.inbuf = self.inbuf[:24], self.inbuf[24:]
                self.preface_done = True
            else:
                if len(self.inbuf) < 9:
                    break
                n = int.from_bytes(self.inbuf[:3], "big") + 9
                if len(self.inbuf) < n:
                    break
                piece, self.inbuf = self.inbuf[:n], self.inbuf[n:]
            for st in self.conn.streams.values():
                st._inbound_window_manager._verif_lenient = True
            try:
                events = self.conn.receive_data(bytes(piece))
            except h2.exceptions.ProtocolError as e:
                self.errors.append(repr(e))
                self.flush()
                return
            for ev in events:
                self.events.append(ev)
                self._handle(self, ev)
        self.flush()

    inbuf = b""
    preface_done = False

    @property
    def goaway_delivered(self):
        """the client has read every byte up to and including our GOAWAY"""
        return self.goaway_mark is not None and self.delivered >= self.goaway_mark

    goaway_mark = None
    goaway_top = 0
    delivered = 0
    queued = 0

    def flush(self):
        data = self.conn.data_to_send()
        if data:
            for s in self.segmenter(data):
                if s:
                    self.out.append(s)
                    self.queued += len(s)

    def push_raw(self, data):
        for s in self.segmenter(data):
            if s:
                self.out.append(s)
                self.queued += len(s)

    def on_read(self, max_bytes):
        self._start()
        if not self.out:
            if self.server_closed:
                return b""
            raise simnet.Starved()
        if self.ex.cfg.get("coalesce"):
            # like TCP: one read returns everything the server has written so far
            c = b"".join(self.out)
            del self.out[:]
        else:
            c = self.out.pop(0)
        if len(c) > max_bytes:
            self.out.insert(0, c[max_bytes:])
            c = c[:max_bytes]
        self.delivered += len(c)
        return c

    def readable(self):
        return bool(self.out) or self.server_closed

    def alive(self):
        import h2.connection
        return (self.started and not self.server_closed and not self.closed and
                self.conn.state_machine.state != h2.connection.ConnectionState.CLOSED)

    # ---- outbound actions -----------------------------------------------------------------------------
    def actions(self, cfg):
        """the server frames that may be sent now: list of tuples"""
        if not self.alive():
            return []
        if cfg.get("hold_until_ack") and getattr(self, "pings_outstanding", 0) > 0:
            return []        # a server that measures the round trip: nothing more is sent until its PING has been acknowledged
        out = []
        if self.goaway_last is not None and cfg.get("goaway_closes", True) and False:
            return out
        for sid, st in self.streams.items():
            if st.reset_by_client or st.stage in (2, 3):
                continue
            refused = self.goaway_last is not None and sid > self.goaway_last
            if refused:
                continue
            if st.stage == 0:
                if st.ended or cfg.get("early_response"):
                    out.append(("hdr", self.idx, sid))
            elif st.stage == 1:
                if st.sent < st.down:
                    win = min(self.conn.local_flow_control_window(sid), self.conn.max_outbound_frame_size)
                    if win > 0:
                        out.append(("data", self.idx, sid))
                    if cfg.get("empty_data") and st.zero_frames < 2:
                        out.append(("zdata", self.idx, sid))      # a zero-length DATA frame in mid-body (legal: RFC 7540 6.1)
                elif st.ended:
                    out.append(("end", self.idx, sid))
        if not self.auto_credit:
            for sid, st in self.streams.items():
                if st.unacked and not st.reset_by_client and st.stage != 3 and not (st.ended and st.stage == 2):
                    out.append(("credit", self.idx, sid))
            if self.conn_unacked:
                out.append(("credit", self.idx, 0))
        return out

    def do(self, act, rng, cfg):
        import h2.settings
        kind = act[0]
        if kind == "hdr":
            st = self.streams[act[2]]
            self.conn.send_headers(st.sid, [(":status", "200"), ("x-token", (st.token or b"?").decode()), ("x-up", str(len(st.body)))])
            st.stage = 1
            st.sent_events.append("r")
        elif kind == "data":
            st = self.streams[act[2]]
            win = min(self.conn.local_flow_control_window(st.sid), self.conn.max_outbound_frame_size)
            pad = None
            if cfg.get("padding") and win > 2 and rng.random() < 0.5:
                pad = rng.randrange(0, min(255, win - 2) + 1)
                win -= pad + 1
            want = pattern(st.token or b"?", st.down)
            n = min(st.down - st.sent, win, act[3] if len(act) > 3 else rng.choice([1, 7, 1000, 16384, 1 << 24]))
            # END_STREAM may ride on the last DATA frame instead of a frame of its own (drawn only when the profile asks for it, so
            # that stored replays keep their schedules)
            last = cfg.get("end_with_data") and st.ended and st.sent + n == st.down and n > 0 and rng.random() < 0.6
            self.conn.send_data(st.sid, want[st.sent:st.sent + n], pad_length=pad, end_stream=bool(last))
            st.sent += n
            st.sent_events.append(f"d{n}")
            if last:
                st.stage = 2
                st.sent_events.append("e")
        elif kind == "zdata":
            st = self.streams[act[2]]
            self.conn.send_data(st.sid, b"", end_stream=False)
            st.zero_frames += 1
            st.sent_events.append("d0")
        elif kind == "end":
            st = self.streams[act[2]]
            self.conn.end_stream(st.sid)
            st.stage = 2
            st.sent_events.append("e")
        elif kind == "rst":
            st = self.streams[act[2]]
            self.conn.reset_stream(st.sid, error_code=0 if len(act) < 4 else act[3])
            st.stage = 3
            st.rst_code = True
            st.sent_events.append(f"x{act[3] if len(act) > 3 else 0}")
        elif kind == "maxstreams":
            self.conn.update_settings({h2.settings.SettingCodes.MAX_CONCURRENT_STREAMS: act[2]})
            self.pending_limits.append(act[2])
        elif kind == "settings":
            self.conn.update_settings({act[2]: act[3]})
            self.pending_limits.append(None)
        elif kind == "ping":
            self.conn.ping(b"12345678")
            self.pings_outstanding = getattr(self, "pings_outstanding", 0) + 1
        elif kind == "credit":
            sid = act[2]
            if sid == 0:
                n = min(self.conn_unacked, act[3] if len(act) > 3 else rng.choice([1, 100, 16384, 1 << 30]))
                self.conn.increment_flow_control_window(n)
                self.conn_unacked -= n
            else:
                st = self.streams[sid]
                n = min(st.unacked, act[3] if len(act) > 3 else rng.choice([1, 100, 16384, 1 << 30]))
                try:
                    self.conn.increment_flow_control_window(n, stream_id=sid)
                except Exception:  # noqa  stream already closed on our side
                    pass
                st.unacked -= n
        elif kind == "goaway":
            import hyperframe.frame
            self.flush()
            last = act[2]
            f = hyperframe.frame.GoAwayFrame(stream_id=0, last_stream_id=last, error_code=0)
            self.push_raw(f.serialize())
            self.goaway_last = last
            self.goaway_mark = self.queued
            self.goaway_top = max(list(self.streams) + [0])
        elif kind == "eof":
            self.server_closed = True
        elif kind == "badframe":
            # bytes no HTTP/2 end point may send: the client's h2 raises a ProtocolError subclass from receive_data()
            self.flush()
            raw = [b"\x00\x00\x04\x08\x00\x00\x00\x00\x00" + b"\x00\x00\x00\x00",     # WINDOW_UPDATE with increment 0
                   b"\x00\x00\x01\x00\x00\x00\x00\x00\x00" + b"x",                      # DATA on stream 0
                   b"\x00\x00\x01\x01\x04\x00\x00\x00\x02" + b"\x88",                   # a response on a stream nobody opened
                   b"\x00\x00\x05\x04\x00\x00\x00\x00\x00" + b"12345"][act[2]]          # SETTINGS whose length is not a multiple of 6
            self.push_raw(bytes(raw))
            self.sent_garbage = True
        self.flush()


class Caller(concur.Caller):
    def __init__(self, idx, up, down, mode, chunks):
        super().__init__(idx, 0)
        self.up, self.down, self.mode, self.nchunks = up, down, mode, chunks     # mode: read | hold | abandon
        self.tokenb = self.token.encode()
        self.got = b""
        self.headers = None
        self.faulted = False
        self.body_iterations = 0
        self.spawn_step = 0
        self.goaways_before_spawn = None


class H2Explorer(concur.Explorer):
    def __init__(self, runtime, cfg, rng):
        cfg = dict(cfg, http2=True)
        cfg.setdefault("max_connections", 2)
        super().__init__(runtime, cfg, rng)
        self.faulted_callers = set()
        self.heads = []              # (peer idx, stream id, token, method) for every request head a server decoded
        self.h2conns = {}

    def peer_factory(self, rec):
        cfg, rng = self.cfg, self.rng
        import h2.settings
        settings = {}
        if cfg.get("init_max_streams") is not None:
            settings[h2.settings.SettingCodes.MAX_CONCURRENT_STREAMS] = cfg["init_max_streams"]
        if cfg.get("init_window") is not None:
            settings[h2.settings.SettingCodes.INITIAL_WINDOW_SIZE] = cfg["init_window"]
        if cfg.get("init_max_frame") is not None:
            settings[h2.settings.SettingCodes.MAX_FRAME_SIZE] = cfg["init_max_frame"]
        seg_seed = rng.randrange(1 << 30)
        seg_mode = cfg.get("segment", "whole")

        def segmenter(data, r=random.Random(seg_seed)):
            if seg_mode == "whole" or len(data) > 200000:
                return [data]
            out, i = [], 0
            while i < len(data):
                n = r.choice([1, 2, 5, 9, 17, 64, 1000]) if seg_mode == "fine" else r.choice([9, 100, 5000, 70000])
                out.append(data[i:i + n])
                i += n
            return out
        p = ManualH2Peer(self, len(self.peers), settings, segmenter, auto_credit=cfg.get("auto_credit", True))
        p.host = rec.get("host")
        self.peers.append(p)
        return p

    def url(self, c):
        return f"https://o{c.origin}.example/{c.token}?up={c.up}&down={c.down}"

    async def caller_main(self, c):
        import anyio
        c.state = "running"
        simnet.CUR_CALLER.set(c.idx)

        async def body_gen():
            data = pattern(c.tokenb, c.up)
            k = max(1, c.nchunks)
            step = max(1, -(-len(data) // k))
            for i in range(0, len(data), step):
                yield data[i:i + step]
            if not data:
                yield b""

        class ReBody:
            """a body that can be iterated again on a transparent re-send"""
            def __aiter__(self):
                c.body_iterations += 1
                return body_gen()

        def body_iter():
            return body_gen() if self.cfg.get("one_shot_body") else ReBody()
        headers = []
        content = None
        if c.up or c.nchunks:
            content = body_iter() if c.nchunks else pattern(c.tokenb, c.up)
            if c.nchunks:
                headers = [("Transfer-Encoding", "chunked")] if c.nchunks % 2 else [("Content-Length", str(c.up))]
        try:
            with anyio.CancelScope() as scope:
                c.scope = scope
                async with self.pool.stream("POST" if content is not None else "GET", self.url(c), headers=headers, content=content) as resp:
                    c.status = resp.status
                    c.headers = resp.headers
                    c.http_version = resp.extensions.get("http_version")
                    if c.mode in ("hold", "abandon"):
                        c.state = "holding"
                        c.release = anyio.Event()
                        await c.release.wait()
                        c.state = "running"
                    if c.mode == "partial":
                        # take what the first read of the body yields, then close the response without draining it
                        async for part in resp.aiter_stream():
                            c.got += part
                            break
                    elif c.mode != "abandon":
                        async for part in resp.aiter_stream():
                            c.got += part
                        c.body = c.got
                c.outcome = "ok" if c.mode not in ("abandon", "partial") else "abandoned"
            if scope.cancelled_caught:
                c.outcome = "cancelled"
        except BaseException as e:  # noqa
            c.outcome = "error:" + simnet.exc_name(e)
            c.exc = repr(e)[:200]
            if type(e).__name__ in ("CancelledError", "Cancelled"):
                if not getattr(c, "cancel_requested", False) and not getattr(self, "tearing_down", False):
                    # nobody cancelled this caller: a cancellation that belongs to another request has been handed to it
                    c.outcome = "error:Other"
                    c.exc = "spurious " + repr(e)[:160]
                    c.state = "done"
                    return
                c.outcome = "cancelled"
                c.state = "done"
                raise
        finally:
            c.state = "done"

    # ---- oracles ----------------------------------------------------------------------------------------
    def check_quiescent(self, where):
        # C04: the pool's list and the open network streams stay within the connection limit, GOAWAY or not
        maxc = self.cfg["max_connections"]
        conns = self.pool.connections
        if len(conns) > maxc:
            self.violations.append(("C04:limit-exceeded", {"where": where, "conns": [c.info() for c in conns]}))
        closes = sum(1 for p in self.net.pending if not p.done and p.rec["op"] == "close")
        if len(self.net.open_sockets()) > maxc + closes:
            self.violations.append(("C04:streams-exceed-limit", {"where": where, "open": self.net.open_sockets(), "max": maxc,
                                                                   "conns": [c.info() for c in conns]}))
        for p in self.peers:
            if p.errors and not getattr(p, "errors_reported", False):
                p.errors_reported = True
                cls = "C13:flow-control-violated" if any("FlowControl" in e or "FrameTooLarge" in e or "frame size" in e.lower()
                                                         for e in p.errors) else \
                      "C12:limit-exceeded" if any("TooManyStreams" in e for e in p.errors) else "C12:server-protocol-error"
                self.violations.append((cls, {"peer": p.idx, "errors": p.errors[:3], "where": where}))
        for c in self.callers:
            if c.got and not pattern(c.tokenb, c.down).startswith(c.got):
                self.violations.append(("C12:foreign-data", {"caller": c.idx, "got": repr(c.got[:60])}))
                c.got = b""

    def request_peers(self, c):
        return [(pi, sid) for (pi, sid, tok, _m) in self.heads if tok == c.tokenb]

    def check_final_h2(self, disturbed):
        """all callers done. `disturbed`: set of caller idx that the schedule itself gave a reason to fail"""
        for c in self.callers:
            want = pattern(c.tokenb, c.down)
            if c.outcome == "ok":
                hs = dict(c.headers or [])
                if c.body != want and want.startswith(c.body or b"") and hs.get(b"x-token") == c.tokenb:
                    self.violations.append(("C02:short-body-accepted", {"caller": c.idx, "got_len": len(c.body or b""), "want_len": len(want),
                                                                        "trace_tail": [t for t in self.trace if t[0] in ("rst", "eof", "goaway")][-3:]}))
                elif c.body != want or hs.get(b"x-token") != c.tokenb or c.status != 200:
                    self.violations.append(("C12:wrong-response", {"caller": c.idx, "got_len": len(c.body or b""), "want_len": len(want),
                                                                   "x-token": repr(hs.get(b"x-token"))}))
                if hs.get(b"x-up") is not None and c.status == 200 and not self.cfg.get("early_response") and int(hs[b"x-up"]) != c.up:
                    self.violations.append(("C13:upload-incomplete", {"caller": c.idx, "server_saw": int(hs[b"x-up"]), "want": c.up}))
            elif c.outcome not in ("abandoned", "cancelled") and c.idx not in disturbed:
                clause = "C12:failed-instead-of-waiting" if "TooManyStreams" in getattr(c, "exc", "") else "C13:transfer-failed" if ("LocalProtocolError" in c.outcome or "flow" in getattr(c, "exc", "").lower()) else "C12:undisturbed-request-failed"
                self.violations.append((clause, {"caller": c.idx, "outcome": c.outcome, "exc": getattr(c, "exc", None)}))
        # C14: request heads per call
        for c in self.callers:
            seen = self.request_peers(c)
            peers_seen = []
            for pi, sid in seen:
                if (pi, sid) not in peers_seen:
                    peers_seen.append((pi, sid))
            unrefused = []
            for pi, sid in peers_seen:
                p = self.peers[pi]
                refused = p.goaway_last is not None and sid > p.goaway_last and p.streams[sid].stage == 0
                if not refused:
                    unrefused.append((pi, sid))
            if len(unrefused) > 1:
                self.violations.append(("C14:request-sent-twice", {"caller": c.idx, "where": peers_seen, "outcome": c.outcome,
                                                                  "goaways": [(p.idx, p.goaway_last) for p in self.peers]}))
            terminated = "ConnectionTerminated" in getattr(c, "exc", "") and (c.outcome or "").startswith("error:RemoteProtocolError")
            if terminated and peers_seen and not unrefused:
                lasts = [self.peers[pi].goaway_last for pi, _ in peers_seen]
                self.violations.append(("C14:refused-request-not-resent", {"caller": c.idx, "where": peers_seen, "last_stream_ids": lasts,
                                                                          "last_zero": lasts[-1] == 0,
                                                                          "upload_finished": self.peers[peers_seen[-1][0]].streams[peers_seen[-1][1]].ended}))
            if terminated and c.idx not in self.faulted_callers:
                for pi, sid in unrefused:
                    p = self.peers[pi]
                    if p.goaway_last is not None and sid <= p.goaway_last and p.streams[sid].stage != 3 and not p.server_closed:
                        self.violations.append(("C14:earlier-stream-not-finished", {"caller": c.idx, "peer": pi, "stream": sid,
                                                                                   "last_stream_id": p.goaway_last}))
            if terminated and c.goaways_before_spawn and not peers_seen and \
                    not any(t[0] == "goaway" for t in self.trace[c.spawn_step:]):
                self.violations.append(("C14:request-assigned-to-terminated-connection", {"caller": c.idx, "where": peers_seen}))
            if (c.outcome or "") == "error:ConnectionNotAvailable":
                self.violations.append(("C14:connection-not-available-leaked", {"caller": c.idx, "where": peers_seen}))
        # C05: every caller is done (whatever happened to its connection): the pool counts no request any more
        if self.pool._requests:
            self.violations.append(("C05:request-still-counted", {"repr": repr(self.pool), "n": len(self.pool._requests),
                                                                  "outcomes": [(c.idx, c.mode, c.outcome, getattr(c, "exc", None)) for c in self.callers]}))
        # credit conservation on every client connection whose responses were all consumed
        for conn in list(self.pool.connections):
            h2c = getattr(conn, "_connection", None)
            st = getattr(h2c, "_h2_state", None)
            if st is None:
                continue
            # every caller is done, so every response has been closed: no stream may still be registered on the connection (a stream
            # that stays registered keeps its slot and keeps the connection from ever going idle)
            if getattr(h2c, "_events", None):
                self.violations.append(("C12:stream-slot-leaked", {"streams_still_registered": sorted(h2c._events), "state": h2c._state.name}))
            wm = st._inbound_flow_control_window_manager
            sock = h2c._network_stream.get_extra_info("sim_socket")
            peer = sock.peer
            if peer.errors or peer.goaway_last is not None or peer.server_closed:
                continue
            if wm.current_window_size + wm._bytes_processed != wm.max_window_size and not peer.out:
                self.violations.append(("C13:credit-not-returned", {"peer": peer.idx, "window": wm.current_window_size,
                                                                    "processed": wm._bytes_processed, "max": wm.max_window_size}))


# ---------------------------------------------------------------------------------------------------------
# the schedule
# ---------------------------------------------------------------------------------------------------------

def gen_caller(rng, cfg, i):
    up = rng.choice(cfg.get("ups", [0, 0, 5, 300]))
    down = rng.choice(cfg.get("downs", [0, 10, 3000]))
    modes = ["read"] * 5 + ["hold"] * 2 + (["abandon"] if cfg.get("abandon") else []) + (["partial"] * 3 if cfg.get("partial") else [])
    chunks = rng.choice([0, 0, 1, 2, 3, 4]) if up else rng.choice([0, 0, 0, 1])
    c = Caller(i, up, down, rng.choice(modes), chunks)
    if cfg.get("origins", 1) > 1:
        c.origin = rng.randrange(cfg["origins"])
    return c


async def schedule(ex, spawn, settle):
    rng, cfg = ex.rng, ex.cfg
    import h2.settings
    to_spawn = list(range(cfg["callers"]))
    disturbed = set()
    ex.disturbed = disturbed
    ex.lowered = False
    ex.window_shrunk = False
    steps = 0

    def server_choices():
        out = []
        for p in ex.peers:
            out += p.actions(cfg)
        return out

    def mark_conn_disturbed(p):
        for (pi, sid, tok, _m) in ex.heads:
            if pi == p.idx:
                disturbed.update(c.idx for c in ex.callers if c.tokenb == tok)
        # requests assigned to this connection that have not been decoded by the server yet
        for c in ex.callers:
            if c.state != "done":
                disturbed.add(c.idx)

    if cfg.get("spawn_all_first"):
        while to_spawn:
            i = to_spawn.pop(0)
            c = gen_caller(rng, cfg, i)
            ex.callers.append(c)
            spawn(c)
            ex.trace.append(("spawn", i, c.up, c.down, c.mode, c.nchunks))
        await settle()
    empty_writes = 0
    released = 0
    import time as real_time
    t0 = real_time.monotonic()
    wall_limit = cfg.get("wall_limit", 30.0)
    while steps < cfg.get("max_steps", 200):
        steps += 1
        opts = []
        if to_spawn:
            opts += ["spawn"] * 4
        ch = ex.choices()
        if ch:
            opts += ["ok"] * 8
        sc = server_choices()
        if sc:
            opts += ["server"] * 8
        live = [p for p in ex.peers if p.alive()]
        if live and cfg.get("p_settings"):
            opts += ["maxstreams"] * max(1, int(10 * cfg["p_settings"]))
        if live and cfg.get("p_winsettings"):
            opts += ["winsettings"] * max(1, int(10 * cfg["p_winsettings"]))
        if live and cfg.get("p_ping") and rng.random() < cfg["p_ping"]:
            opts += ["ping"]
        rstable = [(p.idx, sid) for p in live for sid, st in p.streams.items() if st.stage in (0, 1) and not st.reset_by_client]
        if rstable and cfg.get("p_rst") and rng.random() < cfg["p_rst"]:
            opts += ["rst"]
        if live and cfg.get("p_goaway") and rng.random() < cfg["p_goaway"]:
            opts += ["goaway"]
        if live and cfg.get("p_eof") and rng.random() < cfg["p_eof"]:
            opts += ["eof"]
        if live and cfg.get("p_badframe") and rng.random() < cfg["p_badframe"] and not any(getattr(p, "sent_garbage", False) for p in live):
            opts += ["badframe"]
        pend = [p for p in ex.net.pending if not p.done and p.rec["op"] in ("read", "write")]
        if pend and cfg.get("p_fault") and rng.random() < cfg["p_fault"]:
            opts += ["fault"]
        writing = {p.rec.get("caller") for p in ex.net.pending if not p.done and p.rec["op"] == "write"}
        running = [c for c in ex.callers if c.state in ("running", "holding") and not c.cancel_requested and
                   (cfg.get("cancel_phase", "response") == "any" or (getattr(c, "status", None) is not None and c.idx not in writing))]
        if running and cfg.get("p_cancel") and rng.random() < cfg["p_cancel"]:
            opts += ["cancel"] * 2
        # callers parked in a network write in the response phase (flow-control credit, SETTINGS acknowledgement): rare moments, aimed at
        # only when the profile asks for it
        wr_running = [c for c in running if c.idx in writing and getattr(c, "status", None) is not None] \
            if cfg.get("p_cancel_writer") and sum(1 for t in ex.trace if t[0] == "cancel" and t[2] == "scope-in-write") < cfg.get("max_cancel_writer", 99) else []
        if wr_running and rng.random() < cfg["p_cancel_writer"]:
            opts += ["cancel_writer"] * 4
        holding = [c for c in ex.callers if c.state == "holding"]
        if holding:
            opts += ["release"] * 2
        if not opts:
            break
        a = rng.choice(opts)
        if a == "spawn":
            i = to_spawn.pop(0)
            c = gen_caller(rng, cfg, i)
            c.goaways_before_spawn = all(p.goaway_last is None or p.goaway_delivered for p in ex.peers) and \
                any(p.goaway_last is not None for p in ex.peers)
            c.spawn_step = len(ex.trace)
            ex.callers.append(c)
            spawn(c)
            ex.trace.append(("spawn", i, c.up, c.down, c.mode, c.nchunks))
        elif a == "ok":
            _k, p = rng.choice(ch)
            ex.trace.append(("ok", p.rec["op"], p.rec.get("sock")))
            p.event.set()
        elif a == "server":
            act = rng.choice(sc)
            peer = ex.peers[act[1]]
            ex.trace.append(act)
            peer.do(act, rng, cfg)
            if act[0] in ("hdr", "end") and cfg.get("ping_with_frames") and rng.random() < cfg["ping_with_frames"]:
                # a round-trip probe sent along with response frames (same segment when reads coalesce)
                ex.trace.append(("ping", peer.idx))
                peer.do(("ping", peer.idx), rng, cfg)
            if act[0] == "hdr" and cfg.get("badframe_after_hdr") and rng.random() < cfg["badframe_after_hdr"] and \
                    not getattr(peer, "sent_garbage", False):
                # the response head of one stream, then bytes h2 rejects: whoever holds that response closes it on a connection h2 gave up
                bact = ("badframe", peer.idx, rng.randrange(4))
                ex.trace.append(bact)
                peer.do(bact, rng, cfg)
                mark_conn_disturbed(peer)
        elif a == "rst":
            pi, sid = rng.choice(rstable)
            peer = ex.peers[pi]
            st = peer.streams[sid]
            disturbed.update(c.idx for c in ex.callers if c.tokenb == st.token)
            act = ("rst", pi, sid, rng.choice([0, 2, 7, 8, 11]))
            ex.trace.append(act)
            peer.do(act, rng, cfg)
        elif a == "maxstreams":
            peer = rng.choice(live)
            if peer.pending_limits:
                continue            # one SETTINGS frame outstanding at a time (h2's server side is exact only then)
            v = rng.choice(cfg.get("max_streams_values", [1, 2, 3, 5, 100, 200]))
            n_open = peer.conn.open_inbound_streams
            if v < peer.advertised:
                if not cfg.get("allow_lower", True):
                    continue
                ex.lowered = True
            peer.advertised = v
            act = ("maxstreams", peer.idx, v)
            ex.trace.append(act)
            peer.do(act, rng, cfg)
        elif a == "winsettings":
            peer = rng.choice(live)
            if peer.pending_limits:
                continue
            code, vals = rng.choice([(h2.settings.SettingCodes.INITIAL_WINDOW_SIZE, cfg.get("window_values", [0, 1, 100, 65535, 200000])),
                                     (h2.settings.SettingCodes.MAX_FRAME_SIZE, [16384, 20000, 70000])])
            v = rng.choice(vals)
            if code == h2.settings.SettingCodes.INITIAL_WINDOW_SIZE and v < peer.conn.local_settings.initial_window_size:
                if not cfg.get("allow_window_shrink", True):
                    continue
                ex.window_shrunk = True
            act = ("settings", peer.idx, int(code), v)
            ex.trace.append(act)
            peer.do(("settings", peer.idx, code, v), rng, cfg)
        elif a == "ping":
            peer = rng.choice(live)
            ex.trace.append(("ping", peer.idx))
            peer.do(("ping", peer.idx), rng, cfg)
        elif a == "goaway":
            peer = rng.choice(live)
            if peer.goaway_last is not None:
                continue
            sids = sorted(peer.streams)
            answered = max([sid for sid, st in peer.streams.items() if st.stage != 0] + [0])    # a server does not disown what it answered
            last = rng.choice([v for v in [0] + sids + [s - 2 for s in sids if s >= 3] + [(sids[-1] + 2) if sids else 1] if v >= answered])
            act = ("goaway", peer.idx, last)
            ex.trace.append(act)
            peer.do(act, rng, cfg)
            mark_conn_disturbed(peer)
        elif a == "badframe":
            peer = rng.choice(live)
            act = ("badframe", peer.idx, rng.randrange(4))
            ex.trace.append(act)
            peer.do(act, rng, cfg)
            mark_conn_disturbed(peer)
        elif a == "eof":
            peer = rng.choice(live)
            ex.trace.append(("eof", peer.idx))
            peer.do(("eof", peer.idx), rng, cfg)
            mark_conn_disturbed(peer)
        elif a == "fault":
            p = rng.choice(pend)
            op = p.rec["op"]
            name = rng.choice({"read": ["ReadError", "ReadTimeout"], "write": ["WriteError", "WriteTimeout"]}[op])
            p.inject = concur.mk_exc(name)
            ex.trace.append(("fault", op, p.rec.get("sock"), name))
            for c in ex.callers:
                if c.state != "done":
                    disturbed.add(c.idx)
                    ex.faulted_callers.add(c.idx)
            p.event.set()
        elif a == "cancel":
            c = rng.choice(running)
            c.cancel_requested = True
            ex.trace.append(("cancel", c.idx, "scope"))
            if c.scope is not None:
                c.scope.cancel()
        elif a == "cancel_writer":
            c = rng.choice(wr_running)
            c.cancel_requested = True
            ex.trace.append(("cancel", c.idx, "scope-in-write"))
            if c.scope is not None:
                c.scope.cancel()
        elif a == "release":
            c = rng.choice(holding)
            ex.trace.append(("release", c.idx))
            if c.mode == "abandon":
                for p in ex.peers:
                    p.abandoned_data = True
            c.release.set()
        await settle()
        ex.check_quiescent(len(ex.trace))
        if not to_spawn and all(c.state == "done" for c in ex.callers):
            break
    # ---- fair drain: the server answers everything and returns all credit; every client operation completes ----
    ex.inconclusive = False
    for drain_i in range(cfg.get("drain_steps", 30000)):
        progressed = False
        if real_time.monotonic() - t0 > wall_limit:
            ex.inconclusive = True          # real-time budget of one schedule: no verdict on completion
            ex.wall_limited = True
            ex.parked_at_wall_limit = [p.rec["op"] for p in ex.net.pending if not p.done]
            ex.drain_steps_at_wall_limit = drain_i
            break
        for c in ex.callers:
            if c.state == "holding":
                if c.mode == "abandon":
                    for p in ex.peers:
                        p.abandoned_data = True
                c.release.set()
                progressed = True
        sc = server_choices()
        if sc:
            act = sc[0]
            if act[0] == "data":
                act = act + (1 << 24,)
            if act[0] == "credit":
                act = act + (1 << 30,)
            ex.peers[act[1]].do(act, rng, dict(cfg, padding=False))
            progressed = True
        ch = ex.choices()
        if ch:
            p = ch[0][1]
            # a client that answers nothing but empty writes while the server's bytes lie unread is not waiting for the network at all:
            # on a real socket (where an empty write returns at once) it would spin
            if p.rec["op"] == "write" and not (p.rec.get("data") or b"") and not sc and any(pp.out for pp in ex.peers):
                empty_writes += 1
            else:
                empty_writes = 0
            if empty_writes >= 60:
                ex.violations.append(("C13:busy-wait", {"callers": [(c.idx, c.state, c.up, c.down) for c in ex.callers if c.state != "done"],
                                                        "what": "60 empty writes in a row while the server's frames lie unread and nobody reads"}))
                break
            if cfg.get("fault_at") == released and p.rec["op"] in ("read", "write", "connect_tcp", "start_tls"):
                name = {"read": "ReadError", "write": "WriteError", "connect_tcp": "ConnectError", "start_tls": "ConnectError"}[p.rec["op"]]
                if cfg.get("fault_timeout"):
                    name = name.replace("Error", "Timeout")
                p.inject = concur.mk_exc(name)
                ex.trace.append(("fault", p.rec["op"], p.rec.get("sock"), name))
                for c in ex.callers:
                    if c.state != "done":
                        disturbed.add(c.idx)
                        ex.faulted_callers.add(c.idx)
            released += 1
            p.event.set()
            progressed = True
        elif not sc and any((not st.ended) and st.stage == 0 and not st.reset_by_client and no_window(p, st) for p in ex.peers if p.alive()
                            for st in p.streams.values()):
            # fairness: a server that left a stream without any window (as the server itself counts it: everything it received has
            # been credited and still the client may not send a byte) must reopen it eventually.  A client that does not use the
            # window it has is not rescued.
            for p in ex.peers:
                if p.alive() and not p.pending_limits and p.conn.local_settings.initial_window_size < 65535:
                    act = ("settings", p.idx, h2.settings.SettingCodes.INITIAL_WINDOW_SIZE, 65535)
                    ex.trace.append(("settings", p.idx, 4, 65535))
                    p.do(act, rng, cfg)
                    progressed = True
        elif to_spawn and not sc:
            i = to_spawn.pop(0)
            c = gen_caller(rng, cfg, i)
            ex.callers.append(c)
            spawn(c)
            ex.trace.append(("spawn", i, c.up, c.down, c.mode, c.nchunks))
            progressed = True
        await settle()
        ex.check_quiescent("drain")
        if not progressed:
            break
    else:
        ex.inconclusive = True          # step budget exhausted while still making progress: no verdict on completion
    stuck = [c for c in ex.callers if c.state != "done"]
    if stuck and ex.inconclusive:
        pass
    elif stuck:
        waiting_flow = any(p.rec["op"] == "read" for p in ex.net.pending if not p.done)
        ex.violations.append(("C12:wedged", {"callers": [(c.idx, c.state, c.up, c.down) for c in stuck], "snapshot": ex.snapshot(),
                                             "reader_parked_in_read": waiting_flow,
                                             "server_streams": [(p.idx, sid, s.stage, s.ended, s.sent, s.down, len(s.body), s.up)
                                                                for p in ex.peers for sid, s in p.streams.items()],
                                             "server_windows": [(p.idx, p.conn.outbound_flow_control_window) for p in ex.peers if p.started]}))
    else:
        ex.check_final_h2(disturbed)
    ex.stuck = stuck
    ex.net.gated = False
    if not stuck and not ex.inconclusive:
        await ex.pool.aclose()
        await settle()


def no_window(p, st):
    try:
        return p.conn.remote_flow_control_window(st.sid) <= 0
    except Exception:  # noqa  (stream unknown to / closed on the server)
        return False


def run_one(runtime, cfg, seed):
    rng = random.Random(seed)
    ex = H2Explorer(runtime, cfg, rng)
    ex.trio_seed = seed
    return concur.run_schedule(ex, schedule)


def signature_of(clause, detail, cfg, ex):
    sig = {}
    kinds = {t[0] for t in ex.trace}
    if clause == "C12:limit-exceeded":
        sig["trigger"] = "max-streams-lowered" if ex.lowered else "cancel" if "cancel" in kinds else "none"
    if clause == "C12:wedged":
        sig["trigger"] = ("max-streams-lowered" if ex.lowered else
                          "window-shrunk" if ex.window_shrunk else
                          "cancel" if "cancel" in kinds else "none")
    if clause == "C14:refused-request-not-resent":
        sig["last_stream_id"] = "0" if detail.get("last_zero") else "nonzero"
        sig["upload_finished"] = bool(detail.get("upload_finished"))
    if clause in ("C13:transfer-failed", "C12:undisturbed-request-failed", "C12:failed-instead-of-waiting"):
        sig["trigger"] = ("max-streams-lowered" if ex.lowered else "window-shrunk" if ex.window_shrunk else
                          "cancel" if "cancel" in kinds else "none")
        sig["outcome"] = detail.get("outcome")
    return sig


def corpus(ctx, pid):
    """stored replays of known findings for this property (run first, once per check run, so their lines are deterministic)"""
    import core
    out = []
    key = "_h2corpus_done_" + pid
    if not getattr(ctx, key, False):
        setattr(ctx, key, True)
        for k in core.load_known():
            ra = k.get("replay_args")
            if k["property"] == pid and ra and ra.get("engine") == "h2x":
                out.append((ra["runtime"], ra["cfg"], ra["seed"]))
    return out


def explore(ctx, rec, pid, profile, n_quick, n_thorough, want_prefixes, runtimes=("asyncio", "trio"), gen=None):
    import core
    rng = ctx.rng
    n = n_quick if ctx.quick else n_thorough
    if ctx.broken and ctx.quick:
        n *= 5          # a proof obligation or a tie no longer checks: this is the search for a failing input - look harder
    stored = corpus(ctx, pid)
    for i in range(len(stored) + n):
        if i < len(stored):
            rt, cfg, seed = stored[i]
            rec.dist[f"{pid}:corpus"] += 1
        else:
            cfg = dict(profile)
            if gen:
                cfg.update(gen(rng))
            cfg.setdefault("callers", rng.randint(2, 6))
            seed = rng.randrange(1 << 30)
            rt = runtimes[i % len(runtimes)]
        ex = run_one(rt, cfg, seed)
        rec.evals += 1
        rec.distinct.add((rt, tuple(map(str, ex.trace))))
        rec.dist[f"{pid}:schedules:{rt}"] += 1
        rec.dist[f"{pid}:steps"] += len(ex.trace)
        if ex.inconclusive:
            rec.dist[f"{pid}:inconclusive({'wall' if getattr(ex, 'wall_limited', False) else 'step'} budget)"] += 1
        for t in ex.trace:
            rec.dist[f"{pid}:act:{t[0]}"] += 1
        for c in ex.callers:
            rec.dist[f"{pid}:outcome:{c.outcome}"] += 1
        rec.dist[f"{pid}:max-open-streams:{max([p.max_open_seen for p in ex.peers] + [0])}"] += 1
        for clause, detail in ex.violations:
            if not clause.startswith(tuple(want_prefixes)):
                rec.dist["other-property:" + clause] += 1
                continue
            sig = signature_of(clause, detail, cfg, ex)
            rec.fail(clause, sig, {"runtime": rt, "cfg": cfg, "seed": seed, "trace": [list(map(str, t)) for t in ex.trace][-80:],
                                   "detail": detail, "how_to_replay": "h2x.run_one(runtime, cfg, seed)"})
        if len(rec.samples) < 4 and len(ex.trace) > 15:
            rec.samples.append({"runtime": rt, "cfg": cfg, "trace_head": [list(map(str, t)) for t in ex.trace][:16],
                                "outcomes": [c.outcome for c in ex.callers]})
