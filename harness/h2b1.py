"""Lock-step correspondences between the HTTP/2 model functions (lean/HttpcoreModel/H2.lean) and the implementation:
 - Slots: `_max_streams_semaphore` / `_max_streams` of a real AsyncHTTP2Connection driven op by op (asyncio);
 - sendData: the DATA frame sizes a real upload produces against a scripted schedule of WINDOW_UPDATE / SETTINGS batches;
 - Win: h2's WindowManager (the dependency whose behaviour the credit theorem is about)."""
from __future__ import annotations

import simnet


# ------------------------------------------------------------------------------------------------------------
# stream slots
# ------------------------------------------------------------------------------------------------------------

def gen_slot_ops(rng):
    n0 = rng.choice([1, 2, 3, 5, 100, 250])
    ops = ["o", f"s{n0}", "c"]          # what the first, real request does: take the slot, read the server's SETTINGS, finish
    held, blocked = 0, False
    for _ in range(rng.randint(3, 25)):
        r = rng.random()
        if r < 0.3 and not blocked:
            ops.append("s" + str(rng.choice([0, 1, 2, 3, 4, 5, 7, 99, 100, 101, 300])))
        elif r < 0.7:
            ops.append("o")
        else:
            ops.append("c")
        # the generator does not know the model's state: 'c' with nothing held and 's' while blocked are filtered at run time
    return ops


def real_acquire_loop():
    """the acquire loop of handle_async_request, taken from the current source text and compiled as a coroutine function of its own
    (it cannot be called separately in the class)"""
    import ast
    import os
    import textwrap

    import core
    path = os.path.join(core.REPO, "httpcore", "_async", "http2.py")
    tree = ast.parse(open(path).read())
    for cls in tree.body:
        if isinstance(cls, ast.ClassDef) and cls.name == "AsyncHTTP2Connection":
            for fn in cls.body:
                if isinstance(fn, ast.AsyncFunctionDef) and fn.name == "handle_async_request":
                    for n in ast.walk(fn):
                        if isinstance(n, ast.While) and "self._max_streams_semaphore.acquire()" in ast.unparse(n.body[0]):
                            src = "async def _verif_acquire(self):\n" + textwrap.indent(ast.unparse(n), "    ")
                            ns = {}
                            exec(compile(src, "<acquire loop of handle_async_request>", "exec"), ns)
                            return ns["_verif_acquire"]
                    # 1.0.7 shape: a single acquire statement
                    src = "async def _verif_acquire(self):\n    await self._max_streams_semaphore.acquire()"
                    ns = {}
                    exec(src, ns)
                    return ns["_verif_acquire"]
    raise RuntimeError("acquire loop not found")


def run_slots_impl(ops):
    """-> list of state strings in the model's format (one per op actually applied), and the ops applied"""
    import asyncio

    import h2.events
    import h2.settings

    import httpcore
    from httpcore._async.http2 import AsyncHTTP2Connection

    out, applied = [], []

    async def main():
        import scen
        peer = simnet.H2Peer(handler=scen.h2_handler_factory([]),
                             settings={h2.settings.SettingCodes.MAX_CONCURRENT_STREAMS: int(ops[1][1:])})
        peer.reqs = {}
        # one SETTINGS frame with the chosen limit
        orig_start = peer._start

        def start():
            if not peer.started:
                peer.started = True
                peer.conn.local_settings = h2.settings.Settings(client=False, initial_values=dict(peer.settings))
                peer.conn.initiate_connection()
                peer.flush()
        peer._start = start
        net = simnet.Net(simnet.Behavior(peer_factory=lambda rec: peer))
        backend = simnet.AsyncSimBackend(net)
        stream = await backend.connect_tcp("o.example", 443)
        conn = AsyncHTTP2Connection(origin=httpcore.Origin(b"https", b"o.example", 443), stream=stream)
        resp = await conn.handle_async_request(httpcore.Request("GET", "https://o.example/x", headers=[("Host", "o.example")]))
        await resp.aread()
        await resp.aclose()
        held = []
        next_sid = [1001]

        async def settle():
            for _ in range(250):
                await asyncio.sleep(0)

        def state(prefix=""):
            sem = conn._max_streams_semaphore._anyio_semaphore.value
            return f"{prefix}sem={sem} held={len(held)} max={conn._max_streams} debt={conn._max_streams_debt}"
        for op in ops[:3]:
            applied.append(op)
        # states after the three bootstrap ops are not observable one by one; report only the last
        out.append(state())
        acquire_loop = real_acquire_loop()
        for op in ops[3:]:
            if op.startswith("s"):
                n = int(op[1:])
                ev = h2.events.RemoteSettingsChanged()
                old = conn._max_streams
                ev.changed_settings = {h2.settings.SettingCodes.MAX_CONCURRENT_STREAMS:
                                       h2.settings.ChangedSetting(h2.settings.SettingCodes.MAX_CONCURRENT_STREAMS, old, n)}
                t = asyncio.ensure_future(conn._receive_remote_settings_change(ev))
                await settle()
                applied.append(op)
                if not t.done():
                    t.cancel()
                    await settle()
                    out.append("BLOCKED " + state())      # the reader must never wait for the semaphore
                elif t.exception() is not None:
                    out.append(f"ERROR {type(t.exception()).__name__}: {t.exception()} " + state())
                    return
                else:
                    out.append(state())
            elif op == "o":
                t = asyncio.ensure_future(acquire_loop(conn))
                await settle()
                applied.append(op)
                if t.done():
                    sid = next_sid[0]
                    next_sid[0] += 2
                    conn._events[sid] = []
                    held.append(sid)
                    out.append(state())
                else:
                    t.cancel()
                    await settle()
                    out.append(state("wait "))
            elif op == "c":
                if not held:
                    continue
                sid = held.pop(0)
                conn._state = httpcore._async.http2.HTTPConnectionState.ACTIVE
                try:
                    await conn._response_closed(sid)
                except Exception as e:  # noqa  (e.g. the semaphore released more often than acquired)
                    applied.append(op)
                    out.append(f"ERROR {type(e).__name__}: {e} " + state())
                    return
                await settle()
                applied.append(op)
                out.append(state())

    asyncio.run(main())
    return out, applied


# ------------------------------------------------------------------------------------------------------------
# send loop
# ------------------------------------------------------------------------------------------------------------

def gen_send_case(rng):
    length = rng.choice([0, 1, 100, 16384, 16385, 40000, 65535, 65536, 70000, 100000, 200000])
    batches = []
    iw = 65535
    for _ in range(rng.randint(0, 14)):
        b = []
        for _ in range(rng.choice([0, 1, 1, 1, 2, 3])):
            k = rng.choice(["sw", "sw", "cw", "cw", "mf", "iw"])
            if k == "sw":
                b.append(("sw", rng.choice([1, 10, 1000, 16384, 70000])))
            elif k == "cw":
                b.append(("cw", rng.choice([1, 10, 1000, 16384, 70000])))
            elif k == "mf":
                b.append(("mf", rng.choice([16384, 16385, 20000, 70000])))
            else:
                new = rng.choice([0, 1, 100, 20000, 65535, 100000, 300000])
                b.append(("iw", new - iw))
                iw = new
        batches.append(b)
    return {"len": length, "batches": batches}


def send_model_line(case):
    # batch 0 is the server's initial SETTINGS frame (defaults: no change)
    sched = ["-"] + ["+".join(f"{k}={v}" for k, v in b) if b else "-" for b in case["batches"]]
    return f"h2send 65535 65535 16384 {'/'.join(sched)} {case['len']}"


def run_send_impl(case):
    """-> (chunk sizes, left) as observed by an h2 server"""
    import h2.events
    import h2.settings

    import httpcore
    sizes = []
    state = {"batches": list(case["batches"]), "iw": 65535, "ended": False, "first": True}

    def handler(peer, ev):
        if isinstance(ev, h2.events.DataReceived):
            if ev.flow_controlled_length:
                sizes.append(ev.flow_controlled_length)
        elif isinstance(ev, h2.events.StreamEnded):
            state["ended"] = True
            peer.conn.send_headers(ev.stream_id, [(":status", "200")], end_stream=True)

    peer = simnet.H2Peer(handler=handler)
    import h2x
    h2x._lenient_zero_length_data()
    peer.conn._inbound_flow_control_window_manager._verif_lenient = True

    def on_read(max_bytes):
        peer._start()
        for st in peer.conn.streams.values():
            st._inbound_window_manager._verif_lenient = True
        if not peer.out and not state["ended"]:
            if not state["batches"]:
                raise simnet.Starved()
            b = state["batches"].pop(0)
            for k, v in b:
                if k == "sw":
                    try:
                        peer.conn.increment_flow_control_window(v, stream_id=1)
                    except Exception:  # noqa
                        raise simnet.Starved()
                elif k == "cw":
                    peer.conn.increment_flow_control_window(v)
                elif k == "mf":
                    peer.conn.update_settings({h2.settings.SettingCodes.MAX_FRAME_SIZE: v})
                else:
                    state["iw"] += v
                    peer.conn.update_settings({h2.settings.SettingCodes.INITIAL_WINDOW_SIZE: state["iw"]})
            if not b:
                peer.conn.ping(b"12345678")
            data = peer.conn.data_to_send()
            peer.out.append(data)
        if not peer.out:
            raise simnet.Starved()
        return peer.out.pop(0)
    peer.on_read = on_read
    net = simnet.Net(simnet.Behavior(peer_factory=lambda rec: peer))
    outcome = "ok"
    try:
        with httpcore.ConnectionPool(network_backend=simnet.SimBackend(net), http2=True, ssl_context=simnet.RecordingSSLContext()) as pool:
            pool.request("POST", "https://o.example/up", content=b"\0" * case["len"])
    except simnet.Starved:
        outcome = "starved"
    except Exception as e:  # noqa
        outcome = "error:" + simnet.exc_name(e) + ":" + repr(e)[:120]
    return sizes, case["len"] - sum(sizes), outcome, peer.errors


# ------------------------------------------------------------------------------------------------------------
# h2's WindowManager
# ------------------------------------------------------------------------------------------------------------

def gen_win_case(rng):
    mx = rng.choice([1, 2, 5, 100, 1000, 4096, 5000, 65535, 2 ** 24 + 65535])
    ops = []
    cur, pend = mx, 0
    for _ in range(rng.randint(1, 30)):
        if rng.random() < 0.5 and cur > 0:
            n = rng.choice([0, 1, cur, rng.randint(0, cur), min(cur, 1024), cur + 1 if rng.random() < 0.05 else min(cur, 3)])
            ops.append(f"r{n}")
            if n > cur:
                break
            cur -= n
            pend += n
        elif pend:
            n = rng.choice([pend, 1, rng.randint(0, pend)])
            ops.append(f"a{n}")
            pend -= n
            # the model decides how much returns; the generator re-reads cur from a shadow WindowManager below
            cur = None
        if cur is None:
            cur = _shadow(mx, ops)
    return {"max": mx, "ops": ops}


def _shadow(mx, ops):
    return run_win_impl({"max": mx, "ops": ops}, want_cur=True)


def run_win_impl(case, want_cur=False):
    import h2.exceptions
    import h2.windows
    wm = h2.windows.WindowManager(max_window_size=case["max"])
    out = []
    for op in case["ops"]:
        n = int(op[1:])
        if op[0] == "r":
            try:
                wm.window_consumed(n)
                out.append(f"{wm.current_window_size}:{wm._bytes_processed}:0")
            except h2.exceptions.FlowControlError:
                out.append("x")
                break
        else:
            inc = wm.process_bytes(n)
            out.append(f"{wm.current_window_size}:{wm._bytes_processed}:{inc or 0}")
    if want_cur:
        return wm.current_window_size
    return ";".join(out)


# ------------------------------------------------------------------------------------------------------------
# downloads beyond the client's credit (2**24 + 65535 per connection and per stream)
# ------------------------------------------------------------------------------------------------------------

def run_big_download(total, frame=16384, pad=None, abandon_first=0, abandon_many=None):
    """One response body of `total` bytes; the server sends a DATA frame whenever the windows allow and stops when they
    do not (then only the client's WINDOW_UPDATE can continue the transfer).  With abandon_first > 0, a first response of that
    size is closed unread before the real download starts on the same connection.
    -> (outcome, bytes received, server errors)"""
    import h2.events

    import httpcore
    state = {"streams": {}, "order": []}

    def handler(peer, ev):
        if isinstance(ev, h2.events.RequestReceived):
            path = dict(ev.headers)[b":path"]
            n = int(path.rsplit(b"=", 1)[1])
            state["streams"][ev.stream_id] = {"left": n, "hdr": False, "dead": False}
            state["order"].append(ev.stream_id)
        elif isinstance(ev, h2.events.StreamReset):
            if ev.stream_id in state["streams"]:
                state["streams"][ev.stream_id]["dead"] = True

    peer = simnet.H2Peer(handler=handler)

    def pump():
        progressed = False
        for sid in state["order"]:
            st = state["streams"][sid]
            if st["dead"]:
                continue
            if not st["hdr"]:
                peer.conn.send_headers(sid, [(":status", "200")])
                st["hdr"] = True
                progressed = True
            while st["left"] > 0:
                win = min(peer.conn.local_flow_control_window(sid), peer.conn.max_outbound_frame_size, frame)
                p = pad if (pad is not None and win > pad + 1) else None
                if p is not None:
                    win -= p + 1
                n = min(st["left"], win)
                if n <= 0:
                    break
                peer.conn.send_data(sid, b"\0" * n, pad_length=p)
                st["left"] -= n
                progressed = True
                if len(peer.conn._data_to_send) > 1 << 20:
                    break
            if st["left"] == 0 and st["hdr"] and not st.get("ended"):
                peer.conn.end_stream(sid)
                st["ended"] = True
                progressed = True
            if st["left"] > 0:
                break           # responses are served one after the other
        data = peer.conn.data_to_send()
        if data:
            peer.out.append(data)
        return progressed

    def on_read(max_bytes):
        peer._start()
        if not peer.out:
            pump()
        if not peer.out:
            raise simnet.Starved()
        c = peer.out.pop(0)
        if len(c) > max_bytes:
            peer.out.insert(0, c[max_bytes:])
            c = c[:max_bytes]
        return c
    peer.on_read = on_read
    net = simnet.Net(simnet.Behavior(peer_factory=lambda rec: peer))
    got = 0
    outcome = "ok"
    try:
        with httpcore.ConnectionPool(network_backend=simnet.SimBackend(net), http2=True, ssl_context=simnet.RecordingSSLContext()) as pool:
            if abandon_first:
                with pool.stream("GET", f"https://o.example/a?n={abandon_first}") as r:
                    pass        # closed without reading the body
            if abandon_many:
                # many small responses, each *completely received* (END_STREAM included, in the same read as its head) and closed unread
                k = 0
                for count, size in abandon_many:
                    for _ in range(count):
                        k += 1
                        with pool.stream("GET", f"https://o.example/m{k}?n={size}") as r:
                            pass
            with pool.stream("GET", f"https://o.example/d?n={total}") as r:
                for part in r.iter_stream():
                    got += len(part)
    except simnet.Starved:
        outcome = "starved"
    except Exception as e:  # noqa
        outcome = "error:" + simnet.exc_name(e) + ":" + repr(e)[:120]
    return outcome, got, peer.errors
