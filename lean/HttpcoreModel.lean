import HttpcoreModel.Basic
import HttpcoreModel.Generated
import HttpcoreModel.Backoff
import HttpcoreModel.Url
import HttpcoreModel.Drv.C19
import HttpcoreModel.Drv.C20
import HttpcoreModel.Extractor
import HttpcoreModel.Drv.H1
