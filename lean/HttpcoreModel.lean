import HttpcoreModel.Basic
import HttpcoreModel.Generated
import HttpcoreModel.Backoff
import HttpcoreModel.Url
import HttpcoreModel.Drv.C19
import HttpcoreModel.Drv.C20
