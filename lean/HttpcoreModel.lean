import HttpcoreModel.Basic
import HttpcoreModel.Generated
import HttpcoreModel.Backoff
