import HttpcoreModel.Drv.C19
import HttpcoreModel.Drv.C20
import HttpcoreModel.Drv.H1
import HttpcoreModel.Drv.H1W
import HttpcoreModel.Drv.Pool
import HttpcoreModel.Drv.Est
import HttpcoreModel.Drv.C15
import HttpcoreModel.Drv.H2
import HttpcoreModel.Drv.Unasync
import HttpcoreModel.Drv.Sys
import HttpcoreModel.Drv.Life
import HttpcoreModel.Drv.Backend
import HttpcoreModel.Drv.Wrap
/-!
Line-protocol driver: one case per input line, one answer per output line.
First token selects the model function.  Imports model files only (no proofs, no Mathlib).
-/
open Httpcore

def dispatch (line : String) : String :=
  match tokens line with
  | [] => "empty"
  | cmd :: args =>
    if cmd = "c20" then Drv.c20 args
    else if cmd = "c19" then Drv.c19 args
    else if cmd = "h1read" then Drv.h1read args
    else if cmd = "h1upgrade" then Drv.h1upgrade args
    else if cmd = "h1leading" then Drv.h1leading args
    else if cmd = "h1handover" then Drv.h1handover args
    else if cmd = "h1write" then Drv.h1write args
    else if cmd = "h1head" then Drv.h1head args
    else if cmd = "h1parse" then Drv.h1parse args
    else if cmd = "h2hdrs" then Drv.h2hdrs args
    else if cmd = "poolpass" then Drv.poolpass args
    else if cmd = "est" then Drv.est args
    else if cmd = "c15" then Drv.c15 args
    else if cmd = "h2slots" then Drv.h2slots args
    else if cmd = "h2send" then Drv.h2send args
    else if cmd = "h2win" then Drv.h2win args
    else if cmd = "h2goaway" then Drv.h2goaway args
    else if cmd = "h2recv" then Drv.h2recv args
    else if cmd = "unasync" then Drv.unasyncCmd args
    else if cmd = "sysreach" then Drv.SysD.sysreach args
    else if cmd = "life2" then Drv.life2 args
    else if cmd = "life1" then Drv.life1 args
    else if cmd = "bwrite" then Drv.bwrite args
    else if cmd = "wrap" then Drv.wrapCmd args
    else "bad-cmd"

partial def loop (h : IO.FS.Stream) (out : IO.FS.Stream) : IO Unit := do
  let line ← h.getLine
  if line.isEmpty then return ()
  out.putStrLn (dispatch line)
  out.flush
  loop h out

def main : IO Unit := do
  let stdin ← IO.getStdin
  let stdout ← IO.getStdout
  loop stdin stdout
