import HttpcoreModel.Basic
import HttpcoreModel.Generated
import HttpcoreModel.Backoff
/-!
Line-protocol driver: one case per input line, one answer per output line.
First token selects the model function.  Imports model files only (no proofs, no Mathlib).
-/
open Httpcore

namespace Drv

def parseOutcome (s : String) : Option (Option Exc) :=
  if s = "ok" then some none else (Exc.ofName s).map some

def optAll {α} : List (Option α) → Option (List α)
  | [] => some []
  | none :: _ => none
  | some a :: t => (optAll t).map (a :: ·)

def showOp : Backoff.Op → String
  | .connect => "connect"
  | .startTls => "start_tls"
  | .sleep d => s!"sleep:{d}"

def showRes : Backoff.Res → String
  | .connected => "connected"
  | .raised e => s!"raised:{e.name}"
  | .starved => "starved"

def c20 (args : List String) : String :=
  match args with
  | [tls, n, outs] =>
    match n.toNat?, optAll ((commaList outs).map parseOutcome) with
    | some n, some os =>
      let r := Backoff.connect (tls = "1") n os
      s!"ops={joinWith "," (r.1.map showOp)} res={showRes r.2} den={Gen.backoffDen}"
    | _, _ => "bad-args"
  | _ => "bad-args"

def dispatch (line : String) : String :=
  match tokens line with
  | [] => "empty"
  | cmd :: args =>
    if cmd = "c20" then c20 args
    else "bad-cmd"

end Drv

partial def loop (h : IO.FS.Stream) (out : IO.FS.Stream) : IO Unit := do
  let line ← h.getLine
  if line.isEmpty then return ()
  out.putStrLn (Drv.dispatch line)
  loop h out

def main : IO Unit := do
  let stdin ← IO.getStdin
  let stdout ← IO.getStdout
  loop stdin stdout
