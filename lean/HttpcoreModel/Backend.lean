import HttpcoreModel.Basic
/-!
`_backends/sync.py`, `SyncStream.write`: a blocking socket's `send` may take any non-empty prefix of what it is given.

    while buffer:
        self._sock.settimeout(timeout)
        n = self._sock.send(buffer)
        buffer = buffer[n:]

`sends` is the adversary: what the successive `send` calls return.  The model returns the pieces the kernel accepted, in order,
and what is still unsent when the adversary's list runs out (= the call is still inside the loop).
-/
namespace Httpcore.Backend
open Httpcore

def writeLoop : Bytes → List Nat → List Bytes × Bytes
  | buf, [] => ([], buf)
  | [], _ :: _ => ([], [])
  | b :: buf, n :: ns =>
    let r := writeLoop ((b :: buf).drop n) ns
    ((b :: buf).take n :: r.1, r.2)

end Httpcore.Backend
