import HttpcoreModel.H1Read
/-!
Model of the HTTP/1.1 request writer as httpcore drives it: `h11.Request(...)` validation and
header normalisation (`normalize_and_validate(_parsed=False)`), `write_request` / `write_headers`
(Host first), the Content-Length and chunked body writers, and httpcore's `_send_request_headers` /
`_send_request_body` loops; plus the HTTP/2 header mapping of `http2.py:_send_request_headers`.
-/
namespace Httpcore.H1W
open Httpcore Httpcore.H1

abbrev Header := Bytes × Bytes

structure Req where
  method : Bytes
  target : Bytes
  headers : List Header
  deriving DecidableEq, Repr

/-- `field_value` full match: empty, or field-vchars with inner runs of SP/HT only -/
def validFieldValue (v : Bytes) : Bool :=
  match v with
  | [] => true
  | c :: _ =>
    isFieldVchar c && (match v.getLast? with | some l => isFieldVchar l | none => true) &&
    v.all (fun x => isFieldVchar x || isOWS x)

def isVchar (b : Nat) : Bool := 33 ≤ b && b ≤ 126

/-- `normalize_and_validate(headers, _parsed=False)`; `none` = LocalProtocolError.
Result rows: (raw name, value as written). -/
def normalizeReq : Option Bytes → Bool → List Header → Option (List Header)
  | _, _, [] => some []
  | seenCL, sawTE, (n, v) :: rest =>
    if !(n != [] && n.all isTokenChar) || !validFieldValue v then none else
    let ln := lower n
    if ln = ascii "content-length" then
      let parts := ((splitOnElem 44 v).map stripSpace).eraseDups
      match parts with
      | [one] =>
        if one != [] && one.all H1.isDigit then
          match seenCL with
          | none => (normalizeReq (some one) sawTE rest).map ((n, one) :: ·)
          | some prev => if prev = one then normalizeReq seenCL sawTE rest else none
        else none
      | _ => none
    else if ln = ascii "transfer-encoding" then
      if sawTE then none
      else if lower v = ascii "chunked" then (normalizeReq seenCL true rest).map ((n, lower v) :: ·)
      else none
    else (normalizeReq seenCL sawTE rest).map ((n, v) :: ·)

def isHost (h : Header) : Bool := lower h.1 = ascii "host"

/-- `h11.Request(method, target, headers)`: the normalised header list, or `none` if rejected -/
def h11Request (r : Req) : Option (List Header) :=
  match normalizeReq none false r.headers with
  | none => none
  | some hs =>
    if (hs.filter isHost).length != 1 then none
    else if !(r.method != [] && r.method.all isTokenChar) then none
    else if !(r.target != [] && r.target.all isVchar) then none
    else some hs

def crlf : Bytes := [13, 10]

def headerLine (h : Header) : Bytes := h.1 ++ [58, 32] ++ h.2 ++ crlf

/-- `write_headers`: Host line(s) first, the others in order, then the blank line -/
def writeHeaders (hs : List Header) : Bytes :=
  ((hs.filter isHost).map headerLine).flatten ++ ((hs.filter (fun h => !isHost h)).map headerLine).flatten ++ crlf

def writeHead (method target : Bytes) (hs : List Header) : Bytes :=
  method ++ [32] ++ target ++ ascii " HTTP/1.1\r\n" ++ writeHeaders hs

inductive Framing
  | cl (n : Nat)
  | chunked
  deriving DecidableEq, Repr

/-- `_body_framing` for a request -/
def framingOf (hs : List Header) : Framing :=
  if commaHeader hs (ascii "transfer-encoding") != [] then .chunked
  else match commaHeader hs (ascii "content-length") with
    | v :: _ => .cl (digitsVal v)
    | [] => .cl 0

def hexDigitLower (n : Nat) : Nat := if n < 10 then 48 + n else 87 + n

def hexRevAux : Nat → Nat → List Nat
  | 0, _ => []
  | fuel + 1, n => if n < 16 then [hexDigitLower n] else hexDigitLower (n % 16) :: hexRevAux fuel (n / 16)

/-- `b"%x" % n` -/
def hexLower (n : Nat) : Bytes := (hexRevAux (n + 1) n).reverse

def chunkEnc (data : Bytes) : Bytes :=
  if data.isEmpty then [] else hexLower data.length ++ crlf ++ data ++ crlf

inductive WErr
  | localProtocol      -- httpcore.LocalProtocolError (head rejected)
  | h11Local           -- h11's error from a body writer (length mismatch); httpcore.LocalProtocolError since ae7c71f
  deriving DecidableEq, Repr

/-- Content-Length writer over the chunks of the body iterator: bytes written, error if any -/
def writeCL : Nat → List Bytes → Bytes × Option WErr
  | remaining, [] => ([], if remaining = 0 then none else some .h11Local)
  | remaining, c :: rest =>
    if c.length > remaining then ([], some .h11Local)
    else let r := writeCL (remaining - c.length) rest; (c ++ r.1, r.2)

def writeChunked (chunks : List Bytes) : Bytes := (chunks.map chunkEnc).flatten ++ ascii "0\r\n\r\n"

/-- everything httpcore writes for one request on an HTTP/1.1 connection, and the error if any -/
def writeRequest (r : Req) (chunks : List Bytes) : Bytes × Option WErr :=
  match h11Request r with
  | none => ([], some .localProtocol)
  | some hs =>
    let head := writeHead r.method r.target hs
    match framingOf hs with
    | .chunked => (head ++ writeChunked chunks, none)
    | .cl n => let b := writeCL n chunks; (head ++ b.1, b.2)

/-! ### HTTP/2 mapping (`http2.py:_send_request_headers`) -/

def hasBodyHeaders (hs : List Header) : Bool :=
  hs.any (fun h => lower h.1 = ascii "content-length" || lower h.1 = ascii "transfer-encoding")

/-- the header list handed to `h2.send_headers`, and the `end_stream` flag; `none` when the
request has no Host header (the list comprehension `[...][0]` raises IndexError) -/
def h2Headers (method scheme target : Bytes) (hs : List Header) : Option (List Header × Bool) :=
  match hs.filter isHost with
  | [] => none
  | (_, authority) :: _ =>
    some ([(ascii ":method", method), (ascii ":authority", authority), (ascii ":scheme", scheme),
           (ascii ":path", target)] ++
          (hs.filter (fun h => !(lower h.1 = ascii "host" || lower h.1 = ascii "transfer-encoding"))).map
            (fun h => (lower h.1, h.2)),
          !hasBodyHeaders hs)

/-! ### which header blocks h2 refuses to encode

`h2.utilities.validate_outbound_headers` (h2 4.4), applied to the block after
`normalize_outbound_headers` (names lower-cased, names and values stripped of surrounding white
space).  The rules are RFC 7540 §8.1.2 / RFC 9113 §8.3–8.5 / RFC 8441.  A hand-written model of a
dependency, tied by the C03 differential. -/

def wsByte (b : Nat) : Bool := b = 32 || (9 ≤ b && b ≤ 13)

/-- Python's `bytes.strip()` -/
def strip (b : Bytes) : Bytes := ((b.dropWhile wsByte).reverse.dropWhile wsByte).reverse

def isPseudo (n : Bytes) : Bool := n.head? = some 58

def allowedPseudo : List Bytes :=
  [ascii ":method", ascii ":scheme", ascii ":authority", ascii ":path", ascii ":status", ascii ":protocol"]

/-- a pseudo-header field after an ordinary field -/
def pseudoAfterRegular : List Header → Bool
  | [] => false
  | h :: t => if isPseudo h.1 then pseudoAfterRegular t else t.any (fun x => isPseudo x.1)

def hasDup : List Bytes → Bool
  | [] => false
  | n :: t => t.contains n || hasDup t

/-- the block as h2 validates it -/
def h2Norm (handed : List Header) : List Header := handed.map (fun h => (strip (lower h.1), strip h.2))

/-- does h2 raise `ProtocolError` for this block (request head, client side)? -/
def h2Refuses (handed : List Header) : Bool :=
  let l := h2Norm handed
  let pseudo := (l.filter (fun h => isPseudo h.1)).map (·.1)
  let connect := l.any (fun h => h.1 = ascii ":method" && h.2 = ascii "CONNECT")
  let authority := (l.find? (fun h => h.1 = ascii ":authority")).map (·.2)
  let hosts := (l.filter (fun h => h.1 = ascii "host")).map (·.2)
  l.any (fun h => h.1 = ascii "te" && lower h.2 != ascii "trailers")          -- `_reject_te`
  || hasDup pseudo || pseudoAfterRegular l                                       -- `_reject_pseudo_header_fields`
  || pseudo.any (fun n => !allowedPseudo.contains n)
  || pseudo.contains (ascii ":status")                                           -- response-only
  || (if connect then !pseudo.contains (ascii ":protocol")                       -- ordinary CONNECT carries no :scheme / :path
      else pseudo.contains (ascii ":protocol"))
  || decide (hosts.length > 1) || hosts.any (fun v => authority != some v)       -- `_validate_host_authority_header`
  || l.any (fun h => h.1 = ascii ":path" && h.2 = [])                            -- `_check_path_header`

/-- a field whose name is empty after stripping makes h2 fail with IndexError instead (`header[0][0]`) -/
def h2Crashes (handed : List Header) : Bool := (h2Norm handed).any (fun h => h.1 = [])

inductive H2Sent where
  | noHost                                   -- IndexError in httpcore's own list comprehension
  | rejected                                 -- LocalProtocolError, nothing written
  | handed (l : List Header) (endStream : Bool)
  deriving DecidableEq, Repr

/-- `_send_request_headers`: map, hand to `h2.send_headers`; h2 validates iff its configuration says so -/
def h2SendHead (validates : Bool) (method scheme target : Bytes) (hs : List Header) : H2Sent :=
  match h2Headers method scheme target hs with
  | none => .noHost
  | some (l, e) => if validates && h2Refuses l then .rejected else .handed l e

end Httpcore.H1W
