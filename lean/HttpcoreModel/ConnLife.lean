import HttpcoreModel.Generated
/-!
Life-cycle of one connection object, as a transition system over the *generated* functions of `Gen` (gate, `_response_closed`,
`aclose`, status predicates - translated from the source on every run) plus the few hand-written steps that stand for code with
suspension points in it (a request opening its stream, backing out, GOAWAY / I/O failure being recorded).  Ghost fields record
what really happened (requests accepted and not yet finished, when the connection last became idle) so that theorems can
compare the object's own bookkeeping with it.
-/
namespace Httpcore.ConnLife
open Httpcore Httpcore.Life

/-! ## HTTP/2 -/

structure G2 where
  c : H2 := {}
  pending : Nat := 0                 -- ghost: requests past the gate that have not opened a stream (nor left)
  idleSince : Option Nat := none     -- ghost: when the connection last went from in-use to IDLE
  closing : Nat := 0                 -- ghost: `_response_closed` calls between `del self._events[stream_id]` and the locked block
  deriving DecidableEq, Repr, Inhabited

inductive Op2
  | request                          -- a request reaches the gate (`handle_async_request`)
  | opened                           -- a starting request reserves its stream id: `self._events[stream_id] = []`
  | backedOut (uncount : Bool)       -- a starting request leaves without a stream: cancelled / failed (false) or CNA after the
                                     -- connection was closed under it (true: `_request_count -= 1`)
  | initFailed                       -- `_send_connection_init` failed or was cancelled: `aclose()`, then the request leaves
  | idsExhausted                     -- `NoAvailableStreamIDError`: `_used_all_stream_ids = True`, count back, CNA
  | streamEnded                      -- `_response_closed(stream_id)`, first half: `del self._events[stream_id]`
  | settle (now : Nat)               -- `_response_closed`, second half: the block under the state lock (other requests may
                                     -- have run in between: waiting for the lock is a suspension point)
  | uncount                          -- `_receive_events`: stream refused by GOAWAY, `_request_count -= 1`
  | goaway                           -- ConnectionTerminated recorded (h2's state machine is CLOSED from then on)
  | ioFailed                         -- a read / write exception recorded: `_connection_error = True`
  | aclose                           -- `aclose()` from outside (pool, caller)
  deriving DecidableEq, Repr

/-- leaving the starting phase: the `finally` clause -/
def leave (c : H2) : H2 := if Gen.h2StartingReleasedOnEveryPath then { c with starting := c.starting - 1 } else c

def step2 (g : G2) : Op2 → G2
  | .request =>
    let c' := Gen.h2Gate { g.c with raised := false }
    if c'.raised then { g with c := c' } else { g with c := c', pending := g.pending + 1 }
  | .opened =>
    if g.pending = 0 then g else
    { g with c := leave { g.c with streams := g.c.streams + 1 }, pending := g.pending - 1 }
  | .backedOut u =>
    if g.pending = 0 then g else
    { g with c := leave { g.c with count := if u then g.c.count - 1 else g.c.count }, pending := g.pending - 1 }
  | .initFailed =>
    if g.pending = 0 then g else
    { g with c := leave (Gen.h2Aclose g.c), pending := g.pending - 1 }
  | .idsExhausted =>
    if g.pending = 0 then g else
    { g with c := leave { g.c with usedAll := true, count := g.c.count - 1 }, pending := g.pending - 1 }
  | .streamEnded =>
    if g.c.streams = 0 then g else { g with c := { g.c with streams := g.c.streams - 1 }, closing := g.closing + 1 }
  | .settle now =>
    if g.closing = 0 then g else
    let c' := Gen.h2AfterClose g.c now
    { g with c := c', closing := g.closing - 1, idleSince := if c'.st = .idle ∧ g.c.st ≠ .idle then some now else g.idleSince }
  | .uncount => { g with c := { g.c with count := g.c.count - 1 } }
  | .goaway => { g with c := { g.c with terminated := true, h2Closed := true } }
  | .ioFailed => { g with c := { g.c with connErr := true } }
  | .aclose => { g with c := Gen.h2Aclose g.c }

def init2 (ka : Option Nat) : G2 := { c := { ka := ka } }
def run2 (g : G2) (ops : List Op2) : G2 := ops.foldl step2 g

/-- in use: some request has been accepted and its response has not been closed -/
def G2.inUse (g : G2) : Prop := g.c.streams > 0 ∨ g.pending > 0

/-- `_response_closed` of httpcore 1.0.7 (and of this tree before the repair): requests that have been accepted but
have not opened their stream are not looked at -/
def afterClose107 (c : H2) (now : Nat) : H2 :=
  if c.terminated && c.streams == 0 then Gen.h2Aclose c
  else if c.st == .active && c.streams == 0 then
    let c := { c with st := .idle }
    let c := if c.ka.isSome then { c with expireAt := some (now + c.ka.getD 0) } else c
    if c.usedAll then Gen.h2Aclose c else c
  else c

/-! ## HTTP/1.1 -/

structure G1 where
  c : H1 := {}
  exchangeOpen : Bool := false       -- ghost: a request was accepted and `_response_closed` has not run for it
  accepted : Nat := 0                -- ghost: number of requests the gate let in
  idleSince : Option Nat := none
  deriving DecidableEq, Repr, Inhabited

inductive Op1
  | request                          -- a request reaches the gate
  | gateInterrupted                  -- cancelled while waiting for the state lock: `if self._state == NEW: aclose()`
  | progress (our their : Bool)      -- h11 moves on: what `our_state is DONE` / `their_state is DONE` say from now on (h11 works on
                                     -- its own buffer: it can finish an exchange on a connection that has been closed meanwhile)
  | responseClosed (now : Nat)       -- `_response_closed()` of the open exchange
  | aclose
  deriving DecidableEq, Repr

def step1 (g : G1) : Op1 → G1
  | .request =>
    let c' := Gen.h1Gate { g.c with raised := false }
    if c'.raised then { g with c := c' } else { g with c := c', exchangeOpen := true, accepted := g.accepted + 1 }
  | .gateInterrupted => if g.c.st = .new then { g with c := Gen.h1Aclose g.c } else g
  | .progress o t => if g.exchangeOpen then { g with c := { g.c with ourDone := o, theirDone := t } } else g
  | .responseClosed now =>
    if ¬ g.exchangeOpen then g else
    let c' := Gen.h1ResponseClosed g.c now
    { g with c := c', exchangeOpen := false, idleSince := if c'.st = .idle then some now else g.idleSince }
  | .aclose => { g with c := Gen.h1Aclose g.c }

def init1 (ka : Option Nat) : G1 := { c := { ka := ka } }
def run1 (g : G1) (ops : List Op1) : G1 := ops.foldl step1 g

end Httpcore.ConnLife
