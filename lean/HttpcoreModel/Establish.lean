import HttpcoreModel.H1Write
import HttpcoreModel.Url
/-!
Model of connection establishment per connection kind: which kind `create_connection` picks
(`connection_pool.py:128-179`), the ordered network operations with their arguments (connect target,
TLS yes/no, server name, ALPN offer), the bytes of the proxy hop — the CONNECT request
(`http_proxy.py:265-343`), the forwarded request (`http_proxy.py:191-206`, `merge_headers`), the
SOCKS5 messages (`socks_proxy.py:42-102`, layouts of socksio) — and the HTTP/2-vs-HTTP/1.1 choice.
Scheme tests come from `Generated.lean`.
-/
namespace Httpcore.Est
open Httpcore Httpcore.H1W

abbrev Header := Bytes × Bytes

structure Proxy where
  scheme : Bytes                 -- http, https, socks5, socks5h
  host : Bytes
  port : Nat
  auth : Option (Bytes × Bytes)  -- SOCKS user / password (for HTTP proxies it is already a header)
  headers : List Header          -- `Proxy.headers` (Proxy-Authorization first, if any)

structure Pool where
  proxy : Option Proxy
  http1 : Bool
  http2 : Bool

inductive Kind | direct | forward | tunnel | socks
  deriving DecidableEq, Repr

/-- `AsyncConnectionPool.create_connection` -/
def kindOf (p : Pool) (originScheme : Bytes) : Kind :=
  match p.proxy with
  | none => .direct
  | some px =>
    if Gen.socksProxySchemes.contains px.scheme then .socks
    else if Gen.forwardSchemes.contains originScheme then .forward
    else .tunnel

/-- is the stream that carries the request wrapped in TLS *to the origin*? -/
def tlsToOrigin (k : Kind) (scheme : Bytes) : Bool :=
  match k with
  | .direct => Gen.directTlsSchemes.contains scheme
  | .forward => false
  | .tunnel => match Gen.tunnelTlsSchemes with
    | none => true
    | some l => l.contains scheme
  | .socks => Gen.socksTlsSchemes.contains scheme

/-- ALPN protocols offered for the origin handshake -/
def alpnOffer (http2 : Bool) : List String := if http2 then ["http/1.1", "h2"] else ["http/1.1"]

/-- HTTP/2 is spoken iff ALPN selected it, or HTTP/1.1 is disabled -/
def speaksH2 (http1 http2 : Bool) (alpnSelected : Option String) : Bool :=
  alpnSelected = some "h2" || (http2 && !http1)

/-- server name of the origin handshake; the tunnel ignores the `sni_hostname` extension -/
def serverName (k : Kind) (host : Bytes) (sni : Option Bytes) : Bytes :=
  match k with
  | .tunnel => host
  | _ => match sni with
    | some s => if s.isEmpty then host else s
    | none => host

/-- `merge_headers(default, override)` -/
def mergeHeaders (dflt over : List Header) : List Header :=
  dflt.filter (fun h => !(over.any fun o => lower o.1 = lower h.1)) ++ over

def hostPort (host : Bytes) (port : Nat) : Bytes := host ++ 58 :: decimal port

/-- the CONNECT request the tunnel sends to the proxy: (method, target, headers) -/
def connectRequest (px : Proxy) (host : Bytes) (port : Nat) : Req :=
  { method := ascii "CONNECT", target := hostPort host port,
    headers := mergeHeaders [(ascii "Host", hostPort host port), (ascii "Accept", ascii "*/*")] px.headers }

/-- the request a forwarding connection sends to the proxy -/
def forwardRequest (px : Proxy) (method : Bytes) (url : Url.URL) (headers : List Header) : Req :=
  { method := method, target := Url.toBytes url, headers := mergeHeaders px.headers headers }

/-- tunnel decision on the proxy's reply to CONNECT -/
def connectAccepted (status : Nat) : Bool := !(status < 200 || status > 299)

/-! ### SOCKS5 messages (RFC 1928 / 1929 as socksio encodes them) -/

def socksMethodOffer (auth : Option (Bytes × Bytes)) : Bytes :=
  [5, 1, if auth.isSome then 2 else 0]

def socksUserPass (u p : Bytes) : Bytes := [1, u.length] ++ u ++ [p.length] ++ p

/-- dotted-quad recogniser: four decimal numbers ≤ 255 -/
def parseIPv4 (host : Bytes) : Option (List Nat) :=
  let parts := splitOnElem 46 host
  if parts.length = 4 && parts.all (fun p => p != [] && p.length ≤ 3 && p.all H1.isDigit && H1.digitsVal p ≤ 255
      && (p.length = 1 || p.head? != some 48)) then
    some (parts.map H1.digitsVal)
  else none

/-- CONNECT command; IPv6 literals are outside the model (`none`) -/
def socksConnect (host : Bytes) (port : Nat) : Option Bytes :=
  let portBytes := [port / 256 % 256, port % 256]
  match parseIPv4 host with
  | some q => some ([5, 1, 0, 1] ++ q ++ portBytes)
  | none =>
    if host.contains 58 then none
    else some ([5, 1, 0, 3, host.length] ++ host ++ portBytes)

/-- what is written to the SOCKS proxy before any HTTP byte, when every reply is positive -/
def socksNegotiation (px : Proxy) (host : Bytes) (port : Nat) : Option (List Bytes) :=
  match socksConnect host port with
  | none => none
  | some c =>
    some ([socksMethodOffer px.auth] ++ (match px.auth with | some (u, p) => [socksUserPass u p] | none => []) ++ [c])

/-- the establishment plan of a new connection: where the TCP connection goes, and the TLS
handshakes in order -/
structure Plan where
  connectHost : Bytes
  connectPort : Nat
  tlsToProxy : Bool               -- HTTPS proxy
  target : Bytes × Nat            -- the host:port named to the proxy (CONNECT / SOCKS); for direct = connect target
  tlsOrigin : Bool
  sni : Bytes
  alpn : List String
  deriving DecidableEq, Repr

def plan (p : Pool) (o : Url.Origin) (sni : Option Bytes) : Plan :=
  let k := kindOf p o.scheme
  let tls := tlsToOrigin k o.scheme
  match p.proxy, k with
  | some px, .forward =>
    { connectHost := px.host, connectPort := px.port, tlsToProxy := px.scheme = ascii "https", target := (o.host, o.port),
      tlsOrigin := false, sni := [], alpn := [] }
  | some px, .tunnel =>
    { connectHost := px.host, connectPort := px.port, tlsToProxy := px.scheme = ascii "https", target := (o.host, o.port),
      tlsOrigin := tls, sni := serverName k o.host sni, alpn := alpnOffer p.http2 }
  | some px, .socks =>
    { connectHost := px.host, connectPort := px.port, tlsToProxy := false, target := (o.host, o.port),
      tlsOrigin := tls, sni := serverName k o.host sni, alpn := alpnOffer p.http2 }
  | _, _ =>
    { connectHost := o.host, connectPort := o.port, tlsToProxy := false, target := (o.host, o.port),
      tlsOrigin := tls, sni := serverName k o.host sni, alpn := alpnOffer p.http2 }

end Httpcore.Est
