/-!
`Sys`: a transition-system model of the pool with direct HTTP/1.1 connections and any number of
callers, at the granularity of suspension points (DESIGN §3.2).  One `step` runs one caller from the
suspension point it is parked at to the next; faults and scope-style cancellation are outcomes of the
parked operation; the pool's assignment pass is over-approximated by free-standing actions
(`assignIdle`, `assignNew`, `evict`, `dropClosed`) that may happen whenever some caller runs a pass.

Source anchors: `connection_pool.py` (`handle_async_request`, `PoolByteStream`), `connection.py`
(`handle_async_request`, `_connect`), `http11.py` (`handle_async_request`, `_response_closed`, `aclose`).
-/
namespace Httpcore.Sys

inductive CStatus
  | absent        -- no such connection object
  | fresh         -- created by a pass, nobody has started to connect yet (`info() == "CONNECTING"`)
  | connecting    -- its owner is inside `_connect` (TCP / TLS)
  | failed        -- `_connect_failed` (reports closed)
  | new           -- HTTP/1.1 connection object exists, state NEW
  | active
  | idle
  | closed
  deriving DecidableEq, Repr

structure Conn where
  status : CStatus := .absent
  inPool : Bool := false
  streamOpen : Bool := false
  owner : Option Nat := none     -- ghost: the caller responsible for taking it out of its current status
  deriving DecidableEq, Repr

inductive PC
  | notStarted
  | queued                      -- request in the pool's queue, waiting for a connection
  | assigned (c : Nat)          -- a pass has given it connection `c`; it has not started on it yet
  | connectTcp (c : Nat)        -- parked on connect_tcp
  | connectTls (c : Nat)        -- parked on start_tls (the TCP stream is open)
  | gate (c : Nat)              -- parked on the HTTP/1.1 state lock, before the ACTIVE gate
  | io (c : Nat)                -- request / response in flight (any read or write, or the caller holds the response)
  | closing (c : Nat)           -- inside the shielded `_response_closed`
  | cleanup                     -- in the pool's exit path: `_requests.remove` + pass
  | done
  deriving DecidableEq, Repr

structure Task where
  pc : PC := .notStarted
  counted : Bool := false        -- its request is in `pool._requests`
  deriving DecidableEq, Repr

structure State where
  conns : Nat → Conn
  tasks : Nat → Task

def init : State := { conns := fun _ => {}, tasks := fun _ => {} }

def upd {α} (f : Nat → α) (i : Nat) (v : α) : Nat → α := fun j => if j = i then v else f j

@[simp] theorem upd_same {α} (f : Nat → α) (i : Nat) (v : α) : upd f i v i = v := by simp [upd]
@[simp] theorem upd_other {α} (f : Nat → α) (i j : Nat) (v : α) (h : j ≠ i) : upd f i v j = f j := by
  simp [upd, h]

/-- how a parked operation ends -/
inductive Outcome
  | ok
  | fail        -- an exception of the operation (network error, time-out, protocol error)
  | cancel      -- scope-style cancellation delivered at this (unshielded) suspension point
  deriving DecidableEq, Repr

/-- switches recording what the current source does (validated by the sweeps) -/
structure Fixes where
  /-- a connection still NEW when the caller fails to pass the ACTIVE gate is closed (http11.py) -/
  closeNew : Bool
  /-- the TCP stream is closed when `start_tls` is cancelled (connection.py) -/
  closeOnTlsCancel : Bool

inductive Action
  | arrive (t : Nat)
  | assignIdle (t c : Nat)         -- pass: an available (idle) pooled connection for the origin
  | assignNew (t c : Nat)          -- pass: a new connection object
  | evict (c : Nat)                -- pass: expired / surplus / room -> removed and closed (shielded)
  | dropClosed (c : Nat)           -- pass: closed connection removed
  | start (t : Nat)                -- the caller starts on its assigned connection
  | cancelAssigned (t : Nat)       -- cancellation / pool time-out delivered while assigned but not started
  | waitCancel (t : Nat)           -- cancellation / pool time-out while queued
  | tcp (t : Nat) (o : Outcome)
  | tls (t : Nat) (o : Outcome)
  | gate (t : Nat) (o : Outcome)
  | io (t : Nat) (o : Outcome) (keepAlive : Bool)
  | closed (t : Nat)               -- the shielded `_response_closed` completes
  | finish (t : Nat)               -- `_requests.remove` + pass done
  | poolClose (c : Nat)            -- `pool.aclose()` closing pooled connection `c`
  deriving Repr

def setPc (s : State) (t : Nat) (pc : PC) : State :=
  { s with tasks := upd s.tasks t ({ s.tasks t with pc := pc } : Task) }

def setConn (s : State) (c : Nat) (v : Conn) : State := { s with conns := upd s.conns c v }

/-- the step relation as a function: actions whose guard does not hold leave the state unchanged -/
def step (fx : Fixes) (s : State) : Action → State
  | .arrive t =>
    if (s.tasks t).pc = .notStarted then
      { s with tasks := upd s.tasks t ({ pc := .queued, counted := true } : Task) }
    else s
  | .assignIdle t c =>
    if (s.tasks t).pc = .queued ∧ (s.conns c).inPool = true ∧ (s.conns c).status = .idle then
      setPc s t (.assigned c)
    else s
  | .assignNew t c =>
    if (s.tasks t).pc = .queued ∧ (s.conns c).status = .absent ∧ (s.conns c).inPool = false ∧
        (s.conns c).streamOpen = false then
      setPc (setConn s c ({ status := .fresh, inPool := true, streamOpen := false, owner := some t } : Conn)) t (.assigned c)
    else s
  | .evict c =>
    if (s.conns c).inPool = true ∧ (s.conns c).status = .idle then
      setConn s c ({ (s.conns c) with status := .closed, inPool := false, streamOpen := false, owner := none } : Conn)
    else s
  | .dropClosed c =>
    if (s.conns c).inPool = true ∧ ((s.conns c).status = .closed ∨ (s.conns c).status = .failed) then
      setConn s c ({ (s.conns c) with inPool := false } : Conn)
    else s
  | .start t =>
    match (s.tasks t).pc with
    | .assigned c =>
      if (s.conns c).status = .fresh ∧ (s.conns c).owner = some t then
        setPc (setConn s c ({ (s.conns c) with status := .connecting } : Conn)) t (.connectTcp c)
      else if (s.conns c).status = .fresh then s
      else setPc s t (.gate c)
    | _ => s
  | .cancelAssigned t =>
    match (s.tasks t).pc with
    | .assigned _ => setPc s t .cleanup
    | _ => s
  | .waitCancel t =>
    if (s.tasks t).pc = .queued then setPc s t .cleanup else s
  | .tcp t o =>
    match (s.tasks t).pc with
    | .connectTcp c =>
      match o with
      | .ok => setPc (setConn s c ({ (s.conns c) with streamOpen := true } : Conn)) t (.connectTls c)
      | _ => setPc (setConn s c ({ (s.conns c) with status := .failed, owner := none } : Conn)) t .cleanup
    | _ => s
  | .tls t o =>
    match (s.tasks t).pc with
    | .connectTls c =>
      match o with
      | .ok => setPc (setConn s c ({ (s.conns c) with status := .new } : Conn)) t (.gate c)
      | .fail => setPc (setConn s c ({ (s.conns c) with status := .failed, streamOpen := false, owner := none } : Conn)) t .cleanup
      | .cancel =>
        let so : Bool := if fx.closeOnTlsCancel then false else (s.conns c).streamOpen
        setPc (setConn s c ({ (s.conns c) with status := .failed, owner := none, streamOpen := so } : Conn)) t .cleanup
    | _ => s
  | .gate t o =>
    match (s.tasks t).pc with
    | .gate c =>
      match o with
      | .ok =>
        if (s.conns c).status = .new ∨ (s.conns c).status = .idle then
          setPc (setConn s c ({ (s.conns c) with status := .active, owner := some t } : Conn)) t (.io c)
        else setPc s t .queued            -- ConnectionNotAvailable: back to the queue, still counted
      | _ =>
        -- cancelled (or failing) while waiting for the state lock: nothing was sent
        if (s.conns c).status = .new ∧ (s.conns c).owner = some t then
          if fx.closeNew then
            setPc (setConn s c ({ (s.conns c) with status := .closed, streamOpen := false, owner := none } : Conn)) t .cleanup
          else setPc s t .cleanup
        else setPc s t .cleanup
    | _ => s
  | .io t o keepAlive =>
    match (s.tasks t).pc with
    | .io c => if o = .ok ∧ keepAlive then setPc s t (.closing c)
               else setPc (setConn s c ({ (s.conns c) with status := .closed } : Conn)) t (.closing c)
    | _ => s
  | .closed t =>
    match (s.tasks t).pc with
    | .closing c =>
      if (s.conns c).status = .closed then
        setPc (setConn s c ({ (s.conns c) with streamOpen := false, owner := none } : Conn)) t .cleanup
      else setPc (setConn s c ({ (s.conns c) with status := .idle, owner := none } : Conn)) t .cleanup
    | _ => s
  | .finish t =>
    if (s.tasks t).pc = .cleanup then
      { s with tasks := upd s.tasks t ({ pc := .done, counted := false } : Task) }
    else s
  | .poolClose c =>
    if (s.conns c).inPool = true ∧ (s.conns c).owner = none ∧
        ((s.conns c).status = .idle ∨ (s.conns c).status = .closed ∨ (s.conns c).status = .failed) then
      setConn s c ({ (s.conns c) with status := .closed, inPool := false, streamOpen := false, owner := none } : Conn)
    else s

def run (fx : Fixes) (s : State) (as : List Action) : State := as.foldl (step fx) s

end Httpcore.Sys
