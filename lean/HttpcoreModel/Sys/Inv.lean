import HttpcoreModel.Sys.Model
/-! The inductive invariant of `Sys` and its preservation by every action. -/
namespace Httpcore.Sys

def heading : PC → Option Nat
  | .assigned c => some c
  | .connectTcp c => some c
  | .connectTls c => some c
  | .gate c => some c
  | .io c => some c
  | .closing c => some c
  | _ => none

def needsOwner : CStatus → Bool
  | .fresh => true
  | .connecting => true
  | .new => true
  | .active => true
  | _ => false

structure Inv (s : State) : Prop where
  orphan : ∀ t, (s.tasks t).counted = true → (s.tasks t).pc ≠ .notStarted ∧ (s.tasks t).pc ≠ .done
  live_counted : ∀ t, (s.tasks t).pc ≠ .notStarted → (s.tasks t).pc ≠ .done → (s.tasks t).counted = true
  need : ∀ c, needsOwner (s.conns c).status = true → (s.conns c).owner ≠ none
  pooled : ∀ c, needsOwner (s.conns c).status = true → (s.conns c).inPool = true
  st_fresh : ∀ c t, (s.conns c).status = .fresh → (s.conns c).owner = some t → (s.tasks t).pc = .assigned c
  st_conn : ∀ c t, (s.conns c).status = .connecting → (s.conns c).owner = some t →
    ((s.tasks t).pc = .connectTcp c ∧ (s.conns c).streamOpen = false) ∨ (s.tasks t).pc = .connectTls c
  st_new : ∀ c t, (s.conns c).status = .new → (s.conns c).owner = some t → (s.tasks t).pc = .gate c
  st_active : ∀ c t, (s.conns c).status = .active → (s.conns c).owner = some t →
    (s.tasks t).pc = .io c ∨ (s.tasks t).pc = .closing c
  st_closed : ∀ c t, (s.conns c).status = .closed → (s.conns c).owner = some t → (s.tasks t).pc = .closing c
  st_idle : ∀ c, (s.conns c).status = .idle → (s.conns c).owner = none ∧ (s.conns c).inPool = true
  st_failed : ∀ c, (s.conns c).status = .failed → (s.conns c).owner = none ∧ (s.conns c).streamOpen = false
  st_absent : ∀ c, (s.conns c).status = .absent → (s.conns c).owner = none ∧ (s.conns c).inPool = false
  fresh_nostream : ∀ c, (s.conns c).status = .fresh → (s.conns c).streamOpen = false
  /-- C06: every open stream belongs to a pooled connection or to one that a live caller is closing -/
  stream_owned : ∀ c, (s.conns c).streamOpen = true →
    ((s.conns c).inPool = true ∧ ((s.conns c).status = .connecting ∨ (s.conns c).status = .new ∨
        (s.conns c).status = .active ∨ (s.conns c).status = .idle)) ∨
    ((s.conns c).status = .closed ∧ (s.conns c).owner ≠ none)
  /-- a caller sits in `io`/`closing` on a connection only as its owner, or the connection is closed -/
  closing_owner : ∀ c t, (s.tasks t).pc = .closing c → (s.conns c).owner = some t ∧
    ((s.conns c).status = .active ∨ (s.conns c).status = .closed)
  io_owner : ∀ c t, (s.tasks t).pc = .io c → (s.conns c).owner = some t ∧ (s.conns c).status = .active
  tcp_owner : ∀ c t, (s.tasks t).pc = .connectTcp c → (s.conns c).owner = some t ∧ (s.conns c).status = .connecting
  tls_owner : ∀ c t, (s.tasks t).pc = .connectTls c → (s.conns c).owner = some t ∧ (s.conns c).status = .connecting

theorem inv_init : Inv init := by
  constructor <;> intros <;> simp_all [init, needsOwner]

/-- an action is admissible for the proved part: no cancellation / pool time-out is delivered in the
window between a pass assigning a connection and the caller starting on it (finding F-C05-f / F-C05-e) -/
def Admissible : Action → Prop
  | .cancelAssigned _ => False
  | _ => True


@[simp] theorem setPc_conns (s : State) (t : Nat) (pc : PC) : (setPc s t pc).conns = s.conns := rfl
@[simp] theorem setPc_tasks (s : State) (t : Nat) (pc : PC) :
    (setPc s t pc).tasks = upd s.tasks t { s.tasks t with pc := pc } := rfl
@[simp] theorem setConn_conns (s : State) (c : Nat) (v : Conn) : (setConn s c v).conns = upd s.conns c v := rfl
@[simp] theorem setConn_tasks (s : State) (c : Nat) (v : Conn) : (setConn s c v).tasks = s.tasks := rfl

macro "inv_close" : tactic =>
  `(tactic| (obtain ⟨i1, i2, i3, i4, i5, i6, i7, i8, i9, i10, i11, i12, i13, i14, i15, i16, i17, i18⟩ := ‹Inv _›
             constructor <;> intros <;>
             simp only [setPc_conns, setPc_tasks, setConn_conns, setConn_tasks] at * <;>
             grind [upd, heading, needsOwner]))

set_option maxHeartbeats 1600000 in
theorem inv_step (fx : Fixes) (hn : fx.closeNew = true) (ht : fx.closeOnTlsCancel = true)
    (s : State) (h : Inv s) (a : Action) (ha : Admissible a) : Inv (step fx s a) := by
  cases a with
  | arrive t =>
    simp only [step]; split
    · inv_close
    · exact h
  | assignIdle t c =>
    simp only [step]; split
    · inv_close
    · exact h
  | assignNew t c =>
    simp only [step]; split
    · inv_close
    · exact h
  | evict c =>
    simp only [step]; split
    · inv_close
    · exact h
  | dropClosed c =>
    simp only [step]; split
    · inv_close
    · exact h
  | start t =>
    simp only [step]; split
    · split
      · inv_close
      · split
        · exact h
        · inv_close
    · exact h
  | cancelAssigned t => exact absurd ha (by simp [Admissible])
  | waitCancel t =>
    simp only [step]; split
    · inv_close
    · exact h
  | tcp t o =>
    simp only [step]; split
    · split
      · inv_close
      · inv_close
    · exact h
  | tls t o =>
    simp only [step]; split
    · split
      · inv_close
      · inv_close
      · simp only [ht, if_true]; inv_close
    · exact h
  | gate t o =>
    simp only [step]; split
    · split
      · split
        · inv_close
        · inv_close
      · split
        · first | (split <;> inv_close) | inv_close
        · inv_close
    · exact h
  | io t o k =>
    simp only [step]; split
    · split
      · inv_close
      · inv_close
    · exact h
  | closed t =>
    simp only [step]; split
    · split
      · inv_close
      · inv_close
    · exact h
  | finish t =>
    simp only [step]; split
    · inv_close
    · exact h
  | poolClose c =>
    simp only [step]; split
    · inv_close
    · exact h

end Httpcore.Sys
