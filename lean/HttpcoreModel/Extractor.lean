/-!
Generic incremental extractor (`h11`-style pull parser): a state, a buffer, and a function that
either needs more data or produces one event, a new state and the unconsumed rest.  `drain` pulls
events until more data is needed; feeding data in segments is `drain` on the growing buffer.

The one generic theorem: if extraction is *stable* (more data appended to the buffer never changes
an extraction that was already possible), then the event sequence does not depend on how the byte
stream is cut into segments.
-/
namespace Httpcore

structure Extractor (σ ε : Type) where
  extract : σ → List Nat → Option (ε × σ × List Nat)
  rank : σ → Nat
  /-- every extraction consumes at least one byte or lowers the rank -/
  progress : ∀ s b e s' r, extract s b = some (e, s', r) →
    r.length < b.length ∨ (r.length = b.length ∧ rank s' < rank s)
  /-- appended data does not disturb an extraction that is already possible -/
  stable : ∀ s b e s' r x, extract s b = some (e, s', r) → extract s (b ++ x) = some (e, s', r ++ x)

namespace Extractor
variable {σ ε : Type} (E : Extractor σ ε)

/-- pull events until more data is needed: (events, state, residual buffer) -/
def drain (s : σ) (b : List Nat) : List ε × σ × List Nat :=
  match h : E.extract s b with
  | none => ([], s, b)
  | some (e, s', r) =>
    have := E.progress s b e s' r h
    let rec' := drain s' r
    (e :: rec'.1, rec'.2.1, rec'.2.2)
termination_by (b.length, E.rank s)
decreasing_by
  rcases this with h1 | ⟨h1, h2⟩
  · exact Prod.Lex.left _ _ h1
  · rw [h1]; exact Prod.Lex.right _ h2

theorem drain_none (s : σ) (b : List Nat) (h : E.extract s b = none) : E.drain s b = ([], s, b) := by
  rw [drain]; split
  · rfl
  · next e s' r h' => rw [h] at h'; cases h'

theorem drain_some (s : σ) (b : List Nat) (e : ε) (s' : σ) (r : List Nat)
    (h : E.extract s b = some (e, s', r)) :
    E.drain s b = (e :: (E.drain s' r).1, (E.drain s' r).2.1, (E.drain s' r).2.2) := by
  rw [drain]; split
  · next h' => rw [h] at h'; cases h'
  · next e2 s2 r2 h' =>
    rw [h] at h'; cases h'; rfl

/-- after draining, nothing more can be extracted from the residual -/
theorem drain_residual (s : σ) (b : List Nat) :
    E.extract (E.drain s b).2.1 (E.drain s b).2.2 = none := by
  induction s, b using drain.induct E with
  | case1 s b h => rw [E.drain_none s b h]; exact h
  | case2 s b e s' r h _ ih => rw [E.drain_some s b e s' r h]; exact ih

/-- draining a buffer with more data appended = draining, then draining the residual plus the new
data, from the state reached -/
theorem drain_append (s : σ) (b x : List Nat) :
    E.drain s (b ++ x) =
      ((E.drain s b).1 ++ (E.drain (E.drain s b).2.1 ((E.drain s b).2.2 ++ x)).1,
       (E.drain (E.drain s b).2.1 ((E.drain s b).2.2 ++ x)).2.1,
       (E.drain (E.drain s b).2.1 ((E.drain s b).2.2 ++ x)).2.2) := by
  induction s, b using drain.induct E with
  | case1 s b h => rw [E.drain_none s b h]; simp
  | case2 s b e s' r h _ ih =>
    rw [E.drain_some s b e s' r h, E.drain_some s (b ++ x) e s' (r ++ x) (E.stable s b e s' r x h), ih]
    simp

/-- feed one network segment: append to the buffer and drain -/
def feed (st : List ε × σ × List Nat) (seg : List Nat) : List ε × σ × List Nat :=
  let d := E.drain st.2.1 (st.2.2 ++ seg)
  (st.1 ++ d.1, d.2.1, d.2.2)

def feedAll (st : List ε × σ × List Nat) (segs : List (List Nat)) : List ε × σ × List Nat :=
  segs.foldl E.feed st

/-- **segmentation independence** — starting from a drained position, feeding the segments one by
one gives the same events, state and residual as draining the concatenation once. -/
theorem segmentation_independent (evs : List ε) (s : σ) (buf : List Nat) (segs : List (List Nat))
    (h : E.extract s buf = none) :
    E.feedAll (evs, s, buf) segs =
      (evs ++ (E.drain s (buf ++ segs.flatten)).1, (E.drain s (buf ++ segs.flatten)).2.1,
        (E.drain s (buf ++ segs.flatten)).2.2) := by
  induction segs generalizing evs s buf with
  | nil => simp [feedAll, E.drain_none s buf h]
  | cons seg rest ih =>
    simp only [feedAll, List.foldl_cons, List.flatten_cons]
    have hres := E.drain_residual s (buf ++ seg)
    have := ih (evs ++ (E.drain s (buf ++ seg)).1) (E.drain s (buf ++ seg)).2.1
      (E.drain s (buf ++ seg)).2.2 hres
    simp only [feedAll] at this
    simp only [feed]
    rw [this, ← List.append_assoc buf seg, E.drain_append s (buf ++ seg) rest.flatten]
    simp

end Extractor
end Httpcore
