/-
Helpers shared by every model module.  Core Lean only (no Mathlib) so that the
line-protocol driver can be linked as an executable.

Bytes are modelled as `List Nat`; the driver only ever produces values < 256, the
theorems hold for every list (a superset).
-/
namespace Httpcore

abbrev Byte := Nat
abbrev Bytes := List Nat

/-- ASCII lower-casing of one byte (`bytes.lower()` in Python touches A–Z only). -/
def lowerByte (b : Nat) : Nat := if 65 ≤ b ∧ b ≤ 90 then b + 32 else b

def lower (bs : Bytes) : Bytes := bs.map lowerByte

@[simp] theorem lower_nil : lower [] = [] := rfl
@[simp] theorem lower_cons (b : Byte) (bs : Bytes) : lower (b :: bs) = lowerByte b :: lower bs := rfl
@[simp] theorem lower_append (a b : Bytes) : lower (a ++ b) = lower a ++ lower b := by
  simp [lower]
@[simp] theorem lower_length (a : Bytes) : (lower a).length = a.length := by simp [lower]

theorem lowerByte_idem (b : Nat) : lowerByte (lowerByte b) = lowerByte b := by
  unfold lowerByte
  by_cases h : 65 ≤ b ∧ b ≤ 90
  · have h2 : ¬ (65 ≤ b + 32 ∧ b + 32 ≤ 90) := by omega
    rw [if_pos h, if_neg h2]
  · rw [if_neg h, if_neg h]

@[simp] theorem lower_idem (a : Bytes) : lower (lower a) = lower a := by
  induction a with
  | nil => rfl
  | cons b bs ih => simp [lowerByte_idem, ih]

/-- ASCII text to bytes. -/
def ascii (s : String) : Bytes := s.toList.map Char.toNat

/-- decimal rendering, as `b"%d" % n` / `str(n).encode()` -/
def decimal (n : Nat) : Bytes := (Nat.toDigits 10 n).map Char.toNat

/-! ### wire encoding for the driver -/

def hexDigit (n : Nat) : Char :=
  if n < 10 then Char.ofNat (48 + n) else Char.ofNat (87 + n)

def hexOfBytes (bs : Bytes) : String :=
  if bs.isEmpty then "-" else
  String.ofList (bs.foldr (fun b acc => hexDigit (b / 16 % 16) :: hexDigit (b % 16) :: acc) [])

def hexVal (c : Char) : Option Nat :=
  let n := c.toNat
  if 48 ≤ n ∧ n ≤ 57 then some (n - 48)
  else if 97 ≤ n ∧ n ≤ 102 then some (n - 87)
  else if 65 ≤ n ∧ n ≤ 70 then some (n - 55)
  else none

def bytesOfHexChars : List Char → Option Bytes
  | [] => some []
  | [_] => none
  | a :: b :: rest =>
    match hexVal a, hexVal b, bytesOfHexChars rest with
    | some x, some y, some r => some ((x * 16 + y) :: r)
    | _, _, _ => none

def bytesOfHex (s : String) : Option Bytes :=
  if s = "-" then some [] else bytesOfHexChars s.toList

/-- split a list on a separator element -/
def splitOnElem {α} [BEq α] (sep : α) : List α → List (List α)
  | [] => [[]]
  | x :: xs =>
    if x == sep then [] :: splitOnElem sep xs
    else match splitOnElem sep xs with
      | [] => [[x]]
      | h :: t => (x :: h) :: t

def tokens (line : String) : List String :=
  ((splitOnElem ' ' (line.toList.filter (fun c => c ≠ '\n' ∧ c ≠ '\r'))).filter (· ≠ [])).map String.ofList

def commaList (s : String) : List String :=
  if s = "-" then [] else (splitOnElem ',' s.toList).map String.ofList

def joinWith (sep : String) (xs : List String) : String :=
  if xs.isEmpty then "-" else sep.intercalate xs

end Httpcore

namespace Httpcore

/-- Exception classes that can reach a caller.  The first fifteen are the classes of
`httpcore/_exceptions.py`; `other` stands for any class that is not an httpcore class
(ValueError, an h2 / h11 / socksio exception, an OSError …); `cancelled` for the runtime's
cancellation exception. -/
inductive Exc
  | ConnectionNotAvailable | ProxyError | UnsupportedProtocol
  | ProtocolError | RemoteProtocolError | LocalProtocolError
  | TimeoutException | PoolTimeout | ConnectTimeout | ReadTimeout | WriteTimeout
  | NetworkError | ConnectError | ReadError | WriteError
  | other | cancelled
  deriving DecidableEq, Repr, Inhabited

def Exc.all : List Exc :=
  [.ConnectionNotAvailable, .ProxyError, .UnsupportedProtocol, .ProtocolError,
   .RemoteProtocolError, .LocalProtocolError, .TimeoutException, .PoolTimeout,
   .ConnectTimeout, .ReadTimeout, .WriteTimeout, .NetworkError, .ConnectError,
   .ReadError, .WriteError, .other, .cancelled]

def Exc.name : Exc → String
  | .ConnectionNotAvailable => "ConnectionNotAvailable" | .ProxyError => "ProxyError"
  | .UnsupportedProtocol => "UnsupportedProtocol" | .ProtocolError => "ProtocolError"
  | .RemoteProtocolError => "RemoteProtocolError" | .LocalProtocolError => "LocalProtocolError"
  | .TimeoutException => "TimeoutException" | .PoolTimeout => "PoolTimeout"
  | .ConnectTimeout => "ConnectTimeout" | .ReadTimeout => "ReadTimeout"
  | .WriteTimeout => "WriteTimeout" | .NetworkError => "NetworkError"
  | .ConnectError => "ConnectError" | .ReadError => "ReadError" | .WriteError => "WriteError"
  | .other => "Other" | .cancelled => "Cancelled"

def Exc.ofName (s : String) : Option Exc := Exc.all.find? (fun e => e.name == s)

theorem Exc.mem_all (e : Exc) : e ∈ Exc.all := by cases e <;> simp [Exc.all]

end Httpcore
