import HttpcoreModel.H1Read
import HttpcoreModel.H1Write
/-!
A server's rendering of a response head (status line, `name: value` lines, blank line) and the conditions under which it is
well-formed by h11's grammar - the hypothesis side of the C02 head round trip (`Props/C02Head.lean`).
-/
namespace Httpcore.C02H
open Httpcore Httpcore.H1

abbrev Header := Bytes × Bytes

def headerLine (h : Header) : Bytes := h.1 ++ [58, 32] ++ h.2

/-- `HTTP/a.b SP d1d2d3 SP reason` -/
def statusLine (a b d1 d2 d3 : Nat) (reason : Bytes) : Bytes :=
  [72, 84, 84, 80, 47, a, 46, b, 32, d1, d2, d3, 32] ++ reason

/-- the head as it travels: every line ends in CRLF, an empty line ends the head -/
def renderHead (a b d1 d2 d3 : Nat) (reason : Bytes) (hs : List Header) : Bytes :=
  (((statusLine a b d1 d2 d3 reason) :: hs.map headerLine).map (· ++ [13, 10])).flatten ++ [13, 10]

/-- the same conditions as a decision procedure (used by the driver, so that the harness applies the theorems only where they speak) -/
def wellFormedB (a b d1 d2 d3 : Nat) (reason : Bytes) (hs : List Header) : Bool :=
  isDigit a && isDigit b && isDigit d1 && isDigit d2 && isDigit d3 && decide (100 ≤ digitsVal [d1, d2, d3]) &&
  reason.all (fun c => isOWS c || isFieldVchar c) &&
  hs.all (fun h => h.1 != [] && h.1.all isTokenChar && H1W.validFieldValue h.2) &&
  decide (normalize none false hs = some hs)


end Httpcore.C02H
