import HttpcoreModel.Basic
/-!
Model of the HTTP/2 connection's bookkeeping (`httpcore/_async/http2.py`) at h2's event / call
interface: the stream-slot semaphore and its adjustment on SETTINGS (`:113-127`, `:383-402`), the
demultiplexing of events by stream id (`:335-381`), the send loop under flow control (`:261-279`,
`:479-495`), the receive-side credit of h2's `WindowManager` (`h2/windows.py`), and the GOAWAY rule
(`:342-348`).  Framing and HPACK are h2's (trusted).
-/
namespace Httpcore.H2

/-! ### stream slots -/

structure Slots where
  sem : Nat          -- permits available in `_max_streams_semaphore`
  held : Nat         -- streams that hold a permit (between acquire and `_response_closed`)
  maxS : Nat         -- `self._max_streams`
  want : Nat         -- the value the reader is adjusting `_max_streams` towards (= maxS when idle)
  deriving DecidableEq, Repr

/-- after `_send_connection_init`: a semaphore of 100 drained to 1 -/
def Slots.init : Slots := { sem := 1, held := 0, maxS := 1, want := 1 }

def localCap : Nat := 100

/-- `_receive_remote_settings_change` for MAX_CONCURRENT_STREAMS = n: releases happen at once;
acquisitions take what is available and leave the reader waiting for the rest -/
def Slots.settings (s : Slots) (n : Nat) : Slots :=
  let new := min n localCap
  if new = 0 ∨ s.want ≠ s.maxS then s         -- 0 is ignored; a second change cannot start while the reader is blocked
  else if new ≥ s.maxS then { s with sem := s.sem + (new - s.maxS), maxS := new, want := new }
  else
    let k := min s.sem (s.maxS - new)
    { s with sem := s.sem - k, maxS := s.maxS - k, want := new }

/-- a request takes a slot (`await self._max_streams_semaphore.acquire()`): only when a permit is
free and the reader is not queued for permits ahead of it -/
def Slots.openStream (s : Slots) : Option Slots :=
  if s.sem > 0 ∧ s.want = s.maxS then some { s with sem := s.sem - 1, held := s.held + 1 } else none

/-- `_response_closed`: the permit is released; a reader waiting to lower the limit takes it -/
def Slots.closeStream (s : Slots) : Slots :=
  if s.held = 0 then s
  else if s.want < s.maxS then { s with held := s.held - 1, maxS := s.maxS - 1 }
  else { s with held := s.held - 1, sem := s.sem + 1 }

/-- the reader is blocked inside the semaphore (holding the read lock) -/
def Slots.readerBlocked (s : Slots) : Bool := s.want < s.maxS

inductive SlotOp
  | settings (n : Nat)
  | open_
  | close
  deriving Repr

def Slots.step (s : Slots) : SlotOp → Slots
  | .settings n => s.settings n
  | .open_ => (s.openStream).getD s
  | .close => s.closeStream

/-! ### demultiplexing -/

/-- events are appended to the queue of their own stream, if that stream is registered -/
def route {α} (registered : List Nat) (queues : Nat → List α) (sid : Nat) (ev : α) : Nat → List α :=
  fun s => if s = sid ∧ sid ∈ registered then queues s ++ [ev] else queues s

def routeAll {α} (registered : List Nat) (queues : Nat → List α) : List (Nat × α) → Nat → List α
  | [] => queues
  | (sid, ev) :: rest => routeAll registered (route registered queues sid ev) rest

/-! ### sending under flow control -/

structure SendState where
  streamWin : Nat
  connWin : Nat
  maxFrame : Nat
  deriving DecidableEq, Repr

/-- `_wait_for_outgoing_flow`'s value -/
def flow (w : SendState) : Nat := min (min w.streamWin w.connWin) w.maxFrame

inductive Update
  | streamWindow (n : Nat)
  | connWindow (n : Nat)
  | maxFrame (n : Nat)
  | initialWindowDelta (up : Bool) (n : Nat)     -- SETTINGS_INITIAL_WINDOW_SIZE changed: stream window +/- n
  deriving Repr

def applyUpdate (w : SendState) : Update → SendState
  | .streamWindow n => { w with streamWin := w.streamWin + n }
  | .connWindow n => { w with connWin := w.connWin + n }
  | .maxFrame n => { w with maxFrame := n }
  | .initialWindowDelta true n => { w with streamWin := w.streamWin + n }
  | .initialWindowDelta false n => { w with streamWin := w.streamWin - n }

/-- `_send_stream_data` for one body chunk against a schedule of updates (one batch of updates per
read performed while waiting): the DATA chunks handed to h2, the data left unsent when the
schedule ends, and the final windows -/
def sendData : SendState → List (List Update) → List Nat → List (List Nat) × List Nat × SendState
  | w, _, [] => ([], [], w)
  | w, sched, d :: ds =>
    if flow w = 0 then
      match sched with
      | [] => ([], d :: ds, w)                        -- still waiting when the schedule ends
      | us :: rest => sendData (us.foldl applyUpdate w) rest (d :: ds)
    else
      let n := min (d :: ds).length (flow w)
      let chunk := (d :: ds).take n
      let r := sendData { w with streamWin := w.streamWin - n, connWin := w.connWin - n } sched ((d :: ds).drop n)
      (chunk :: r.1, r.2.1, r.2.2)
termination_by w sched data => (data.length, sched.length)
decreasing_by
  all_goals simp_wf
  · right; simp
  · left
    have h1 : 0 < flow w := by omega
    simp [List.length_drop]
    omega

/-! ### receive-side credit (h2's WindowManager) -/

structure Win where
  max : Nat          -- max_window_size
  cur : Nat          -- current_window_size (what the peer may still send)
  proc : Nat         -- _bytes_processed: acknowledged by httpcore, not yet returned to the peer
  deriving DecidableEq, Repr

/-- `window_consumed(n)`: DATA of flow-controlled length n arrives -/
def Win.consume (w : Win) (n : Nat) : Option Win := if n ≤ w.cur then some { w with cur := w.cur - n } else none

/-- `process_bytes(n)` = acknowledge_received_data: returns the WINDOW_UPDATE increment emitted -/
def Win.process (w : Win) (n : Nat) : Win × Nat :=
  let proc := w.proc + n
  if proc = 0 then ({ w with proc := proc }, 0)
  else
    let maxInc := w.max - w.cur
    if (w.cur = 0 ∧ proc > min 1024 (w.max / 4)) ∨ proc ≥ w.max / 2 then
      let inc := min proc maxInc
      ({ w with cur := w.cur + inc, proc := 0 }, inc)
    else ({ w with proc := proc }, 0)

/-! ### GOAWAY -/

inductive GoawayOutcome | connectionNotAvailable | remoteProtocolError
  deriving DecidableEq, Repr

/-- `_receive_events` once a GOAWAY with `last_stream_id = last` is stored; `strict = true` is the
repaired comparison, `false` the 1.0.7 expression `stream_id and last_stream_id and stream_id > last` -/
def goawayOutcome (strict : Bool) (sid : Option Nat) (last : Nat) : GoawayOutcome :=
  match sid with
  | none => .remoteProtocolError
  | some id =>
    if strict then (if id > last then .connectionNotAvailable else .remoteProtocolError)
    else (if id ≠ 0 ∧ last ≠ 0 ∧ id > last then .connectionNotAvailable else .remoteProtocolError)

end Httpcore.H2
