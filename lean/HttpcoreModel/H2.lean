import HttpcoreModel.Generated
/-!
Model of the HTTP/2 connection's bookkeeping (`httpcore/_async/http2.py`) at h2's event / call
interface: the stream-slot semaphore and its adjustment on SETTINGS (`:113-127`, `:383-402`), the
demultiplexing of events by stream id (`:335-381`), the send loop under flow control (`:261-279`,
`:479-495`), the receive-side credit of h2's `WindowManager` (`h2/windows.py`), and the GOAWAY rule
(`:342-348`).  Framing and HPACK are h2's (trusted).
-/
namespace Httpcore.H2

/-! ### stream slots -/

structure Slots where
  sem : Nat          -- permits available in `_max_streams_semaphore`
  held : Nat         -- streams that hold a permit (between the acquire loop and `_response_closed`)
  maxS : Nat         -- `self._max_streams`: the limit in force, min(server value, local cap)
  debt : Nat         -- `self._max_streams_debt`: permits (free or in use) beyond a lowered limit, withheld as they come free
  deriving DecidableEq, Repr

/-- the local MAX_CONCURRENT_STREAMS setting (regenerated from `_send_connection_init`) -/
def localCap : Nat := Gen.h2LocalMaxStreams

/-- after `_send_connection_init`: a semaphore of `localCap` drained to the initial `_max_streams` -/
def Slots.init : Slots :=
  { sem := Gen.h2InitialMaxStreams, held := 0, maxS := Gen.h2InitialMaxStreams, debt := 0 }

/-- `_receive_remote_settings_change` for MAX_CONCURRENT_STREAMS = n. Raising the limit first cancels outstanding debt, then
releases permits. Lowering it never waits: the surplus becomes debt. -/
def Slots.settings (s : Slots) (n : Nat) : Slots :=
  let new := min n localCap
  if new = 0 ∨ new = s.maxS then s
  else if new > s.maxS then
    let up := new - s.maxS
    let pay := min s.debt up
    { s with sem := s.sem + (up - pay), debt := s.debt - pay, maxS := new }
  else { s with debt := s.debt + (s.maxS - new), maxS := new }

/-- the acquire loop of a request (`while True: acquire(); if debt > 0: debt -= 1; continue; break`): permits obtained while
debt is outstanding are withheld; the request gets a slot (`true`) if a permit is left after that, otherwise it waits -/
def Slots.openStream (s : Slots) : Slots × Bool :=
  let k := min s.sem s.debt
  let s1 : Slots := { s with sem := s.sem - k, debt := s.debt - k }
  if s1.sem > 0 then ({ s1 with sem := s1.sem - 1, held := s1.held + 1 }, true) else (s1, false)

/-- `_response_closed`: the permit pays off debt if there is any, otherwise it is released -/
def Slots.closeStream (s : Slots) : Slots :=
  if s.held = 0 then s
  else if s.debt > 0 then { s with held := s.held - 1, debt := s.debt - 1 }
  else { s with held := s.held - 1, sem := s.sem + 1 }

inductive SlotOp
  | settings (n : Nat)
  | open_
  | close
  deriving Repr

def Slots.step (s : Slots) : SlotOp → Slots
  | .settings n => s.settings n
  | .open_ => s.openStream.1
  | .close => s.closeStream

/-! #### the 1.0.7 behaviour (kept for the record of finding F-C12-a): lowering the limit *waits* for the permits -/

structure Slots107 where
  sem : Nat
  held : Nat
  maxS : Nat
  want : Nat         -- the value the reader is adjusting `_max_streams` towards (= maxS when idle)
  deriving DecidableEq, Repr

def Slots107.settings (s : Slots107) (n : Nat) : Slots107 :=
  let new := min n localCap
  if new = 0 ∨ s.want ≠ s.maxS then s
  else if new ≥ s.maxS then { s with sem := s.sem + (new - s.maxS), maxS := new, want := new }
  else
    let k := min s.sem (s.maxS - new)
    { s with sem := s.sem - k, maxS := s.maxS - k, want := new }

def Slots107.openStream (s : Slots107) : Option Slots107 :=
  if s.sem > 0 ∧ s.want = s.maxS then some { s with sem := s.sem - 1, held := s.held + 1 } else none

def Slots107.closeStream (s : Slots107) : Slots107 :=
  if s.held = 0 then s
  else if s.want < s.maxS then { s with held := s.held - 1, maxS := s.maxS - 1 }
  else { s with held := s.held - 1, sem := s.sem + 1 }

/-- the reader is blocked inside the semaphore, holding the read lock -/
def Slots107.readerBlocked (s : Slots107) : Bool := s.want < s.maxS

/-! ### demultiplexing -/

/-- events are appended to the queue of their own stream, if that stream is registered -/
def route {α} (registered : List Nat) (queues : Nat → List α) (sid : Nat) (ev : α) : Nat → List α :=
  fun s => if s = sid ∧ sid ∈ registered then queues s ++ [ev] else queues s

def routeAll {α} (registered : List Nat) (queues : Nat → List α) : List (Nat × α) → Nat → List α
  | [] => queues
  | (sid, ev) :: rest => routeAll registered (route registered queues sid ev) rest

/-! ### sending under flow control -/

structure SendState where
  streamWin : Int      -- may be negative after SETTINGS_INITIAL_WINDOW_SIZE was lowered
  connWin : Int
  maxFrame : Nat
  deriving DecidableEq, Repr

/-- `min(local_flow_control_window(stream), max_outbound_frame_size)` -/
def flow (w : SendState) : Int := min (min w.streamWin w.connWin) w.maxFrame

inductive Update
  | streamWindow (n : Nat)                  -- WINDOW_UPDATE on the stream
  | connWindow (n : Nat)                    -- WINDOW_UPDATE on the connection
  | maxFrame (n : Nat)                      -- SETTINGS_MAX_FRAME_SIZE
  | initialWindowDelta (d : Int)            -- SETTINGS_INITIAL_WINDOW_SIZE changed by d (up or down)
  deriving Repr

def applyUpdate (w : SendState) : Update → SendState
  | .streamWindow n => { w with streamWin := w.streamWin + n }
  | .connWindow n => { w with connWin := w.connWin + n }
  | .maxFrame n => { w with maxFrame := n }
  | .initialWindowDelta d => { w with streamWin := w.streamWin + d }

def applyAll (w : SendState) (us : List Update) : SendState := us.foldl applyUpdate w

theorem flowWaits_false_pos {f : Int} (h : Gen.flowWaits f = false) : 0 < f := by
  simp [Gen.flowWaits] at h; omega

structure SendResult where
  emitted : List (List Nat × SendState)     -- each DATA payload with the windows it was sent against
  left : List Nat                           -- unsent when the schedule of reads ran out
  final : SendState

/-- `_send_stream_data` for one body chunk against a schedule of updates (one batch per read performed
while waiting in `_wait_for_outgoing_flow`) -/
def sendData : SendState → List (List Update) → List Nat → SendResult
  | w, _, [] => ⟨[], [], w⟩
  | w, sched, d :: ds =>
    if h : Gen.flowWaits (flow w) = true then
      match sched with
      | [] => ⟨[], d :: ds, w⟩                       -- still waiting when the schedule ends
      | us :: rest => sendData (applyAll w us) rest (d :: ds)
    else
      let n := min (d :: ds).length (flow w).toNat
      let r := sendData { w with streamWin := w.streamWin - n, connWin := w.connWin - n } sched ((d :: ds).drop n)
      ⟨((d :: ds).take n, w) :: r.emitted, r.left, r.final⟩
termination_by _ sched data => (data.length, sched.length)
decreasing_by
  · simp_wf
    right; simp
  · simp_wf
    left
    have h1 : 0 < flow w := flowWaits_false_pos (by simpa using h)
    have : 0 < (flow w).toNat := by omega
    omega

/-! ### receive-side credit (h2's WindowManager, driven by `acknowledge_received_data`) -/

structure Win where
  max : Nat          -- max_window_size
  cur : Nat          -- current_window_size: what the peer may still send
  pend : Nat         -- received, not yet acknowledged by httpcore (ghost)
  proc : Nat         -- _bytes_processed: acknowledged, not yet returned to the peer
  deriving DecidableEq, Repr

/-- `window_consumed(n)`: DATA of flow-controlled length n arrives (h2 rejects n > cur) -/
def Win.consume (w : Win) (n : Nat) : Option Win :=
  if n ≤ w.cur then some { w with cur := w.cur - n, pend := w.pend + n } else none

/-- `process_bytes(n)` (= `acknowledge_received_data(n)`): the new state and the WINDOW_UPDATE increment emitted -/
def Win.process (w : Win) (n : Nat) : Win × Nat :=
  let proc := w.proc + n
  let w' := { w with pend := w.pend - n, proc := proc }
  if proc = 0 then (w', 0)
  else
    let maxInc := w.max - w.cur
    if (w.cur = 0 ∧ proc > min 1024 (w.max / 4)) ∨ proc ≥ w.max / 2 then
      let inc := min proc maxInc
      ({ w' with cur := w.cur + inc, proc := 0 }, inc)
    else (w', 0)

/-! ### receiving a response (`_receive_response`, `_receive_response_body`, `_receive_stream_event`) -/

/-- the events h2 emits for one stream, in the order the shared reader queued them -/
inductive SEv
  | response (status : Nat) (headers : List (Bytes × Bytes))
  | data (d : Bytes)
  | ended
  | reset (code : Nat)
  deriving DecidableEq, Repr

inductive RecvOutcome
  | complete (status : Nat) (headers : List (Bytes × Bytes)) (body : Bytes)
  | failed              -- RemoteProtocolError (stream reset)
  | needMore            -- the queue ran dry: the caller reads on (and fails if the connection ends)
  deriving DecidableEq, Repr

/-- body phase: DATA is appended, END_STREAM completes, a reset fails; `resetFails = false` would be a reader that
treats RST_STREAM as the end of the body -/
def recvBody (resetFails : Bool) (status : Nat) (hs : List (Bytes × Bytes)) (acc : Bytes) : List SEv → RecvOutcome
  | [] => .needMore
  | .data d :: rest => recvBody resetFails status hs (acc ++ d) rest
  | .ended :: _ => .complete status hs acc
  | .reset _ :: _ => if resetFails then .failed else .complete status hs acc
  | .response _ _ :: rest => recvBody resetFails status hs acc rest

/-- head phase: everything before the response headers is skipped, except a reset -/
def recvHead (resetFails : Bool) : List SEv → RecvOutcome
  | [] => .needMore
  | .response st hs :: rest => recvBody resetFails st hs [] rest
  | .reset _ :: rest => if resetFails then .failed else recvHead resetFails rest
  | _ :: rest => recvHead resetFails rest

/-- what the code does (the two flags are regenerated from the source) -/
def recv (evs : List SEv) : RecvOutcome :=
  recvHead (Gen.h2ResetAlwaysFails && Gen.h2BodyEndsOnlyOnStreamEnded) evs

/-! ### GOAWAY and re-sending -/

inductive GoawayOutcome | connectionNotAvailable | remoteProtocolError
  deriving DecidableEq, Repr

/-- `_receive_events` once a GOAWAY with `last_stream_id = last` is stored (the test is regenerated from the source) -/
def goawayOutcome (sid last : Nat) : GoawayOutcome :=
  if Gen.goawayRetry sid last then .connectionNotAvailable else .remoteProtocolError

/-- one transmission attempt of a call as the pool sees it -/
inductive AttemptResult | response | notAvailable | failed
  deriving DecidableEq, Repr

structure Attempt where
  conn : Nat
  wrote : Bool          -- request bytes reached this connection
  refused : Bool        -- a GOAWAY named a last-stream-id below the request's stream
  result : AttemptResult
  deriving DecidableEq, Repr

/-- the pool's loop (`connection_pool.py:handle_async_request`): attempts are consumed until one does not end in
ConnectionNotAvailable -/
def attemptsUsed : List Attempt → List Attempt
  | [] => []
  | a :: rest => if a.result = .notAvailable then a :: attemptsUsed rest else [a]

end Httpcore.H2
