import HttpcoreModel.Extractor
import HttpcoreModel.Basic
/-!
Model of the HTTP/1.1 response reader as httpcore drives it: h11 0.14's `ReceiveBuffer`,
`maybe_read_from_SEND_RESPONSE_server`, header decoding and normalisation, `_body_framing`, the
Content-Length / chunked / until-close readers (`h11/_readers.py`), and on top the loops
`_receive_response_headers`, `_receive_response_body`, `_receive_event` of `httpcore/_async/http11.py`.

Body bytes are extracted one at a time (an abstraction of h11's "as much as is buffered": only
the concatenation of the delivered chunks is compared with the implementation).
-/
namespace Httpcore.H1
open Httpcore

structure Head where
  version : Bytes            -- "1.1", "1.0"
  status : Nat
  reason : Bytes
  headers : List (Bytes × Bytes)   -- raw name, value as h11 reports them
  deriving DecidableEq, Repr

inductive Err
  | protocol        -- h11 raises RemoteProtocolError (or Local re-raised as Remote)
  | outOfDomain     -- input outside the modelled grammar
  deriving DecidableEq, Repr

inductive Ev
  | info (h : Head)
  | response (h : Head)
  | data (b : Nat)
  | skip                    -- a byte consumed without an event (chunk CRLF)
  | eom
  | fail (e : Err)
  deriving DecidableEq, Repr

inductive St
  | head
  | cl (n : Nat)
  | chunkSize
  | chunkData (n : Nat)
  | chunkDiscard (k : Nat)
  | trailers
  | untilClose
  | done
  | switched
  | failed
  deriving DecidableEq, Repr

/-- what the reader needs to know about the request -/
structure ReqInfo where
  isHead : Bool
  isConnect : Bool
  hasUpgrade : Bool
  deriving DecidableEq, Repr

/-! ### buffer searches -/

/-- length of a blank-line terminator `\n\r?\n` at the start of the list -/
def blankLen : Bytes → Option Nat
  | 10 :: 10 :: _ => some 2
  | 10 :: 13 :: 10 :: _ => some 3
  | _ => none

/-- `blank_line_regex.search`: (bytes up to and including the first blank line, rest) -/
def findBlank : Bytes → Option (Bytes × Bytes)
  | [] => none
  | x :: r =>
    match blankLen (x :: r) with
    | some k => some ((x :: r).take k, (x :: r).drop k)
    | none => match findBlank r with
      | some (h, t) => some (x :: h, t)
      | none => none

/-- `find(b"\r\n")`: (line including its CRLF, rest) -/
def findCRLF : Bytes → Option (Bytes × Bytes)
  | [] => none
  | [_] => none
  | x :: y :: r =>
    if x = 13 ∧ y = 10 then some ([13, 10], r)
    else match findCRLF (y :: r) with
      | some (h, t) => some (x :: h, t)
      | none => none

/-! ### character classes of `h11/_abnf.py` -/

def isTokenChar (b : Nat) : Bool :=
  (48 ≤ b && b ≤ 57) || (65 ≤ b && b ≤ 90) || (97 ≤ b && b ≤ 122) ||
  b == 45 || b == 33 || b == 35 || b == 36 || b == 37 || b == 38 || b == 39 || b == 42 ||
  b == 43 || b == 46 || b == 94 || b == 95 || b == 96 || b == 124 || b == 126

/-- `\s` of a bytes regex -/
def isReSpace (b : Nat) : Bool := b == 32 || (9 ≤ b && b ≤ 13)
/-- `[^\x00\s]` -/
def isFieldVchar (b : Nat) : Bool := b != 0 && !isReSpace b
def isOWS (b : Nat) : Bool := b == 32 || b == 9
def isDigit (b : Nat) : Bool := 48 ≤ b && b ≤ 57
def isHexDig (b : Nat) : Bool := isDigit b || (65 ≤ b && b ≤ 70) || (97 ≤ b && b ≤ 102)

def stripOWS (v : Bytes) : Bytes := ((v.dropWhile isOWS).reverse.dropWhile isOWS).reverse
/-- `bytes.strip()` -/
def stripSpace (v : Bytes) : Bytes := ((v.dropWhile isReSpace).reverse.dropWhile isReSpace).reverse

def digitsVal (ds : Bytes) : Nat := ds.foldl (fun acc d => acc * 10 + (d - 48)) 0
def hexVal1 (d : Nat) : Nat := if d ≤ 57 then d - 48 else if d ≤ 70 then d - 55 else d - 87
def hexValue (ds : Bytes) : Nat := ds.foldl (fun acc d => acc * 16 + hexVal1 d) 0

/-! ### head parsing -/

/-- `out.split(b"\n")` with a trailing `\r` removed from every line -/
def splitLines (b : Bytes) : List Bytes :=
  (splitOnElem 10 b).map fun l =>
    match l.reverse with
    | 13 :: r => r.reverse
    | _ => l

/-- status line: `HTTP/d.d SP ddd [SP reason]` (full match) -/
def parseStatusLine (l : Bytes) : Option (Bytes × Nat × Bytes) :=
  match l with
  | 72 :: 84 :: 84 :: 80 :: 47 :: a :: 46 :: b :: 32 :: d1 :: d2 :: d3 :: rest =>
    if isDigit a && isDigit b && isDigit d1 && isDigit d2 && isDigit d3 then
      match rest with
      | [] => some ([a, 46, b], digitsVal [d1, d2, d3], [])
      | 32 :: reason =>
        if reason.all (fun c => isOWS c || isFieldVchar c) then
          some ([a, 46, b], digitsVal [d1, d2, d3], reason)
        else none
      | _ => none
    else none
  | _ => none

/-- `_obsolete_line_fold`; `none` = continuation line at the start (error) -/
def obsFold : Option Bytes → List Bytes → Option (List Bytes)
  | last, [] => some (match last with | none => [] | some l => [l])
  | last, line :: rest =>
    match line with
    | c :: _ =>
      if isOWS c then
        match last with
        | none => none
        | some l => obsFold (some (l ++ 32 :: line.dropWhile isOWS)) rest
      else
        match last with
        | none => obsFold (some line) rest
        | some l => (obsFold (some line) rest).map (l :: ·)
    | [] =>
      match last with
      | none => obsFold (some line) rest
      | some l => (obsFold (some line) rest).map (l :: ·)

/-- `header_field_re` full match -/
def parseHeaderLine (l : Bytes) : Option (Bytes × Bytes) :=
  let name := l.takeWhile (· != 58)
  match l.dropWhile (· != 58) with
  | [] => none
  | _ :: v =>
    if name != [] && name.all isTokenChar && v.all (fun c => isOWS c || isFieldVchar c) then
      some (name, stripOWS v)
    else none

def optAllM {α β} (f : α → Option β) : List α → Option (List β)
  | [] => some []
  | a :: t => match f a, optAllM f t with
    | some b, some bs => some (b :: bs)
    | _, _ => none

/-- `normalize_and_validate(..., _parsed=True)`: `none` = LocalProtocolError -/
def normalize : Option Bytes → Bool → List (Bytes × Bytes) → Option (List (Bytes × Bytes))
  | _, _, [] => some []
  | seenCL, sawTE, (n, v) :: rest =>
    let ln := lower n
    if ln = ascii "content-length" then
      let parts := ((splitOnElem 44 v).map stripSpace).eraseDups
      match parts with
      | [one] =>
        if one != [] && one.all isDigit then
          match seenCL with
          | none => (normalize (some one) sawTE rest).map ((n, one) :: ·)
          | some prev => if prev = one then normalize seenCL sawTE rest else none
        else none
      | _ => none
    else if ln = ascii "transfer-encoding" then
      if sawTE then none
      else if lower v = ascii "chunked" then (normalize seenCL true rest).map ((n, lower v) :: ·)
      else none
    else (normalize seenCL sawTE rest).map ((n, v) :: ·)

/-- `get_comma_header` -/
def commaHeader (hs : List (Bytes × Bytes)) (name : Bytes) : List Bytes :=
  (hs.filter (fun h => lower h.1 = name)).flatMap fun h =>
    ((splitOnElem 44 (lower h.2)).map stripSpace).filter (· != [])

inductive HeadResult
  | ok (isInfo : Bool) (h : Head)
  | bad (e : Err)

/-- a complete head (everything up to and including the blank line) to an event -/
def parseHead (raw : Bytes) : HeadResult :=
  let lines := splitLines raw
  let lines := lines.take (lines.length - 2)
  match lines with
  | [] => .bad .protocol
  | sl :: hl =>
    match parseStatusLine sl with
    | none => .bad .protocol
    | some (ver, status, reason) =>
      match obsFold none hl with
      | none => .bad .protocol
      | some folded =>
        match optAllM parseHeaderLine folded with
        | none => .bad .protocol
        | some hs =>
          match normalize none false hs with
          | none => .bad .protocol
          | some hs' =>
            if status < 100 then .bad .protocol
            else .ok (status < 200) { version := ver, status := status, reason := reason, headers := hs' }

/-- state after a final response head (`_body_framing`, switch events) -/
def afterResponse (ri : ReqInfo) (h : Head) : St :=
  if ri.isConnect && 200 ≤ h.status && h.status < 300 then .switched
  else if h.status = 204 || h.status = 304 || ri.isHead then .cl 0
  else if commaHeader h.headers (ascii "transfer-encoding") != [] then .chunkSize
  else match commaHeader h.headers (ascii "content-length") with
    | v :: _ => .cl (digitsVal v)
    | [] => .untilClose

/-- chunk header `HEX{1,20}(;.*)?[ \t]*\r\n` (full match): the size -/
def parseChunkHeader (line : Bytes) : Option Nat :=
  let body := line.take (line.length - 2)
  let hexes := body.takeWhile isHexDig
  let rest := body.dropWhile isHexDig
  if hexes.length = 0 || hexes.length > 20 then none
  else match rest with
    | [] => some (hexValue hexes)
    | 59 :: ext => if ext.contains 10 then none else some (hexValue hexes)
    | _ => if rest.all isOWS then some (hexValue hexes) else none

/-- head state.  A first byte below 0x21 is always an error: h11 raises at once when no blank
line is buffered yet (`is_next_line_obviously_invalid_request_line`), "no response line" for a
leading LF / CRLF, and otherwise the status-line regex cannot match.  On failure nothing is consumed. -/
def extractHead (ri : ReqInfo) (buf : Bytes) : Option (Ev × St × Bytes) :=
  match buf with
  | [] => none
  | c :: _ =>
    if c < 33 then some (.fail .protocol, .failed, buf)
    else match findBlank buf with
      | none => none
      | some (raw, rest) =>
        match parseHead raw with
        | .bad e => some (.fail e, .failed, buf)
        | .ok true h =>
          if h.status = 101 then
            if ri.hasUpgrade then some (.info h, .switched, rest) else some (.fail .protocol, .failed, buf)
          else some (.info h, .head, rest)
        | .ok false h => some (.response h, afterResponse ri h, rest)

def extractChunkSize (buf : Bytes) : Option (Ev × St × Bytes) :=
  match findCRLF buf with
  | none => none
  | some (line, rest) =>
    match parseChunkHeader line with
    | none => some (.fail .protocol, .failed, buf)
    | some 0 => some (.skip, .trailers, rest)
    | some (n + 1) => some (.skip, .chunkData (n + 1), rest)

def trailersOk (raw : Bytes) : Option Err :=
  let lines := splitLines raw
  let lines := lines.take (lines.length - 2)
  match obsFold none lines with
  | none => some .protocol
  | some folded =>
    match optAllM parseHeaderLine folded with
    | none => some .protocol
    | some hs =>
      if hs.any (fun h => lower h.1 = ascii "content-length" || lower h.1 = ascii "transfer-encoding")
      then some .outOfDomain else none

def extractTrailers (buf : Bytes) : Option (Ev × St × Bytes) :=
  match buf with
  | [] => none
  | 10 :: r => some (.eom, .done, r)
  | c :: t =>
    if c = 13 ∧ t.head? = some 10 then some (.eom, .done, t.drop 1)
    else match findBlank buf with
      | none => none
      | some (raw, rest) =>
        match trailersOk raw with
        | some e => some (.fail e, .failed, buf)
        | none => some (.eom, .done, rest)

/-- one step of the reader: `none` = NEED_DATA -/
def extract (ri : ReqInfo) : St → Bytes → Option (Ev × St × Bytes)
  | .head, buf => extractHead ri buf
  | .cl 0, buf => some (.eom, .done, buf)
  | .cl (_ + 1), [] => none
  | .cl (n + 1), b :: r => some (.data b, .cl n, r)
  | .chunkSize, buf => extractChunkSize buf
  | .chunkData 0, _ => none
  | .chunkData (_ + 1), [] => none
  | .chunkData (n + 1), b :: r => some (.data b, if n = 0 then .chunkDiscard 2 else .chunkData n, r)
  | .chunkDiscard 0, _ => none
  | .chunkDiscard (_ + 1), [] => none
  | .chunkDiscard (k + 1), _ :: r => some (.skip, if k = 0 then .chunkSize else .chunkDiscard k, r)
  | .trailers, buf => extractTrailers buf
  | .untilClose, [] => none
  | .untilClose, b :: r => some (.data b, .untilClose, r)
  | .done, _ => none
  | .switched, _ => none
  | .failed, _ => none

def rank : St → Nat
  | .head => 1
  | .cl 0 => 1
  | .chunkSize => 1
  | .trailers => 1
  | _ => 0

end Httpcore.H1
