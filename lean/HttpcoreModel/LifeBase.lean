/-!
State spaces of the two connection objects' life-cycles (`AsyncHTTP11Connection`, `AsyncHTTP2Connection`): exactly the
attributes that `handle_async_request`'s gate, `_response_closed`, `aclose` and the five status predicates read or write.
The functions over these structures are *generated from the source* (`Generated.lean`, section "life-cycle"); this file only fixes
the vocabulary the translator may use.  Times are natural numbers (the clock is a parameter `now`).
-/
namespace Httpcore.Life

/-- `HTTPConnectionState` (HTTP/2 has no NEW) -/
inductive CS | new | active | idle | closed
  deriving DecidableEq, Repr, Inhabited

/-- h11's state of one side, as far as `_response_closed` distinguishes: DONE or anything else -/
structure H1 where
  st : CS := .new                     -- `_state`
  count : Nat := 0                    -- `_request_count`
  expireAt : Option Nat := none       -- `_expire_at`
  ka : Option Nat := none             -- `_keepalive_expiry`
  ourDone : Bool := false             -- `_h11_state.our_state is h11.DONE`
  theirDone : Bool := false           -- `_h11_state.their_state is h11.DONE`
  cycles : Nat := 0                   -- number of `start_next_cycle()` calls
  sockCloses : Nat := 0               -- number of `_network_stream.aclose()` calls
  raised : Bool := false              -- the translated block raised ConnectionNotAvailable
  deriving DecidableEq, Repr, Inhabited

structure H2 where
  st : CS := .idle                    -- `_state`
  count : Int := 0                    -- `_request_count` (decremented when a request backs out)
  expireAt : Option Nat := none       -- `_expire_at`
  ka : Option Nat := none             -- `_keepalive_expiry`
  streams : Nat := 0                  -- `len(self._events)`: streams whose response has not been closed
  starting : Nat := 0                 -- `_starting_requests`: accepted, stream not opened yet
  terminated : Bool := false          -- `_connection_terminated is not None`
  usedAll : Bool := false             -- `_used_all_stream_ids`
  connErr : Bool := false             -- `_connection_error`
  h2Closed : Bool := false            -- `_h2_state.state_machine.state == CLOSED` (set by `close_connection()`, GOAWAY, ...)
  sockCloses : Nat := 0
  raised : Bool := false
  deriving DecidableEq, Repr, Inhabited

end Httpcore.Life
