import HttpcoreModel.Generated
/-!
Model of `scripts/unasync.py`: the line-by-line regex substitution that produces `httpcore/_sync` from
`httpcore/_async`.  Every pattern is compiled as `(^|\b)` + regex + `($|\b)` and applied with `re.sub` (leftmost,
non-overlapping), one pattern after the other.  The table itself is regenerated from the script (`Gen.unasyncSubs`);
a pattern is a sequence of literal characters and `.` wildcards, or the class-name pattern `Async([A-Z][A-Za-z0-9_]*)`.
ASCII only: Python's `\b` is Unicode-aware, which matters only next to non-ASCII letters (the correspondence check
runs every source line through both).
-/
namespace Httpcore.Unasync
open Httpcore

def isWord (c : Char) : Bool := c.isAlphanum || c = '_'

/-- Python's `\b` between `prev` (the character before the position, if any) and the rest of the line -/
def boundary (prev : Option Char) (rest : List Char) : Bool :=
  let a := match prev with | some c => isWord c | none => false
  let b := match rest with | c :: _ => isWord c | [] => false
  a != b

/-- `(^|\b)`: start of the line, or a word boundary -/
def startOk (prev : Option Char) (rest : List Char) : Bool := prev.isNone || boundary prev rest

/-- `($|\b)`: end of the line, just before its final newline, or a word boundary -/
def endOk (prev : Option Char) (rest : List Char) : Bool :=
  rest = [] || rest = ['\n'] || boundary prev rest

/-- one pattern element: a literal character or `.` (any character but newline) -/
abbrev PChar := Option Char

inductive Pat
  | lit (src : List PChar) (dst : List Char)
  | asyncClass
  deriving Repr, DecidableEq

def ofGen : Gen.UPat → Pat
  | .lit src dst => .lit (src.map fun c => if c = '.' then none else some c) dst.toList
  | .asyncClass => .asyncClass

def table : List Pat := Gen.unasyncSubs.map ofGen

def pmatch (p : PChar) (c : Char) : Bool :=
  match p with
  | some x => x == c
  | none => c != '\n'

/-- match a literal/wildcard sequence at the head of the input: the characters consumed and the rest -/
def matchPrefix : List PChar → List Char → Option (List Char × List Char)
  | [], rest => some ([], rest)
  | _ :: _, [] => none
  | p :: ps, c :: cs =>
    if pmatch p c then
      (matchPrefix ps cs).map fun r => (c :: r.1, r.2)
    else none

def lastOr (prev : Option Char) : List Char → Option Char
  | [] => prev
  | [c] => some c
  | _ :: cs => lastOr prev cs

/-- try the pattern at the current position: replacement text, remaining input, last character consumed -/
def matchAt (p : Pat) (prev : Option Char) (s : List Char) : Option (List Char × List Char × Option Char) :=
  if !startOk prev s then none else
  match p with
  | .lit src dst =>
    match matchPrefix src s with
    | some (used, rest) =>
      let pv := lastOr prev used
      if used ≠ [] && endOk pv rest then some (dst, rest, pv) else none
    | none => none
  | .asyncClass =>
    match matchPrefix ("Async".toList.map some) s with
    | some (_, c :: rest) =>
      if c.isUpper then
        let name := c :: rest.takeWhile isWord
        let rest' := rest.dropWhile isWord
        let pv := lastOr prev name
        if endOk pv rest' then some (name, rest', pv) else none
      else none
    | _ => none

/-- `re.sub(pattern, repl, line)` from a position on (fuel = remaining length + 1) -/
def subFrom (p : Pat) : Nat → Option Char → List Char → List Char
  | 0, _, s => s
  | _, _, [] => []
  | fuel + 1, prev, c :: cs =>
    match matchAt p prev (c :: cs) with
    | some (out, rest, pv) => out ++ subFrom p fuel pv rest
    | none => c :: subFrom p fuel (some c) cs

def sub (p : Pat) (line : List Char) : List Char := subFrom p (line.length + 1) none line

def unasyncLine (t : List Pat) (line : List Char) : List Char := t.foldl (fun l p => sub p l) line

/-- `unasync_file`: every line on its own -/
def unasyncFile (t : List Pat) (lines : List (List Char)) : List (List Char) := lines.map (unasyncLine t)

/-- the first element a match of the pattern must start with -/
def core : Pat → List PChar
  | .lit src _ => src
  | .asyncClass => "Async".toList.map some

/-- does the pattern's character sequence occur anywhere in the line (boundaries ignored)? -/
def occurs (pc : List PChar) : List Char → Bool
  | [] => (matchPrefix pc []).isSome
  | c :: cs => (matchPrefix pc (c :: cs)).isSome || occurs pc cs

end Httpcore.Unasync
