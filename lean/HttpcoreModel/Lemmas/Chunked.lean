import HttpcoreModel.Lemmas.Hex
import HttpcoreModel.H1Obs
import HttpcoreModel.Lemmas.ListSplit
/-! The chunked encoding written by the request writer is decoded exactly by the chunked reader. -/
namespace Httpcore.H1W
open Httpcore Httpcore.H1

theorem findCRLF_prefix (a t : Bytes) (ha : ∀ x ∈ a, x ≠ 13) :
    findCRLF (a ++ 13 :: 10 :: t) = some (a ++ [13, 10], t) := by
  induction a with
  | nil => simp [findCRLF]
  | cons x xs ih =>
    have hx : x ≠ 13 := ha x (by simp)
    have ih' := ih (fun y hy => ha y (by simp [hy]))
    cases xs with
    | nil =>
      simp only [List.cons_append, List.nil_append] at ih' ⊢
      simp [findCRLF, hx]
    | cons y ys =>
      simp only [List.cons_append] at ih' ⊢
      rw [findCRLF]
      simp [hx, ih']

theorem parseChunkHeader_hex (n : Nat) (hlen : (hexLower n).length ≤ 20) :
    parseChunkHeader (hexLower n ++ [13, 10]) = some n := by
  obtain ⟨h1, h2, h3⟩ := hexLower_spec n
  unfold parseChunkHeader
  have htake : (hexLower n ++ [13, 10]).take ((hexLower n ++ [13, 10]).length - 2) = hexLower n := by
    simp
  simp only [htake]
  have hall : ∀ x ∈ hexLower n, isHexDig x = true := fun x hx => (h1 x hx).1
  rw [Url.takeWhile_all _ _ hall, Url.dropWhile_all _ _ hall]
  have hpos : (hexLower n).length ≠ 0 := by
    intro hc; exact h3 (List.length_eq_zero_iff.mp hc)
  have hgt : ¬ (hexLower n).length > 20 := by omega
  simp [hpos, hgt, h2]

variable (ri : ReqInfo)

theorem drain_chunkData (c tail : Bytes) (hk : c ≠ []) :
    (reader ri).drain (.chunkData (c.length)) (c ++ 13 :: 10 :: tail) =
      (c.map Ev.data ++ [.skip, .skip] ++ ((reader ri).drain .chunkSize tail).1,
       ((reader ri).drain .chunkSize tail).2.1, ((reader ri).drain .chunkSize tail).2.2) := by
  induction c with
  | nil => exact absurd rfl hk
  | cons b t ih =>
    by_cases ht : t = []
    · subst ht
      have e1 : (reader ri).extract (.chunkData 1) (b :: 13 :: 10 :: tail) =
          some (.data b, .chunkDiscard 2, 13 :: 10 :: tail) := by simp [reader, extract]
      have e2 : (reader ri).extract (.chunkDiscard 2) (13 :: 10 :: tail) =
          some (.skip, .chunkDiscard 1, 10 :: tail) := by simp [reader, extract]
      have e3 : (reader ri).extract (.chunkDiscard 1) (10 :: tail) =
          some (.skip, .chunkSize, tail) := by simp [reader, extract]
      simp only [List.length_cons, List.length_nil, List.cons_append, List.nil_append]
      rw [(reader ri).drain_some _ _ _ _ _ e1, (reader ri).drain_some _ _ _ _ _ e2,
        (reader ri).drain_some _ _ _ _ _ e3]
      simp
    · have hl : t.length ≠ 0 := fun hc => ht (List.length_eq_zero_iff.mp hc)
      have e1 : (reader ri).extract (.chunkData (t.length + 1)) (b :: (t ++ 13 :: 10 :: tail)) =
          some (.data b, .chunkData t.length, t ++ 13 :: 10 :: tail) := by
        simp [reader, extract, hl]
      simp only [List.length_cons, List.cons_append]
      rw [(reader ri).drain_some _ _ _ _ _ e1, ih ht]
      simp

/-- draining the writer's chunked encoding of `chunks` (followed by anything) from the chunk-size
state yields exactly the bytes of the chunks, in order, then end-of-message -/
theorem drain_writeChunked_fold (chunks : List Bytes) (rest : Bytes)
    (hsz : ∀ c ∈ chunks, (hexLower c.length).length ≤ 20) :
    ∀ (o : Obs), ∃ evs,
      (reader ri).drain .chunkSize (writeChunked chunks ++ rest) = (evs, .done, rest) ∧
      evs.foldl absorb o = { o with bodyRev := chunks.flatten.reverse ++ o.bodyRev,
                                    outcome := .complete } := by
  induction chunks with
  | nil =>
    intro o
    have e1 : (reader ri).extract .chunkSize (ascii "0\r\n\r\n" ++ rest) =
        some (.skip, .trailers, 13 :: 10 :: rest) := by
      have hf := findCRLF_prefix [48] (13 :: 10 :: rest) (by simp)
      have hp : parseChunkHeader ([48] ++ [13, 10]) = some 0 := by decide
      have hasc : ascii "0\r\n\r\n" ++ rest = [48] ++ 13 :: 10 :: (13 :: 10 :: rest) := by
        have : ascii "0\r\n\r\n" = [48, 13, 10, 13, 10] := by decide
        rw [this]; rfl
      simp only [reader, extract, extractChunkSize]
      rw [hasc, hf]; simp only [hp]
    have e2 : (reader ri).extract .trailers (13 :: 10 :: rest) = some (.eom, .done, rest) := by
      simp [reader, extract, extractTrailers]
    have e3 : (reader ri).extract .done rest = none := rfl
    refine ⟨[.skip, .eom], ?_, by simp [absorb]⟩
    simp only [writeChunked, List.map_nil, List.flatten_nil, List.nil_append]
    rw [(reader ri).drain_some _ _ _ _ _ e1, (reader ri).drain_some _ _ _ _ _ e2,
      (reader ri).drain_none _ _ e3]
  | cons c cs ih =>
    intro o
    have hsz' : ∀ c' ∈ cs, (hexLower c'.length).length ≤ 20 := fun c' h => hsz c' (by simp [h])
    by_cases hc : c = []
    · subst hc
      obtain ⟨evs, h1, h2⟩ := ih hsz' o
      refine ⟨evs, ?_, by simpa using h2⟩
      simpa [writeChunked, chunkEnc] using h1
    · obtain ⟨hh1, _, _⟩ := hexLower_spec c.length
      have hno13 : ∀ x ∈ hexLower c.length, x ≠ 13 := fun x hx => (hh1 x hx).2.1
      have hwc : writeChunked (c :: cs) ++ rest =
          hexLower c.length ++ 13 :: 10 :: (c ++ 13 :: 10 :: (writeChunked cs ++ rest)) := by
        simp [writeChunked, chunkEnc, hc, crlf, List.isEmpty_iff]
      have hpos : c.length ≠ 0 := fun h0 => hc (List.length_eq_zero_iff.mp h0)
      obtain ⟨m, hm⟩ := Nat.exists_eq_succ_of_ne_zero hpos
      have e1 : (reader ri).extract .chunkSize
          (hexLower c.length ++ 13 :: 10 :: (c ++ 13 :: 10 :: (writeChunked cs ++ rest))) =
          some (.skip, .chunkData c.length, c ++ 13 :: 10 :: (writeChunked cs ++ rest)) := by
        have hf := findCRLF_prefix (hexLower c.length) (c ++ 13 :: 10 :: (writeChunked cs ++ rest)) hno13
        have hp := parseChunkHeader_hex c.length (hsz c (by simp))
        simp only [reader, extract, extractChunkSize]
        rw [hf]; simp only [hp]
        rw [hm]
      obtain ⟨evs, h1, h2⟩ := ih hsz' { o with bodyRev := c.reverse ++ o.bodyRev }
      refine ⟨.skip :: (c.map Ev.data ++ [.skip, .skip] ++ evs), ?_, ?_⟩
      · rw [hwc, (reader ri).drain_some _ _ _ _ _ e1, drain_chunkData ri c _ hc, h1]
      · simp only [List.foldl_cons, List.foldl_append, absorb, foldl_absorb_data, List.foldl_nil]
        rw [h2]
        simp

/-- draining the writer's chunked encoding of `chunks` (followed by anything) from the chunk-size
state yields exactly the bytes of the chunks, in order, then end-of-message -/
theorem drain_writeChunked (chunks : List Bytes) (rest : Bytes)
    (hsz : ∀ c ∈ chunks, (hexLower c.length).length ≤ 20) :
    ∃ evs, (reader ri).drain .chunkSize (writeChunked chunks ++ rest) = (evs, .done, rest) ∧
      observe evs = { head := none, bodyRev := chunks.flatten.reverse, outcome := .complete } := by
  obtain ⟨evs, h1, h2⟩ := drain_writeChunked_fold ri chunks rest hsz {}
  exact ⟨evs, h1, by simpa [observe] using h2⟩

end Httpcore.H1W
