import HttpcoreModel.ConnLife
/-! Field-by-field characterisations of the generated life-cycle functions (helper lemmas; the property theorems are in
`Props/Life.lean`).  Each is proved by unfolding the generated definition, so it is re-checked whenever the source changes. -/
namespace Httpcore.LifeFields
open Httpcore Httpcore.Life Httpcore.ConnLife

macro "life_field" : tactic => `(tactic| (simp only [Gen.h2AfterClose, Gen.h2Aclose, Gen.h2Gate, Gen.h1Gate, Gen.h1Aclose, Gen.h1ResponseClosed] <;> ((repeat' split) <;> (try simp_all) <;> (try grind))))

theorem ac_st (c : H2) (now : Nat) : (Gen.h2AfterClose c now).st =
    if c.terminated ∧ c.streams = 0 then .closed
    else if c.st = .active ∧ c.streams = 0 ∧ c.starting = 0 then (if c.usedAll then .closed else .idle) else c.st := by life_field
theorem ac_exp (c : H2) (now : Nat) : (Gen.h2AfterClose c now).expireAt =
    if ¬ (c.terminated ∧ c.streams = 0) ∧ c.st = .active ∧ c.streams = 0 ∧ c.starting = 0 ∧ c.ka.isSome then some (now + c.ka.getD 0)
    else c.expireAt := by life_field
theorem ac_streams (c : H2) (now : Nat) : (Gen.h2AfterClose c now).streams = c.streams := by life_field
theorem ac_starting (c : H2) (now : Nat) : (Gen.h2AfterClose c now).starting = c.starting := by life_field
theorem ac_ka (c : H2) (now : Nat) : (Gen.h2AfterClose c now).ka = c.ka := by life_field
theorem gate_st (c : H2) : (Gen.h2Gate c).st = if c.st = .active ∨ c.st = .idle then .active else c.st := by life_field
theorem gate_exp (c : H2) : (Gen.h2Gate c).expireAt = if c.st = .active ∨ c.st = .idle then none else c.expireAt := by life_field
theorem gate_raised (c : H2) : (Gen.h2Gate c).raised = if c.st = .active ∨ c.st = .idle then c.raised else true := by life_field
theorem gate_starting (c : H2) : (Gen.h2Gate c).starting = if c.st = .active ∨ c.st = .idle then c.starting + 1 else c.starting := by life_field
theorem gate_streams (c : H2) : (Gen.h2Gate c).streams = c.streams := by life_field
theorem gate_ka (c : H2) : (Gen.h2Gate c).ka = c.ka := by life_field

theorem acl_st (c : H2) : (Gen.h2Aclose c).st = .closed := by life_field
theorem acl_exp (c : H2) : (Gen.h2Aclose c).expireAt = c.expireAt := by life_field
theorem acl_streams (c : H2) : (Gen.h2Aclose c).streams = c.streams := by life_field
theorem acl_starting (c : H2) : (Gen.h2Aclose c).starting = c.starting := by life_field
theorem acl_ka (c : H2) : (Gen.h2Aclose c).ka = c.ka := by life_field

/-! HTTP/1.1 -/
theorem g1_st (c : H1) : (Gen.h1Gate c).st = if c.st = .new ∨ c.st = .idle then .active else c.st := by life_field
theorem g1_exp (c : H1) : (Gen.h1Gate c).expireAt = if c.st = .new ∨ c.st = .idle then none else c.expireAt := by life_field
theorem g1_raised (c : H1) : (Gen.h1Gate c).raised = if c.st = .new ∨ c.st = .idle then c.raised else true := by life_field
theorem g1_count (c : H1) : (Gen.h1Gate c).count = if c.st = .new ∨ c.st = .idle then c.count + 1 else c.count := by life_field
theorem g1_ka (c : H1) : (Gen.h1Gate c).ka = c.ka := by life_field
theorem g1_our (c : H1) : (Gen.h1Gate c).ourDone = c.ourDone := by life_field
theorem g1_their (c : H1) : (Gen.h1Gate c).theirDone = c.theirDone := by life_field
theorem rc1_st (c : H1) (now : Nat) : (Gen.h1ResponseClosed c now).st = if c.ourDone ∧ c.theirDone then .idle else .closed := by life_field
theorem rc1_exp (c : H1) (now : Nat) : (Gen.h1ResponseClosed c now).expireAt =
    if c.ourDone ∧ c.theirDone ∧ c.ka.isSome then some (now + c.ka.getD 0) else c.expireAt := by life_field
theorem rc1_our (c : H1) (now : Nat) : (Gen.h1ResponseClosed c now).ourDone = if c.ourDone ∧ c.theirDone then false else c.ourDone := by life_field
theorem rc1_their (c : H1) (now : Nat) : (Gen.h1ResponseClosed c now).theirDone = if c.ourDone ∧ c.theirDone then false else c.theirDone := by life_field
theorem rc1_count (c : H1) (now : Nat) : (Gen.h1ResponseClosed c now).count = c.count := by life_field
theorem rc1_ka (c : H1) (now : Nat) : (Gen.h1ResponseClosed c now).ka = c.ka := by life_field
theorem acl1_st (c : H1) : (Gen.h1Aclose c).st = .closed := by life_field
theorem acl1_exp (c : H1) : (Gen.h1Aclose c).expireAt = c.expireAt := by life_field
theorem acl1_count (c : H1) : (Gen.h1Aclose c).count = c.count := by life_field
theorem acl1_ka (c : H1) : (Gen.h1Aclose c).ka = c.ka := by life_field
theorem acl1_our (c : H1) : (Gen.h1Aclose c).ourDone = c.ourDone := by life_field
theorem acl1_their (c : H1) : (Gen.h1Aclose c).theirDone = c.theirDone := by life_field

/-- what `settle` does to the fields the invariant speaks about -/
theorem settle_fields (g : G2) (now : Nat) (hs : g.closing ≠ 0) :
    let g' := step2 g (.settle now)
    let goesIdle : Prop := ¬ (g.c.terminated ∧ g.c.streams = 0) ∧ g.c.st = .active ∧ g.c.streams = 0 ∧ g.c.starting = 0
    g'.c.st = (if g.c.terminated ∧ g.c.streams = 0 then .closed
               else if g.c.st = .active ∧ g.c.streams = 0 ∧ g.c.starting = 0 then (if g.c.usedAll then .closed else .idle) else g.c.st) ∧
    g'.c.expireAt = (if goesIdle ∧ g.c.ka.isSome then some (now + g.c.ka.getD 0) else g.c.expireAt) ∧
    g'.c.ka = g.c.ka ∧ g'.c.streams = g.c.streams ∧ g'.c.starting = g.c.starting ∧ g'.pending = g.pending ∧
    g'.idleSince = (if g'.c.st = .idle ∧ g.c.st ≠ .idle then some now else g.idleSince) := by
  simp only [step2, hs, if_false]
  rw [ac_st, ac_exp, ac_ka, ac_streams, ac_starting]
  simp [and_assoc]

/-- what HTTP/1.1 `responseClosed` does to the fields the invariant speaks about -/
theorem rc1_fields (g : G1) (now : Nat) (ho : g.exchangeOpen = true) :
    let g' := step1 g (.responseClosed now)
    g'.c.st = (if g.c.ourDone ∧ g.c.theirDone then .idle else .closed) ∧
    g'.c.expireAt = (if g.c.ourDone ∧ g.c.theirDone ∧ g.c.ka.isSome then some (now + g.c.ka.getD 0) else g.c.expireAt) ∧
    g'.c.ka = g.c.ka ∧ g'.c.count = g.c.count ∧
    g'.c.ourDone = (if g.c.ourDone ∧ g.c.theirDone then false else g.c.ourDone) ∧
    g'.c.theirDone = (if g.c.ourDone ∧ g.c.theirDone then false else g.c.theirDone) ∧
    g'.exchangeOpen = false ∧ g'.accepted = g.accepted ∧
    g'.idleSince = (if g'.c.st = .idle then some now else g.idleSince) := by
  simp only [step1, ho, not_true_eq_false, if_false]
  rw [rc1_st, rc1_exp, rc1_ka, rc1_count, rc1_our, rc1_their]
  simp

end Httpcore.LifeFields
