import HttpcoreModel.H1Read
/-! `extract` makes progress and is stable under appended data: the reader is an `Extractor`. -/
namespace Httpcore.H1
open Httpcore

theorem blankLen_le (l : Bytes) (k : Nat) (h : blankLen l = some k) : k ≤ l.length ∧ 2 ≤ k := by
  unfold blankLen at h
  split at h <;> simp at h <;> subst h <;> simp

theorem blankLen_append (l x : Bytes) (k : Nat) (h : blankLen l = some k) :
    blankLen (l ++ x) = some k := by
  unfold blankLen at h
  split at h <;> simp at h <;> subst h <;> simp [blankLen]

theorem blankLen_append_none (l x : Bytes) (h : blankLen l = none) (hl : 3 ≤ l.length) :
    blankLen (l ++ x) = none := by
  match l, hl with
  | a :: b :: c :: r, _ =>
    simp only [List.cons_append]
    unfold blankLen at h ⊢
    split at h
    · simp at h
    · simp at h
    · rename_i h1 h2
      split
      · rename_i heq; simp at heq; exact (h1 _ (by rw [heq.1, heq.2.1])).elim
      · rename_i heq; simp at heq
        exact (h2 _ (by rw [heq.1, heq.2.1, heq.2.2.1])).elim
      · rfl

theorem findBlank_len (b h t : Bytes) (hf : findBlank b = some (h, t)) :
    2 ≤ h.length ∧ b = h ++ t := by
  induction b generalizing h t with
  | nil => simp [findBlank] at hf
  | cons x r ih =>
    unfold findBlank at hf
    split at hf
    · rename_i k hk
      simp at hf
      obtain ⟨h1, h2⟩ := hf
      have := blankLen_le _ _ hk
      subst h1 h2
      refine ⟨?_, (List.take_append_drop k (x :: r)).symm⟩
      rw [List.length_take]; omega
    · split at hf
      · rename_i h' t' hrec
        simp at hf
        obtain ⟨h1, h2⟩ := hf
        subst h1 h2
        have := ih h' t' hrec
        exact ⟨by simp; omega, by rw [this.2]; simp⟩
      · simp at hf

theorem findBlank_stable (b x h t : Bytes) (hf : findBlank b = some (h, t)) :
    findBlank (b ++ x) = some (h, t ++ x) := by
  induction b generalizing h t with
  | nil => simp [findBlank] at hf
  | cons y r ih =>
    unfold findBlank at hf
    simp only [List.cons_append]
    split at hf
    · rename_i k hk
      simp at hf
      obtain ⟨h1, h2⟩ := hf
      have hk' := blankLen_append (y :: r) x k hk
      have hle := (blankLen_le _ _ hk).1
      unfold findBlank
      simp only [List.cons_append] at hk'
      rw [hk']
      simp only [Option.some.injEq, Prod.mk.injEq]
      rw [← List.cons_append, List.take_append_of_le_length hle, List.drop_append_of_le_length hle]
      exact ⟨h1, by rw [h2]⟩
    · rename_i hnone
      split at hf
      · rename_i h' t' hrec
        simp at hf
        obtain ⟨h1, h2⟩ := hf
        have hlen := (findBlank_len r h' t' hrec)
        have hr3 : 3 ≤ (y :: r).length := by
          have : r.length = h'.length + t'.length := by rw [hlen.2]; simp
          simp; omega
        have hn' := blankLen_append_none (y :: r) x hnone hr3
        unfold findBlank
        simp only [List.cons_append] at hn'
        rw [hn', ih h' t' hrec]
        simp [h1, h2]
      · simp at hf

theorem findCRLF_len (b h t : Bytes) (hf : findCRLF b = some (h, t)) :
    2 ≤ h.length ∧ b = h ++ t := by
  induction b using findCRLF.induct generalizing h t with
  | case1 => simp [findCRLF] at hf
  | case2 => simp [findCRLF] at hf
  | case3 x y r hxy =>
    simp [findCRLF, hxy] at hf
    obtain ⟨h1, h2⟩ := hf
    subst h1 h2
    simp [hxy.1, hxy.2]
  | case4 x y r hxy h' t' hrec ih =>
    simp [findCRLF, hxy, hrec] at hf
    obtain ⟨h1, h2⟩ := hf
    subst h1 h2
    have := ih h' t' hrec
    exact ⟨by simp; omega, by rw [this.2]; simp⟩
  | case5 x y r hxy hrec =>
    simp [findCRLF, hxy, hrec] at hf

theorem findCRLF_stable (b x h t : Bytes) (hf : findCRLF b = some (h, t)) :
    findCRLF (b ++ x) = some (h, t ++ x) := by
  induction b using findCRLF.induct generalizing h t with
  | case1 => simp [findCRLF] at hf
  | case2 => simp [findCRLF] at hf
  | case3 x' y r hxy =>
    simp [findCRLF, hxy] at hf
    obtain ⟨h1, h2⟩ := hf
    subst h1 h2
    simp [findCRLF, hxy]
  | case4 x' y r hxy h' t' hrec ih =>
    simp [findCRLF, hxy, hrec] at hf
    obtain ⟨h1, h2⟩ := hf
    subst h1 h2
    have := ih h' t' hrec
    simp only [List.cons_append] at this ⊢
    simp [findCRLF, hxy, this]
  | case5 x' y r hxy hrec =>
    simp [findCRLF, hxy, hrec] at hf

end Httpcore.H1

namespace Httpcore.H1
open Httpcore

theorem extractHead_stable (ri : ReqInfo) (b : Bytes) (e : Ev) (s' : St) (r x : Bytes)
    (h : extractHead ri b = some (e, s', r)) :
    (extractHead ri (b ++ x) = some (e, s', r ++ x)) := by
  cases b with
  | nil => simp [extractHead] at h
  | cons c t =>
    simp only [extractHead, List.cons_append] at h ⊢
    by_cases hc : c < 33
    · simp only [hc, if_true] at h ⊢
      simp at h
      obtain ⟨rfl, rfl, rfl⟩ := h
      simp
    · simp only [hc, if_false] at h ⊢
      cases hfb : findBlank (c :: t) with
      | none => rw [hfb] at h; simp at h
      | some p =>
        obtain ⟨raw, rest⟩ := p
        rw [hfb] at h
        have hst := findBlank_stable (c :: t) x raw rest hfb
        simp only [List.cons_append] at hst
        rw [hst]
        simp only at h ⊢
        split at h
        · simp at h; obtain ⟨rfl, rfl, rfl⟩ := h; simp
        · split at h
          · split at h
            · simp at h; obtain ⟨rfl, rfl, rfl⟩ := h; simp [*]
            · simp at h; obtain ⟨rfl, rfl, rfl⟩ := h; simp [*]
          · simp at h; obtain ⟨rfl, rfl, rfl⟩ := h; simp [*]
        · simp at h; obtain ⟨rfl, rfl, rfl⟩ := h; simp

theorem extractChunkSize_stable (b : Bytes) (e : Ev) (s' : St) (r x : Bytes)
    (h : extractChunkSize b = some (e, s', r)) :
    extractChunkSize (b ++ x) = some (e, s', r ++ x) := by
  unfold extractChunkSize at h ⊢
  cases hf : findCRLF b with
  | none => rw [hf] at h; simp at h
  | some p =>
    obtain ⟨line, rest⟩ := p
    rw [hf] at h
    rw [findCRLF_stable b x line rest hf]
    simp only at h ⊢
    split at h <;> (simp at h; obtain ⟨rfl, rfl, rfl⟩ := h; simp [*])

theorem extractTrailers_stable (b : Bytes) (e : Ev) (s' : St) (r x : Bytes)
    (h : extractTrailers b = some (e, s', r)) :
    extractTrailers (b ++ x) = some (e, s', r ++ x) := by
  cases b with
  | nil => simp [extractTrailers] at h
  | cons c t =>
    by_cases hc : c = 10
    · subst hc
      simp [extractTrailers] at h ⊢
      obtain ⟨rfl, rfl, rfl⟩ := h
      simp
    · have hne : ∀ (l : Bytes), extractTrailers (c :: l) =
          (if c = 13 ∧ l.head? = some 10 then some (.eom, .done, l.drop 1)
           else match findBlank (c :: l) with
            | none => none
            | some (raw, rest) =>
              match trailersOk raw with
              | some e => some (.fail e, .failed, c :: l)
              | none => some (.eom, .done, rest)) := by
        intro l
        unfold extractTrailers
        split
        · rename_i heq; simp at heq
        · rename_i heq; simp at heq; exact absurd heq.1 hc
        · rename_i heq; simp at heq; obtain ⟨rfl, rfl⟩ := heq; rfl
      rw [List.cons_append, hne] at *
      by_cases h13 : c = 13 ∧ t.head? = some 10
      · have h13' : c = 13 ∧ (t ++ x).head? = some 10 := by
          refine ⟨h13.1, ?_⟩
          cases t with
          | nil => simp at h13
          | cons a t' => simpa using h13.2
        rw [if_pos h13] at h
        rw [if_pos h13']
        simp at h ⊢
        obtain ⟨rfl, rfl, rfl⟩ := h
        cases t with
        | nil => simp at h13
        | cons a t' => simp
      · rw [if_neg h13] at h
        cases hfb : findBlank (c :: t) with
        | none => rw [hfb] at h; simp at h
        | some p =>
          obtain ⟨raw, rest⟩ := p
          have hst := findBlank_stable (c :: t) x raw rest hfb
          simp only [List.cons_append] at hst
          have h13' : ¬ (c = 13 ∧ (t ++ x).head? = some 10) := by
            intro hcc
            apply h13
            refine ⟨hcc.1, ?_⟩
            cases t with
            | nil =>
              have := (findBlank_len _ _ _ hfb)
              have h2 : ([c] : Bytes).length = raw.length + rest.length := by rw [this.2]; simp
              simp at h2; omega
            | cons a t' => simpa using hcc.2
          rw [if_neg h13', hst]
          rw [hfb] at h
          simp only at h ⊢
          split at h <;> (simp at h; obtain ⟨rfl, rfl, rfl⟩ := h; simp [*])

theorem extract_stable (ri : ReqInfo) (s : St) (b : Bytes) (e : Ev) (s' : St) (r x : Bytes)
    (h : extract ri s b = some (e, s', r)) : extract ri s (b ++ x) = some (e, s', r ++ x) := by
  cases s with
  | head => exact extractHead_stable ri b e s' r x h
  | cl n =>
    cases n with
    | zero => simp [extract] at h ⊢; obtain ⟨rfl, rfl, rfl⟩ := h; simp
    | succ n =>
      cases b with
      | nil => simp [extract] at h
      | cons a t => simp [extract] at h ⊢; obtain ⟨rfl, rfl, rfl⟩ := h; simp
  | chunkSize => exact extractChunkSize_stable b e s' r x h
  | chunkData n =>
    cases n with
    | zero => simp [extract] at h
    | succ n =>
      cases b with
      | nil => simp [extract] at h
      | cons a t => simp [extract] at h ⊢; obtain ⟨rfl, rfl, rfl⟩ := h; simp
  | chunkDiscard n =>
    cases n with
    | zero => simp [extract] at h
    | succ n =>
      cases b with
      | nil => simp [extract] at h
      | cons a t => simp [extract] at h ⊢; obtain ⟨rfl, rfl, rfl⟩ := h; simp
  | trailers => exact extractTrailers_stable b e s' r x h
  | untilClose =>
    cases b with
    | nil => simp [extract] at h
    | cons a t => simp [extract] at h ⊢; obtain ⟨rfl, rfl, rfl⟩ := h; simp
  | done => simp [extract] at h
  | switched => simp [extract] at h
  | failed => simp [extract] at h

end Httpcore.H1
