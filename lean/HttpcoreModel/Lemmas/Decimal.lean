import HttpcoreModel.Url
namespace Httpcore.Url
open Httpcore

theorem digitsToNat_map (l : List Char) :
    digitsToNat (l.map Char.toNat) = Nat.ofDigitChars 10 l 0 := by
  unfold digitsToNat Nat.ofDigitChars
  rw [List.foldl_map]
  congr 1
  funext acc c
  simp [Nat.mul_comm]

theorem digitsToNat_decimal (n : Nat) : digitsToNat (decimal n) = n := by
  simp [decimal, digitsToNat_map]

theorem decimal_ne_nil (n : Nat) : decimal n ≠ [] := by
  simp [decimal, Nat.toDigits_ne_nil]

theorem decimal_all_digit (n : Nat) : (decimal n).all isDigit = true := by
  simp only [decimal, List.all_map, List.all_eq_true]
  intro c hc
  have := Nat.isDigit_of_mem_toDigits (b := 10) (by decide) (by decide) hc
  simp [Char.isDigit] at this
  simp [isDigit, Function.comp]
  have h1 : (48 : Nat) ≤ c.toNat := by
    have := this.1; simpa [Char.le_def, UInt32.le_iff_toNat_le] using this
  have h2 : c.toNat ≤ 57 := by
    have := this.2; simpa [Char.le_def, UInt32.le_iff_toNat_le] using this
  exact ⟨h1, h2⟩

end Httpcore.Url
