import HttpcoreModel.Lemmas.ListSplit
import HttpcoreModel.Lemmas.Decimal
/-! Well-formed URL components, their rendering, and the step lemmas used by `C19.parse_render`. -/
namespace Httpcore.Url
open Httpcore

structure Comp where
  scheme : Bytes          -- as written (any case)
  userinfo : Option Bytes
  host : Bytes            -- reg-name / IPv4 as written, or the IPv6 literal without its brackets
  ipv6 : Bool
  port : Option Bytes     -- the digits as written (possibly none at all: `host:`)
  path : Bytes
  query : Option Bytes
  fragment : Option Bytes

def clean (b : Nat) : Prop := 33 ≤ b ∧ b < 128

/-- RFC 3986 shaped components (see DESIGN.md, C19): decidable, explicit. -/
structure Comp.WF (c : Comp) : Prop where
  scheme_head : ∃ h t, c.scheme = h :: t ∧ isAlpha h = true
  scheme_chars : ∀ x ∈ c.scheme, isSchemeChar x = true
  userinfo_ok : ∀ u, c.userinfo = some u →
    ∀ x ∈ u, clean x ∧ x ≠ 47 ∧ x ≠ 63 ∧ x ≠ 35 ∧ x ≠ 64 ∧ x ≠ 91 ∧ x ≠ 93
  host6 : c.ipv6 = true → validIPv6 c.host = true ∧ ∀ x ∈ c.host, isHex x = true ∨ x = 58
  hostReg : c.ipv6 = false → ∀ x ∈ c.host,
    clean x ∧ x ≠ 47 ∧ x ≠ 63 ∧ x ≠ 35 ∧ x ≠ 64 ∧ x ≠ 91 ∧ x ≠ 93 ∧ x ≠ 58 ∧ x ≠ 37
  port_ok : ∀ p, c.port = some p → (∀ x ∈ p, isDigit x = true) ∧ digitsToNat p ≤ 65535
  path_head : c.path = [] ∨ ∃ t, c.path = 47 :: t
  path_ok : ∀ x ∈ c.path, clean x ∧ x ≠ 63 ∧ x ≠ 35
  query_ok : ∀ q, c.query = some q → ∀ x ∈ q, clean x ∧ x ≠ 35
  fragment_ok : ∀ f, c.fragment = some f → ∀ x ∈ f, clean x

def optPre (pre : Nat) : Option Bytes → Bytes
  | none => []
  | some b => pre :: b

def Comp.hostText (c : Comp) : Bytes := if c.ipv6 then 91 :: c.host ++ [93] else c.host
def Comp.hostPort (c : Comp) : Bytes := c.hostText ++ optPre 58 c.port
def Comp.netloc (c : Comp) : Bytes :=
  (match c.userinfo with | none => [] | some u => u ++ [64]) ++ c.hostPort
def Comp.pathQuery (c : Comp) : Bytes := c.path ++ optPre 63 c.query
def Comp.tail (c : Comp) : Bytes := c.pathQuery ++ optPre 35 c.fragment
def Comp.render (c : Comp) : Bytes := c.scheme ++ 58 :: 47 :: 47 :: (c.netloc ++ c.tail)

/-- what RFC 3986 component splitting yields -/
def Comp.expected (c : Comp) : URL :=
  { scheme := lower c.scheme
    host := lower c.host
    port := match c.port with
      | none => none
      | some [] => none
      | some (d :: ds) => some (digitsToNat (d :: ds))
    target := (if c.path.isEmpty then [47] else c.path) ++
      (match c.query with | some q => if q.isEmpty then [] else 63 :: q | none => []) }

theorem isSchemeChar_bounds {x : Nat} (h : isSchemeChar x = true) :
    clean x ∧ x ≠ 58 ∧ x ≠ 47 := by
  simp [isSchemeChar, isAlpha, isDigit] at h
  unfold clean; omega

theorem isHex_bounds {x : Nat} (h : isHex x = true ∨ x = 58) :
    clean x ∧ x ≠ 47 ∧ x ≠ 63 ∧ x ≠ 35 ∧ x ≠ 64 ∧ x ≠ 91 ∧ x ≠ 93 ∧ x ≠ 37 := by
  simp [isHex, isDigit] at h
  unfold clean; omega

theorem isDigit_bounds {x : Nat} (h : isDigit x = true) :
    clean x ∧ x ≠ 47 ∧ x ≠ 63 ∧ x ≠ 35 ∧ x ≠ 64 ∧ x ≠ 91 ∧ x ≠ 93 ∧ x ≠ 58 := by
  simp [isDigit] at h
  unfold clean; omega

variable {c : Comp}

/-- every byte of host:port avoids the delimiters `/ ? # @` and is clean -/
theorem hostPort_bytes (h : c.WF) : ∀ x ∈ c.hostPort, clean x ∧ x ≠ 47 ∧ x ≠ 63 ∧ x ≠ 35 ∧ x ≠ 64 := by
  intro x hx
  simp only [Comp.hostPort, Comp.hostText, List.mem_append] at hx
  rcases hx with hx | hx
  · cases h6 : c.ipv6 with
    | true =>
      simp [h6] at hx
      rcases hx with rfl | hx | rfl
      · unfold clean; omega
      · have := isHex_bounds ((h.host6 h6).2 x hx); exact ⟨this.1, this.2.1, this.2.2.1, this.2.2.2.1, this.2.2.2.2.1⟩
      · unfold clean; omega
    | false =>
      simp [h6] at hx
      have := h.hostReg h6 x hx
      exact ⟨this.1, this.2.1, this.2.2.1, this.2.2.2.1, this.2.2.2.2.1⟩
  · cases hp : c.port with
    | none => simp [hp, optPre] at hx
    | some p =>
      simp [hp, optPre] at hx
      rcases hx with rfl | hx
      · unfold clean; omega
      · have := isDigit_bounds ((h.port_ok p hp).1 x hx)
        exact ⟨this.1, this.2.1, this.2.2.1, this.2.2.2.1, this.2.2.2.2.1⟩

theorem netloc_bytes (h : c.WF) : ∀ x ∈ c.netloc, clean x ∧ x ≠ 47 ∧ x ≠ 63 ∧ x ≠ 35 := by
  intro x hx
  simp only [Comp.netloc, List.mem_append] at hx
  rcases hx with hx | hx
  · cases hu : c.userinfo with
    | none => simp [hu] at hx
    | some u =>
      simp [hu] at hx
      rcases hx with hx | rfl
      · have := h.userinfo_ok u hu x hx; exact ⟨this.1, this.2.1, this.2.2.1, this.2.2.2.1⟩
      · unfold clean; omega
  · have := hostPort_bytes h x hx; exact ⟨this.1, this.2.1, this.2.2.1, this.2.2.2.1⟩

theorem tail_bytes (h : c.WF) : ∀ x ∈ c.tail, clean x := by
  intro x hx
  simp only [Comp.tail, Comp.pathQuery, List.mem_append] at hx
  rcases hx with (hx | hx) | hx
  · exact (h.path_ok x hx).1
  · cases hq : c.query with
    | none => simp [hq, optPre] at hx
    | some q =>
      simp [hq, optPre] at hx
      rcases hx with rfl | hx
      · unfold clean; omega
      · exact (h.query_ok q hq x hx).1
  · cases hf : c.fragment with
    | none => simp [hf, optPre] at hx
    | some f =>
      simp [hf, optPre] at hx
      rcases hx with rfl | hx
      · unfold clean; omega
      · exact h.fragment_ok f hf x hx

theorem render_bytes (h : c.WF) : ∀ x ∈ c.render, clean x := by
  intro x hx
  simp only [Comp.render, List.mem_append, List.mem_cons] at hx
  rcases hx with hx | rfl | rfl | rfl | hx | hx
  · exact (isSchemeChar_bounds (h.scheme_chars x hx)).1
  · unfold clean; omega
  · unfold clean; omega
  · unfold clean; omega
  · exact (netloc_bytes h x hx).1
  · exact tail_bytes h x hx

theorem sanitize_render (h : c.WF) : sanitize c.render = c.render := by
  have hb := render_bytes h
  obtain ⟨hd, tl, hs, _⟩ := h.scheme_head
  have hne : c.render = hd :: (tl ++ 58 :: 47 :: 47 :: (c.netloc ++ c.tail)) := by
    simp [Comp.render, hs]
  have hhd : ¬ hd ≤ 32 := by
    have := hb hd (by rw [hne]; simp); unfold clean at this; omega
  unfold sanitize
  have hdrop : c.render.dropWhile (· ≤ 32) = c.render := by
    rw [hne]; simp [List.dropWhile, hhd]
  rw [hdrop]
  apply List.filter_eq_self.mpr
  intro x hx
  have := hb x hx
  unfold clean at this
  simp; omega

theorem render_ascii (h : c.WF) : c.render.any (· ≥ 128) = false := by
  simp only [List.any_eq_false]
  intro x hx
  have := render_bytes h x hx
  unfold clean at this
  simp; omega

theorem splitScheme_render (h : c.WF) :
    splitScheme c.render = (lower c.scheme, 47 :: 47 :: (c.netloc ++ c.tail)) := by
  have hno : ∀ x ∈ c.scheme, x ≠ 58 := fun x hx => (isSchemeChar_bounds (h.scheme_chars x hx)).2.1
  obtain ⟨hd, tl, hs, ha⟩ := h.scheme_head
  have hall : c.scheme.all isSchemeChar = true := by
    simpa [List.all_eq_true] using h.scheme_chars
  unfold splitScheme Comp.render
  rw [partition_append_sep 58 c.scheme _ hno]
  simp only
  rw [hs] at hall ⊢
  simp [ha, hall]

theorem tail_shape (c : Comp) (h : c.WF) :
    c.tail = [] ∨ ∃ d b, c.tail = d :: b ∧ isNetlocEnd d = true := by
  rcases h.path_head with hp | ⟨t, hp⟩
  · cases hq : c.query with
    | none =>
      cases hf : c.fragment with
      | none => left; simp [Comp.tail, Comp.pathQuery, hp, hq, hf, optPre]
      | some f => right; exact ⟨35, f, by simp [Comp.tail, Comp.pathQuery, hp, hq, hf, optPre], by decide⟩
    | some q =>
      right
      exact ⟨63, q ++ optPre 35 c.fragment, by simp [Comp.tail, Comp.pathQuery, hp, hq, optPre], by decide⟩
  · right
    exact ⟨47, t ++ optPre 63 c.query ++ optPre 35 c.fragment,
      by simp [Comp.tail, Comp.pathQuery, hp], by decide⟩

theorem splitNetloc_render (h : c.WF) :
    splitNetloc (47 :: 47 :: (c.netloc ++ c.tail)) = (some c.netloc, c.tail) := by
  have hn : ∀ x ∈ c.netloc, (!isNetlocEnd x) = true := by
    intro x hx
    have := netloc_bytes h x hx
    simp [isNetlocEnd]; omega
  unfold splitNetloc
  rcases tail_shape c h with ht | ⟨d, b, ht, hd⟩
  · simp [ht, takeWhile_all _ _ hn, dropWhile_all _ _ hn]
  · have hd' : (!isNetlocEnd d) = false := by simp [hd]
    simp [ht, takeWhile_append_stop _ c.netloc d b hn hd', dropWhile_append_stop _ c.netloc d b hn hd']

theorem partition_tail_fragment (h : c.WF) : (partition 35 c.tail).1 = c.pathQuery := by
  have hno : ∀ x ∈ c.pathQuery, x ≠ 35 := by
    intro x hx
    simp only [Comp.pathQuery, List.mem_append] at hx
    rcases hx with hx | hx
    · exact (h.path_ok x hx).2.2
    · cases hq : c.query with
      | none => simp [hq, optPre] at hx
      | some q =>
        simp [hq, optPre] at hx
        rcases hx with rfl | hx
        · omega
        · exact (h.query_ok q hq x hx).2
  cases hf : c.fragment with
  | none => simp [Comp.tail, hf, optPre, partition_none 35 _ hno]
  | some f => simp [Comp.tail, hf, optPre, partition_append_sep 35 _ f hno]

theorem partition_pathQuery (h : c.WF) : partition 63 c.pathQuery = (c.path, c.query) := by
  have hno : ∀ x ∈ c.path, x ≠ 63 := fun x hx => (h.path_ok x hx).2.1
  cases hq : c.query with
  | none => simp [Comp.pathQuery, hq, optPre, partition_none 63 _ hno]
  | some q => simp [Comp.pathQuery, hq, optPre, partition_append_sep 63 _ q hno]

theorem rpartition_netloc (h : c.WF) : (rpartition 64 c.netloc).2 = c.hostPort := by
  have hno : ∀ x ∈ c.hostPort, x ≠ 64 := fun x hx => (hostPort_bytes h x hx).2.2.2.2
  cases hu : c.userinfo with
  | none => simp [Comp.netloc, hu, rpartition_none 64 _ hno]
  | some u =>
    have : c.netloc = u ++ 64 :: c.hostPort := by simp [Comp.netloc, hu]
    rw [this, rpartition_append_sep 64 u _ hno]

theorem hostinfo_netloc (h : c.WF) : hostinfo c.netloc = (c.host, c.port) := by
  unfold hostinfo
  rw [rpartition_netloc h]
  dsimp only
  cases h6 : c.ipv6 with
  | true =>
    have hhost : ∀ x ∈ c.host, x ≠ 93 := fun x hx => (isHex_bounds ((h.host6 h6).2 x hx)).2.2.2.2.2.2.1
    have hp : c.hostPort = [] ++ 91 :: (c.host ++ 93 :: optPre 58 c.port) := by
      simp [Comp.hostPort, Comp.hostText, h6]
    rw [hp, partition_append_sep 91 [] _ (by simp)]
    simp only
    rw [partition_append_sep 93 c.host _ hhost]
    cases hpo : c.port with
    | none => simp [optPre, partition]
    | some p =>
      have : optPre 58 (some p) = [] ++ 58 :: p := rfl
      simp only [this, partition_append_sep 58 [] p (by simp)]
  | false =>
    have hhost : ∀ x ∈ c.host, x ≠ 58 := fun x hx => (h.hostReg h6 x hx).2.2.2.2.2.2.2.1
    have hno91 : ∀ x ∈ c.hostPort, x ≠ 91 := by
      intro x hx
      simp only [Comp.hostPort, Comp.hostText, h6, List.mem_append] at hx
      rcases hx with hx | hx
      · simp at hx; exact (h.hostReg h6 x hx).2.2.2.2.2.1
      · cases hpo : c.port with
        | none => simp [hpo, optPre] at hx
        | some p =>
          simp [hpo, optPre] at hx
          rcases hx with rfl | hx
          · omega
          · exact (isDigit_bounds ((h.port_ok p hpo).1 x hx)).2.2.2.2.2.1
    rw [partition_none 91 _ hno91]
    simp only
    cases hpo : c.port with
    | none => simp [Comp.hostPort, Comp.hostText, h6, hpo, optPre, partition_none 58 _ hhost]
    | some p => simp [Comp.hostPort, Comp.hostText, h6, hpo, optPre, partition_append_sep 58 _ p hhost]

theorem hostnameOf_host (h : c.WF) : hostnameOf c.host = lower c.host := by
  have hno : ∀ x ∈ c.host, x ≠ 37 := by
    intro x hx
    cases h6 : c.ipv6 with
    | true => exact (isHex_bounds ((h.host6 h6).2 x hx)).2.2.2.2.2.2.2
    | false => exact (h.hostReg h6 x hx).2.2.2.2.2.2.2.2
  simp [hostnameOf, partition_none 37 _ hno]

theorem parsePort_port (h : c.WF) : parsePort c.port = .ok c.expected.port := by
  cases hp : c.port with
  | none => simp [parsePort, Comp.expected, hp]
  | some p =>
    cases p with
    | nil => simp [parsePort, Comp.expected, hp]
    | cons d ds =>
      have := h.port_ok _ hp
      have hall : (d :: ds).all isDigit = true := by simpa [List.all_eq_true] using this.1
      simp only [parsePort, Comp.expected, hp, hall, if_true]
      simp [this.2]

theorem netloc_brackets (h : c.WF) :
    c.netloc.contains 91 = c.ipv6 ∧ c.netloc.contains 93 = c.ipv6 := by
  cases h6 : c.ipv6 with
  | true =>
    constructor <;>
    · simp [Comp.netloc, Comp.hostPort, Comp.hostText, h6, List.contains_iff_mem]
  | false =>
    have : ∀ x ∈ c.netloc, x ≠ 91 ∧ x ≠ 93 := by
      intro x hx
      simp only [Comp.netloc, Comp.hostPort, Comp.hostText, h6, List.mem_append] at hx
      rcases hx with hx | hx | hx
      · cases hu : c.userinfo with
        | none => simp [hu] at hx
        | some u =>
          simp [hu] at hx
          rcases hx with hx | rfl
          · have := h.userinfo_ok u hu x hx; omega
          · omega
      · simp at hx; have := h.hostReg h6 x hx; omega
      · cases hpo : c.port with
        | none => simp [hpo, optPre] at hx
        | some p =>
          simp [hpo, optPre] at hx
          rcases hx with rfl | hx
          · omega
          · have := isDigit_bounds ((h.port_ok p hpo).1 x hx); omega
    exact ⟨contains_false_of _ 91 (fun x hx => (this x hx).1), contains_false_of _ 93 (fun x hx => (this x hx).2)⟩

theorem bracket_content (h : c.WF) (h6 : c.ipv6 = true) :
    (partition 93 ((partition 91 c.netloc).2.getD [])).1 = c.host := by
  have hhost : ∀ x ∈ c.host, x ≠ 93 := fun x hx => (isHex_bounds ((h.host6 h6).2 x hx)).2.2.2.2.2.2.1
  have hpre : ∀ x ∈ (match c.userinfo with | none => [] | some u => u ++ [64]), x ≠ 91 := by
    intro x hx
    cases hu : c.userinfo with
    | none => simp [hu] at hx
    | some u =>
      simp [hu] at hx
      rcases hx with hx | rfl
      · have := h.userinfo_ok u hu x hx; omega
      · omega
  have : c.netloc = (match c.userinfo with | none => [] | some u => u ++ [64]) ++
      91 :: (c.host ++ 93 :: optPre 58 c.port) := by
    simp [Comp.netloc, Comp.hostPort, Comp.hostText, h6]
  rw [this, partition_append_sep 91 _ _ hpre]
  simp only [Option.getD]
  rw [partition_append_sep 93 c.host _ hhost]

end Httpcore.Url
