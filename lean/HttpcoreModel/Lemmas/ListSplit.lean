import HttpcoreModel.Url
/-! Helper lemmas about `partition`, `rpartition`, `takeWhile`/`dropWhile` on concatenations. -/
namespace Httpcore.Url
open Httpcore

theorem takeWhile_append_stop {α} (p : α → Bool) (a : List α) (d : α) (b : List α)
    (ha : ∀ x ∈ a, p x = true) (hd : p d = false) :
    (a ++ d :: b).takeWhile p = a := by
  induction a with
  | nil => simp [List.takeWhile, hd]
  | cons x xs ih =>
    have hx : p x = true := ha x (by simp)
    simp [List.takeWhile, hx]
    exact ih (fun y hy => ha y (by simp [hy]))

theorem dropWhile_append_stop {α} (p : α → Bool) (a : List α) (d : α) (b : List α)
    (ha : ∀ x ∈ a, p x = true) (hd : p d = false) :
    (a ++ d :: b).dropWhile p = d :: b := by
  induction a with
  | nil => simp [List.dropWhile, hd]
  | cons x xs ih =>
    have hx : p x = true := ha x (by simp)
    simp [List.dropWhile, hx]
    exact ih (fun y hy => ha y (by simp [hy]))

theorem takeWhile_all {α} (p : α → Bool) (a : List α) (ha : ∀ x ∈ a, p x = true) :
    a.takeWhile p = a := by
  induction a with
  | nil => rfl
  | cons x xs ih =>
    have hx : p x = true := ha x (by simp)
    simp [List.takeWhile, hx]
    exact ih (fun y hy => ha y (by simp [hy]))

theorem dropWhile_all {α} (p : α → Bool) (a : List α) (ha : ∀ x ∈ a, p x = true) :
    a.dropWhile p = [] := by
  induction a with
  | nil => rfl
  | cons x xs ih =>
    have hx : p x = true := ha x (by simp)
    simp [List.dropWhile, hx]
    exact ih (fun y hy => ha y (by simp [hy]))

theorem partition_append_sep (sep : Nat) (a b : Bytes) (ha : ∀ x ∈ a, x ≠ sep) :
    partition sep (a ++ sep :: b) = (a, some b) := by
  have h1 : ∀ x ∈ a, (x != sep) = true := fun x hx => by simpa using ha x hx
  have h2 : (sep != sep) = false := by simp
  simp [partition, dropWhile_append_stop _ a sep b h1 h2, takeWhile_append_stop _ a sep b h1 h2]

theorem partition_none (sep : Nat) (a : Bytes) (ha : ∀ x ∈ a, x ≠ sep) :
    partition sep a = (a, none) := by
  have h1 : ∀ x ∈ a, (x != sep) = true := fun x hx => by simpa using ha x hx
  simp [partition, dropWhile_all _ a h1, takeWhile_all _ a h1]

theorem rpartition_append_sep (sep : Nat) (a b : Bytes) (hb : ∀ x ∈ b, x ≠ sep) :
    rpartition sep (a ++ sep :: b) = (some a, b) := by
  have : (a ++ sep :: b).reverse = b.reverse ++ sep :: a.reverse := by simp
  have hb' : ∀ x ∈ b.reverse, x ≠ sep := fun x hx => hb x (by simpa using hx)
  simp [rpartition, this, partition_append_sep sep b.reverse a.reverse hb']

theorem rpartition_none (sep : Nat) (a : Bytes) (ha : ∀ x ∈ a, x ≠ sep) :
    rpartition sep a = (none, a) := by
  have ha' : ∀ x ∈ a.reverse, x ≠ sep := fun x hx => ha x (by simpa using hx)
  simp [rpartition, partition_none sep a.reverse ha']

theorem contains_false_of (a : Bytes) (c : Nat) (h : ∀ x ∈ a, x ≠ c) : a.contains c = false := by
  induction a with
  | nil => rfl
  | cons x xs ih =>
    have hx : x ≠ c := h x (by simp)
    have := ih (fun y hy => h y (by simp [hy]))
    simp only [List.contains_cons, this, Bool.or_false]
    simp
    omega

end Httpcore.Url
