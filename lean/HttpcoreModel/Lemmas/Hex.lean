import HttpcoreModel.H1Write
/-! `b"%x" % n` renders lower-case hex digits that read back as `n`. -/
namespace Httpcore.H1W
open Httpcore Httpcore.H1

theorem hexDigitLower_isHex (d : Nat) (h : d < 16) :
    isHexDig (hexDigitLower d) = true ∧ hexVal1 (hexDigitLower d) = d ∧ hexDigitLower d ≠ 13 ∧
      hexDigitLower d ≠ 10 := by
  unfold hexDigitLower isHexDig H1.isDigit hexVal1
  by_cases h10 : d < 10
  · simp [h10]; omega
  · have a1 : ¬ (87 + d ≤ 57) := by omega
    have a2 : ¬ (87 + d ≤ 70) := by omega
    simp [h10, a1, a2]; omega

theorem hexRevAux_spec (fuel n : Nat) (h : n < fuel) :
    (∀ x ∈ hexRevAux fuel n, isHexDig x = true ∧ x ≠ 13 ∧ x ≠ 10) ∧
    (hexRevAux fuel n).foldr (fun d acc => acc * 16 + hexVal1 d) 0 = n ∧ hexRevAux fuel n ≠ [] := by
  induction fuel generalizing n with
  | zero => omega
  | succ f ih =>
    unfold hexRevAux
    by_cases h16 : n < 16
    · have := hexDigitLower_isHex n h16
      simp [h16, this.1, this.2.1, this.2.2.1, this.2.2.2]
    · have hd := hexDigitLower_isHex (n % 16) (Nat.mod_lt _ (by omega))
      have hlt : n / 16 < f := by
        have : n / 16 < n := Nat.div_lt_self (by omega) (by omega)
        omega
      obtain ⟨h1, h2, _⟩ := ih (n / 16) hlt
      simp only [h16, if_false]
      refine ⟨?_, ?_, by simp⟩
      · intro x hx
        simp only [List.mem_cons] at hx
        rcases hx with rfl | hx
        · exact ⟨hd.1, hd.2.2.1, hd.2.2.2⟩
        · exact h1 x hx
      · simp only [List.foldr_cons, h2, hd.2.1]
        omega

theorem hexValue_reverse (l : List Nat) :
    hexValue l.reverse = l.foldr (fun d acc => acc * 16 + hexVal1 d) 0 := by
  unfold hexValue
  rw [List.foldl_reverse]

theorem hexLower_spec (n : Nat) :
    (∀ x ∈ hexLower n, isHexDig x = true ∧ x ≠ 13 ∧ x ≠ 10) ∧ hexValue (hexLower n) = n ∧
      hexLower n ≠ [] := by
  obtain ⟨h1, h2, h3⟩ := hexRevAux_spec (n + 1) n (by omega)
  unfold hexLower
  refine ⟨fun x hx => h1 x (by simpa using hx), by rw [hexValue_reverse, h2], by simpa using h3⟩

end Httpcore.H1W
