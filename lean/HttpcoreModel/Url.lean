import HttpcoreModel.Generated
/-!
Model of `httpcore/_models.py`: `URL.__init__` (including the part of CPython 3.12's
`urllib.parse.urlsplit/urlparse`, `.hostname`, `.port` that it reaches), `URL.origin`,
`URL.__bytes__`, `include_request_headers`, `enforce_bytes`, `enforce_headers`.

Domain of the URL parser model: byte strings; bracketed hosts are accepted only when they are a
plain IPv6 literal (hex groups, at most one `::`); anything else in brackets is reported
`outOfDomain` (CPython defers to `ipaddress`, which is not modelled).
-/
namespace Httpcore.Url
open Httpcore

structure URL where
  scheme : Bytes
  host : Bytes
  port : Option Nat
  target : Bytes
  deriving DecidableEq, Repr

inductive Err
  | valueError      -- ValueError from urllib (bad port, unbalanced brackets)
  | unicode         -- UnicodeDecodeError: bytes input with a byte ≥ 128
  | outOfDomain     -- not modelled
  deriving DecidableEq, Repr

def isAlpha (b : Nat) : Bool := (65 ≤ b && b ≤ 90) || (97 ≤ b && b ≤ 122)
def isDigit (b : Nat) : Bool := 48 ≤ b && b ≤ 57
def isHex (b : Nat) : Bool := isDigit b || (65 ≤ b && b ≤ 70) || (97 ≤ b && b ≤ 102)
def isSchemeChar (b : Nat) : Bool := isAlpha b || isDigit b || b == 43 || b == 45 || b == 46

/-- `s.partition(sep)` : text before the first `sep`, and the text after it if `sep` occurs -/
def partition (sep : Nat) (s : Bytes) : Bytes × Option Bytes :=
  match s.dropWhile (· != sep) with
  | [] => (s.takeWhile (· != sep), none)
  | _ :: after => (s.takeWhile (· != sep), some after)

/-- `s.rpartition(sep)` : text before the last `sep` (if any) and the text after it -/
def rpartition (sep : Nat) (s : Bytes) : Option Bytes × Bytes :=
  match partition sep s.reverse with
  | (suf, none) => (none, suf.reverse)
  | (suf, some pre) => (some pre.reverse, suf.reverse)

/-- `urlsplit`: strip leading C0/space, remove TAB/CR/LF everywhere -/
def sanitize (url : Bytes) : Bytes :=
  (url.dropWhile (· ≤ 32)).filter (fun b => b != 9 && b != 10 && b != 13)

def splitScheme (url : Bytes) : Bytes × Bytes :=
  match partition 58 url with
  | (_, none) => ([], url)
  | (pre, some after) =>
    match pre with
    | [] => ([], url)
    | c :: _ => if isAlpha c && pre.all isSchemeChar then (lower pre, after) else ([], url)

def isNetlocEnd (b : Nat) : Bool := b == 47 || b == 63 || b == 35

def splitNetloc (url : Bytes) : Option Bytes × Bytes :=
  match url with
  | 47 :: 47 :: r => (some (r.takeWhile (fun b => !isNetlocEnd b)), r.dropWhile (fun b => !isNetlocEnd b))
  | _ => (none, url)

/-- groups of a plain IPv6 literal -/
def hexGroup (g : Bytes) : Bool := g != [] && g.length ≤ 4 && g.all isHex

def validIPv6 (s : Bytes) : Bool :=
  let parts := splitOnElem 58 s
  let nonEmpty := parts.filter (· != [])
  let nEmpty := (parts.filter (· == [])).length
  nonEmpty.all hexGroup &&
  ( (nEmpty == 0 && parts.length == 8)
    || (nEmpty == 1 && parts.length ≤ 8 && parts.head? != some [] && parts.getLast? != some [])
    || (nEmpty == 2 && 3 ≤ parts.length && parts.length ≤ 9 && nonEmpty.length ≤ 7 &&
          (parts.take 2 == [[], []] || parts.drop (parts.length - 2) == [[], []]))
    || (parts == [[], [], []]) )

/-- `_hostinfo`: host and port text of a netloc -/
def hostinfo (netloc : Bytes) : Bytes × Option Bytes :=
  let hi := (rpartition 64 netloc).2
  match partition 91 hi with
  | (_, some bracketed) =>
    let (hostname, afterBr) := partition 93 bracketed
    let port := match afterBr with
      | none => none
      | some r => (partition 58 r).2
    (hostname, port)
  | (_, none) =>
    let (hostname, port) := partition 58 hi
    (hostname, port)

def digitsToNat (ds : Bytes) : Nat := ds.foldl (fun acc d => acc * 10 + (d - 48)) 0

def parsePort (p : Option Bytes) : Except Err (Option Nat) :=
  match p with
  | none => .ok none
  | some [] => .ok none
  | some ds =>
    if ds.all isDigit then
      let n := digitsToNat ds
      if n ≤ 65535 then .ok (some n) else .error .valueError
    else .error .valueError

/-- `.hostname`: lower-cased, except for an IPv6 zone id after `%` -/
def hostnameOf (h : Bytes) : Bytes :=
  match partition 37 h with
  | (a, none) => lower a
  | (a, some zone) => lower a ++ 37 :: zone

def usesParams : List Bytes :=
  ["", "ftp", "hdl", "prospero", "http", "imap", "https", "shttp", "rtsp", "rtsps", "rtspu",
   "sip", "sips", "mms", "sftp", "tel"].map ascii

/-- `_splitparams(path)[0]` -/
def dropParams (path : Bytes) : Bytes :=
  match rpartition 47 path with
  | (none, _) => (partition 59 path).1
  | (some dir, last) =>
    match partition 59 last with
    | (_, none) => path
    | (seg, some _) => dir ++ 47 :: seg

/-- `URL(url)` for a non-empty bytes argument -/
def parse (raw : Bytes) : Except Err URL :=
  if raw.any (· ≥ 128) then .error .unicode else
  let url := sanitize raw
  let (scheme, rest) := splitScheme url
  let (netlocO, rest) := splitNetloc rest
  let netloc := netlocO.getD []
  let hasOpen := netloc.contains 91
  let hasClose := netloc.contains 93
  if hasOpen != hasClose then .error .valueError else
  let bracketOk : Except Err Unit :=
    if hasOpen then
      let content := ((partition 93 ((partition 91 netloc).2.getD [])).1)
      if validIPv6 content then .ok () else .error .outOfDomain
    else .ok ()
  match bracketOk with
  | .error e => .error e
  | .ok () =>
  let rest := (partition 35 rest).1
  let (path, query) := partition 63 rest
  let path := if Gen.urlUsesParamSplit && usesParams.contains scheme && path.contains 59
              then dropParams path else path
  let (h, p) := hostinfo netloc
  match parsePort p with
  | .error e => .error e
  | .ok port =>
    let target := (if path.isEmpty then [47] else path) ++
      (match query with | some q => if q.isEmpty then [] else 63 :: q | none => [])
    .ok { scheme := scheme, host := hostnameOf h, port := port, target := target }

/-! ### origin, bytes, default headers -/

structure Origin where
  scheme : Bytes
  host : Bytes
  port : Nat
  deriving DecidableEq, Repr

def lookup (k : Bytes) : List (Bytes × Nat) → Option Nat
  | [] => none
  | (k', v) :: t => if k' = k then some v else lookup k t

/-- `URL.origin`; `none` = KeyError (scheme without a default port) -/
def origin (u : URL) : Option Origin :=
  match lookup u.scheme Gen.originDefaultPorts with
  | none => none
  | some d =>
    let port := match u.port with
      | none => d
      | some p => if Gen.originPortUsesOr && p == 0 then d else p
    some { scheme := u.scheme, host := u.host, port := port }

/-- `_uri_host`: an IPv6 literal (a host containing `:` that is not already bracketed) is enclosed
in brackets wherever it is written into a URI or a Host header -/
def uriHost (h : Bytes) : Bytes :=
  if h.contains 58 && h.head? != some 91 then 91 :: h ++ [93] else h

/-- `bytes(url)` -/
def toBytes (u : URL) : Bytes :=
  match u.port with
  | none => u.scheme ++ ascii "://" ++ uriHost u.host ++ u.target
  | some p => u.scheme ++ ascii "://" ++ uriHost u.host ++ 58 :: decimal p ++ u.target

abbrev Header := Bytes × Bytes

def hasHeader (name : Bytes) (hs : List Header) : Bool := hs.any (fun h => lower h.1 == name)

inductive Content | none | bytes (len : Nat) | iter
  deriving DecidableEq, Repr

/-- the synthesised `Host` value -/
def hostHeaderValue (u : URL) : Bytes :=
  let dflt := lookup u.scheme Gen.hostDefaultPorts
  let host := uriHost u.host
  match u.port with
  | none => host
  | some p => if some p == dflt then host else host ++ 58 :: decimal p

/-- `include_request_headers` -/
def includeRequestHeaders (hs : List Header) (u : URL) (c : Content) : List Header :=
  let hs1 := if hasHeader (ascii "host") hs then hs else (ascii "Host", hostHeaderValue u) :: hs
  let noFraming := !hasHeader (ascii "content-length") hs && !hasHeader (ascii "transfer-encoding") hs
  match c with
  | .none => hs1
  | .bytes n => if noFraming then hs1 ++ [(ascii "Content-Length", decimal n)] else hs1
  | .iter => if noFraming then hs1 ++ [(ascii "Transfer-Encoding", ascii "chunked")] else hs1

/-- `enforce_bytes` on a `str` given as code points: accepted iff every code point < 128 -/
def enforceText (cps : List Nat) : Option Bytes := if cps.all (· < 128) then some cps else none

end Httpcore.Url
