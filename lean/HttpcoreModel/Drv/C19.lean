import HttpcoreModel.Drv.Common
import HttpcoreModel.Url
namespace Httpcore.Drv
open Httpcore Httpcore.Url

def showErr : Err → String
  | .valueError => "ValueError" | .unicode => "UnicodeDecodeError" | .outOfDomain => "out-of-domain"

def parseUrlArgs (scheme host port target : String) : Option URL :=
  match bytesOfHex scheme, bytesOfHex host, parseOptNat port, bytesOfHex target with
  | some s, some h, some p, some t => some { scheme := s, host := h, port := p, target := t }
  | _, _, _, _ => none

def showUrl (u : URL) : String :=
  s!"scheme={hexOfBytes u.scheme} host={hexOfBytes u.host} port={showOptNat u.port} target={hexOfBytes u.target}"

def c19 (args : List String) : String :=
  match args with
  | ["parse", raw] =>
    match bytesOfHex raw with
    | some r =>
      match parse r with
      | .ok u => "ok " ++ showUrl u
      | .error e => "err=" ++ showErr e
    | none => "bad-args"
  | ["origin", s, h, p, t] =>
    match parseUrlArgs s h p t with
    | some u =>
      match origin u with
      | some o => s!"ok scheme={hexOfBytes o.scheme} host={hexOfBytes o.host} port={o.port}"
      | none => "err=KeyError"
    | none => "bad-args"
  | ["bytes", s, h, p, t] =>
    match parseUrlArgs s h p t with
    | some u => "ok bytes=" ++ hexOfBytes (toBytes u)
    | none => "bad-args"
  | ["headers", s, h, p, t, content, hs] =>
    let c : Option Content :=
      if content = "none" then some .none
      else if content = "iter" then some .iter
      else match content.splitOn ":" with
        | ["bytes", n] => n.toNat?.map .bytes
        | _ => none
    match parseUrlArgs s h p t, c, parseHeaders hs with
    | some u, some c, some hs => "ok headers=" ++ showHeaders (includeRequestHeaders hs u c)
    | _, _, _ => "bad-args"
  | ["enforce", cps] =>
    match parseNatList cps with
    | some l =>
      match enforceText l with
      | some b => "ok bytes=" ++ hexOfBytes b
      | none => "err=TypeError"
    | none => "bad-args"
  | _ => "bad-args"

end Httpcore.Drv
