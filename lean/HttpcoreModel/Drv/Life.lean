import HttpcoreModel.Drv.Common
import HttpcoreModel.ConnLife
/-!
Line protocol for the life-cycle models.
`life2 <ka|none> <op@now>,<op@now>,...`   ops: req open back0 back1 initfail ids ended settle uncount goaway iofail aclose q (q = query only)
`life1 <ka|none> <op@now:readable>,...`    ops: req gint prog00 prog01 prog10 prog11 rc aclose q
Answer: one snapshot per operation, `;`-separated.
-/
namespace Httpcore.Drv
open Httpcore Httpcore.Life Httpcore.ConnLife

def showCS : CS → String
  | .new => "NEW" | .active => "ACTIVE" | .idle => "IDLE" | .closed => "CLOSED"

def b01 (b : Bool) : String := if b then "1" else "0"

def parseOp2 (s : String) (now : Nat) : Option Op2 :=
  if s = "req" then some .request else if s = "open" then some .opened
  else if s = "back0" then some (.backedOut false) else if s = "back1" then some (.backedOut true)
  else if s = "initfail" then some .initFailed else if s = "ids" then some .idsExhausted
  else if s = "ended" then some .streamEnded else if s = "settle" then some (.settle now) else if s = "uncount" then some .uncount
  else if s = "goaway" then some .goaway
  else if s = "iofail" then some .ioFailed else if s = "aclose" then some .aclose else none

def snap2 (g : G2) (now : Nat) : String :=
  s!"{showCS g.c.st}|{g.c.count}|{showOptNat g.c.expireAt}|{g.c.streams}|{g.c.starting}|a{b01 (Gen.h2IsAvailable g.c)}" ++
  s!"|i{b01 (Gen.h2IsIdle g.c)}|c{b01 (Gen.h2IsClosed g.c)}|x{b01 (Gen.h2HasExpired g.c now)}|r{b01 g.c.raised}|s{g.c.sockCloses}"

def life2 (args : List String) : String :=
  match args with
  | [ka, ops] =>
    match parseOptNat ka with
    | none => "bad-args"
    | some ka =>
      let rec go (g : G2) (acc : List String) : List String → Option (List String)
        | [] => some acc.reverse
        | t :: rest =>
          match splitOnElem '@' t.toList with
          | [o, n] =>
            match (String.ofList n).toNat? with
            | some now =>
              if o = ['q'] then go g (snap2 g now :: acc) rest else
              match parseOp2 (String.ofList o) now with
              | some op => let g' := step2 g op; go g' (snap2 g' now :: acc) rest
              | none => none
            | none => none
          | _ => none
      match go (init2 ka) [] (commaList ops) with
      | some l => joinWith ";" l
      | none => "bad-args"
  | _ => "bad-args"

def parseOp1 (s : String) (now : Nat) : Option Op1 :=
  if s = "req" then some .request else if s = "gint" then some .gateInterrupted
  else if s = "prog00" then some (.progress false false) else if s = "prog01" then some (.progress false true)
  else if s = "prog10" then some (.progress true false) else if s = "prog11" then some (.progress true true)
  else if s = "rc" then some (.responseClosed now) else if s = "aclose" then some .aclose else none

def snap1 (g : G1) (now : Nat) (readable : Bool) : String :=
  s!"{showCS g.c.st}|{g.c.count}|{showOptNat g.c.expireAt}|a{b01 (Gen.h1IsAvailable g.c)}|i{b01 (Gen.h1IsIdle g.c)}" ++
  s!"|c{b01 (Gen.h1IsClosed g.c)}|x{b01 (Gen.h1HasExpired g.c now readable)}|r{b01 g.c.raised}|s{g.c.sockCloses}|y{g.c.cycles}"

def life1 (args : List String) : String :=
  match args with
  | [ka, ops] =>
    match parseOptNat ka with
    | none => "bad-args"
    | some ka =>
      let rec go (g : G1) (acc : List String) : List String → Option (List String)
        | [] => some acc.reverse
        | t :: rest =>
          match splitOnElem '@' t.toList with
          | [o, n] =>
            match splitOnElem ':' n with
            | [n, r] =>
              match (String.ofList n).toNat? with
              | some now =>
                if o = ['q'] then go g (snap1 g now (r = ['1']) :: acc) rest else
                match parseOp1 (String.ofList o) now with
                | some op => let g' := step1 g op; go g' (snap1 g' now (r = ['1']) :: acc) rest
                | none => none
              | none => none
            | _ => none
          | _ => none
      match go (init1 ka) [] (commaList ops) with
      | some l => joinWith ";" l
      | none => "bad-args"
  | _ => "bad-args"

end Httpcore.Drv
