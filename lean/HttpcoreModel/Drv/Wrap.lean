import HttpcoreModel.Drv.Common
import HttpcoreModel.Generated
namespace Httpcore.Drv
open Httpcore

/-- `wrap <Direct|Tunnel|Socks> <ten 0/1 flags: hasInner connectFailed connected http1 http2 https innerAvail innerExpired innerIdle innerClosed>`
-> `avail expired idle closed` as four 0/1 digits -/
def wrapCmd (args : List String) : String :=
  match args with
  | [cls, bits] =>
    match bits.toList.map (· == '1') with
    | [hi, cf, co, h1, h2, hs, ia, ie, ii, ic] =>
      let b (x : Bool) : String := if x then "1" else "0"
      if cls = "Direct" then
        b (Gen.wrapDirectIsAvailable hi cf co h1 h2 hs ia ie ii ic) ++ b (Gen.wrapDirectHasExpired hi cf co h1 h2 hs ia ie ii ic) ++
        b (Gen.wrapDirectIsIdle hi cf co h1 h2 hs ia ie ii ic) ++ b (Gen.wrapDirectIsClosed hi cf co h1 h2 hs ia ie ii ic)
      else if cls = "Tunnel" then
        b (Gen.wrapTunnelIsAvailable hi cf co h1 h2 hs ia ie ii ic) ++ b (Gen.wrapTunnelHasExpired hi cf co h1 h2 hs ia ie ii ic) ++
        b (Gen.wrapTunnelIsIdle hi cf co h1 h2 hs ia ie ii ic) ++ b (Gen.wrapTunnelIsClosed hi cf co h1 h2 hs ia ie ii ic)
      else if cls = "Socks" then
        b (Gen.wrapSocksIsAvailable hi cf co h1 h2 hs ia ie ii ic) ++ b (Gen.wrapSocksHasExpired hi cf co h1 h2 hs ia ie ii ic) ++
        b (Gen.wrapSocksIsIdle hi cf co h1 h2 hs ia ie ii ic) ++ b (Gen.wrapSocksIsClosed hi cf co h1 h2 hs ia ie ii ic)
      else "bad-args"
    | _ => "bad-args"
  | _ => "bad-args"

end Httpcore.Drv
