import HttpcoreModel.Drv.Common
import HttpcoreModel.Backend
namespace Httpcore.Drv
open Httpcore

/-- `bwrite <bufhex|-> <n,n,...>` -> `pieces=<hex,hex,..> rest=<hex>` -/
def bwrite (args : List String) : String :=
  match args with
  | [b, ns] =>
    match bytesOfHex (if b = "-" then "" else b), parseNatList ns with
    | some buf, some sends =>
      let r := Backend.writeLoop buf sends
      s!"pieces={showBytesList r.1} rest={hexOfBytes r.2}"
    | _, _ => "bad-args"
  | _ => "bad-args"

end Httpcore.Drv
