import HttpcoreModel.Drv.Common
import HttpcoreModel.H2
namespace Httpcore.Drv
open Httpcore Httpcore.H2

def showSlots (s : Slots) : String :=
  s!"sem={s.sem} held={s.held} max={s.maxS} debt={s.debt}"

/-- `h2slots <op>,<op>,...` with op = `s<n>` (settings n) | `o` (a request's acquire loop) | `c` (close)
    -> the slot state after each op, `;`-separated; `wait` marks a request that has to wait -/
def h2slots (args : List String) : String :=
  match args with
  | [ops] =>
    let step (acc : Slots × List String) (op : String) : Slots × List String :=
      let s := acc.1
      if op = "o" then
        let r := s.openStream
        (r.1, acc.2 ++ [(if r.2 then "" else "wait ") ++ showSlots r.1])
      else if op = "c" then let s' := s.closeStream; (s', acc.2 ++ [showSlots s'])
      else match (op.drop 1).toString.toNat? with
        | some n => let s' := s.settings n; (s', acc.2 ++ [showSlots s'])
        | none => (s, acc.2 ++ ["bad-op"])
    joinWith ";" ((commaList ops).foldl step (Slots.init, [])).2
  | _ => "bad-args"

def parseInt (s : String) : Option Int :=
  if s.startsWith "-" then (s.drop 1).toString.toNat?.map fun n => -(n : Int) else s.toNat?.map fun n => (n : Int)

def parseUpdate (s : String) : Option Update :=
  match s.splitOn "=" with
  | ["sw", n] => n.toNat?.map .streamWindow
  | ["cw", n] => n.toNat?.map .connWindow
  | ["mf", n] => n.toNat?.map .maxFrame
  | ["iw", d] => (parseInt d).map .initialWindowDelta
  | _ => none

/-- `h2send <streamWin> <connWin> <maxFrame> <batch>/<batch>/... <len>`; a batch is `upd+upd+...` or `-` (nothing)
    -> `chunks=<n>,<n>,... left=<n>` -/
def h2send (args : List String) : String :=
  match args with
  | [sw, cw, mf, sched, len] =>
    match parseInt sw, parseInt cw, mf.toNat?, len.toNat? with
    | some sw, some cw, some mf, some len =>
      let batches := if sched = "-" then [] else (sched.splitOn "/").map fun b =>
        if b = "-" then some [] else optAll ((b.splitOn "+").map parseUpdate)
      match optAll batches with
      | some bs =>
        let r := sendData { streamWin := sw, connWin := cw, maxFrame := mf } bs (List.replicate len 0)
        s!"chunks={joinWith "," (r.emitted.map fun e => toString e.1.length)} left={r.left.length}"
      | none => "bad-args"
    | _, _, _, _ => "bad-args"
  | _ => "bad-args"

/-- `h2win <max> <op>,<op>,...` with op = `r<n>` (DATA of flow-controlled length n received) | `a<n>` (n bytes acknowledged)
    -> per op `cur:proc:increment` (`x` if h2 rejects the frame) -/
def h2win (args : List String) : String :=
  match args with
  | [mx, ops] =>
    match mx.toNat? with
    | some mx =>
      let step (acc : Win × List String) (op : String) : Win × List String :=
        let w := acc.1
        match (op.drop 1).toString.toNat? with
        | none => (w, acc.2 ++ ["bad-op"])
        | some n =>
          if op.startsWith "r" then
            match w.consume n with
            | some w' => (w', acc.2 ++ [s!"{w'.cur}:{w'.proc}:0"])
            | none => (w, acc.2 ++ ["x"])
          else
            let r := w.process n
            (r.1, acc.2 ++ [s!"{r.1.cur}:{r.1.proc}:{r.2}"])
      joinWith ";" ((commaList ops).foldl step ({ max := mx, cur := mx, pend := 0, proc := 0 }, [])).2
    | none => "bad-args"
  | _ => "bad-args"

/-- `h2recv <ev>,<ev>,...` with ev = `r` (response headers) | `d<n>` (DATA of n bytes) | `e` (END_STREAM) | `x<code>` (RST_STREAM)
    -> `complete <body length>` | `failed` | `needmore` -/
def h2recv (args : List String) : String :=
  match args with
  | [evs] =>
    let parse (s : String) : Option SEv :=
      if s = "r" then some (.response 200 [])
      else if s = "e" then some .ended
      else if s.startsWith "d" then (s.drop 1).toString.toNat?.map fun n => .data (List.replicate n 0)
      else if s.startsWith "x" then (s.drop 1).toString.toNat?.map .reset
      else none
    match optAll ((commaList evs).map parse) with
    | some es =>
      match recv es with
      | .complete _ _ body => s!"complete {body.length}"
      | .failed => "failed"
      | .needMore => "needmore"
    | none => "bad-args"
  | _ => "bad-args"

/-- `h2goaway <sid> <last>` -> `retry` | `fail` -/
def h2goaway (args : List String) : String :=
  match args with
  | [sid, last] =>
    match sid.toNat?, last.toNat? with
    | some sid, some last => if goawayOutcome sid last = .connectionNotAvailable then "retry" else "fail"
    | _, _ => "bad-args"
  | _ => "bad-args"

end Httpcore.Drv
