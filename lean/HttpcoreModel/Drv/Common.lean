import HttpcoreModel.Basic
namespace Httpcore.Drv
open Httpcore

def optAll {α} : List (Option α) → Option (List α)
  | [] => some []
  | none :: _ => none
  | some a :: t => (optAll t).map (a :: ·)

def parseOptNat (s : String) : Option (Option Nat) :=
  if s = "none" then some none else s.toNat?.map some

def showOptNat : Option Nat → String
  | none => "none"
  | some n => toString n

/-- headers as `namehex:valuehex,namehex:valuehex` (`-` = empty list) -/
def parseHeaders (s : String) : Option (List (Bytes × Bytes)) :=
  optAll ((commaList s).map fun item =>
    match splitOnElem ':' item.toList with
    | [k, v] =>
      match bytesOfHex (String.ofList k), bytesOfHex (String.ofList v) with
      | some k, some v => some (k, v)
      | _, _ => none
    | _ => none)

def showHeaders (hs : List (Bytes × Bytes)) : String :=
  joinWith "," (hs.map fun h => hexOfBytes h.1 ++ ":" ++ hexOfBytes h.2)

def parseBytesList (s : String) : Option (List Bytes) := optAll ((commaList s).map bytesOfHex)

def showBytesList (l : List Bytes) : String := joinWith "," (l.map hexOfBytes)

def parseNatList (s : String) : Option (List Nat) := optAll ((commaList s).map String.toNat?)

end Httpcore.Drv
