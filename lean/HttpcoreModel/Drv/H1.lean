import HttpcoreModel.Drv.Common
import HttpcoreModel.H1Obs
import HttpcoreModel.H1Render
namespace Httpcore.Drv
open Httpcore Httpcore.H1

def showSt : St → String
  | .head => "head" | .cl n => s!"cl:{n}" | .chunkSize => "chunkSize" | .chunkData n => s!"chunkData:{n}"
  | .chunkDiscard k => s!"chunkDiscard:{k}" | .trailers => "trailers" | .untilClose => "untilClose"
  | .done => "done" | .switched => "switched" | .failed => "failed"

def showOutcome : Outcome → String
  | .pending => "pending" | .complete => "complete"
  | .error .protocol => "error:protocol" | .error .outOfDomain => "error:out-of-domain"

def showHead : Option Head → String
  | none => "none"
  | some h => s!"{hexOfBytes h.version}/{h.status}/{hexOfBytes h.reason}/{showHeaders h.headers}"

def parseReqInfo (s : String) : ReqInfo :=
  match s.toList with
  | [a, b, c] => { isHead := a = '1', isConnect := b = '1', hasUpgrade := c = '1' }
  | _ => { isHead := false, isConnect := false, hasUpgrade := false }

/-- `h1read <flags> <eof 0|1> <segments>` -/
def h1read (args : List String) : String :=
  match args with
  | [flags, eof, segs] =>
    match parseBytesList segs with
    | some ss =>
      let ri := parseReqInfo flags
      let r := if eof = "1" then readAll ri ss else readOpen ri ss
      s!"head={showHead r.1.head} body={hexOfBytes r.1.body} outcome={showOutcome r.1.outcome} state={showSt r.2.1} residual={hexOfBytes r.2.2}"
    | none => "bad-args"
  | _ => "bad-args"

/-- `h1upgrade <leading hex> <max_bytes list>` : results of successive reads while leading data lasts -/
def h1upgrade (args : List String) : String :=
  match args with
  | [leading, ms] =>
    match bytesOfHex leading, parseNatList ms with
    | some l, some ms =>
      let rec go (l : Bytes) (ms : List Nat) (acc : List String) : List String :=
        match ms with
        | [] => acc.reverse
        | m :: rest =>
          match upgradeRead l m with
          | none => go l rest ("pass" :: acc)
          | some (out, l') => go l' rest (hexOfBytes out :: acc)
      "reads=" ++ joinWith "," (go l ms [])
    | _, _ => "bad-args"
  | _ => "bad-args"

/-- `h1leading <flags> <segments>`: run httpcore's head loop; leading data handed to the upgrade stream -/
def h1leading (args : List String) : String :=
  match args with
  | [flags, segs] =>
    match parseBytesList segs with
    | some ss =>
      let ri := parseReqInfo flags
      let r := feedUntilSwitched ri ([], .head, []) ss
      let o := observe r.1.1
      s!"head={showHead o.head} state={showSt r.1.2.1} leading={hexOfBytes r.1.2.2} unread={r.2.length} outcome={showOutcome o.outcome}"
    | none => "bad-args"
  | _ => "bad-args"

/-- `h1handover <flags> <segments> <max_bytes list>`: the head loop, then successive reads of the handed-over
stream through the leading data and on into the network -/
def h1handover (args : List String) : String :=
  match args with
  | [flags, segs, ms] =>
    match parseBytesList segs, parseNatList ms with
    | some ss, some ms =>
      let ri := parseReqInfo flags
      let r := feedUntilSwitched ri ([], .head, []) ss
      let h := handoverReads r.1.2.2 r.2 ms
      s!"state={showSt r.1.2.1} reads=" ++ joinWith "," (h.1.map hexOfBytes) ++ s!" held={hexOfBytes h.2.1} net={h.2.2.length}"
    | _, _ => "bad-args"
  | _ => "bad-args"

/-- `h1head <a> <b> <d1> <d2> <d3> <reason hex|-> <headers>`: is this head well-formed, and the bytes a server sends for it -/
def h1head (args : List String) : String :=
  match args with
  | [a, b, d1, d2, d3, r, hs] =>
    match a.toNat?, b.toNat?, d1.toNat?, d2.toNat?, d3.toNat?, bytesOfHex (if r = "-" then "" else r), parseHeaders hs with
    | some a, some b, some d1, some d2, some d3, some r, some hs =>
      s!"wf={if C02H.wellFormedB a b d1 d2 d3 r hs then 1 else 0} render={hexOfBytes (C02H.renderHead a b d1 d2 d3 r hs)}"
    | _, _, _, _, _, _, _ => "bad-args"
  | _ => "bad-args"

end Httpcore.Drv
