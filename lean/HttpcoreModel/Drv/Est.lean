import HttpcoreModel.Drv.Common
import HttpcoreModel.Drv.Pool
import HttpcoreModel.Drv.H1W
import HttpcoreModel.Drv.C19
import HttpcoreModel.Establish
namespace Httpcore.Drv
open Httpcore Httpcore.Est Httpcore.H1W

/-- proxy: `none` or `scheme:host:port:user:pass:headers` with hex fields, `-` for no auth -/
def parseProxy (s : String) : Option (Option Proxy) :=
  if s = "none" then some none else
  match (splitOnElem '/' s.toList).map String.ofList with
  | [sc, h, p, u, pw, hs] =>
    match bytesOfHex sc, bytesOfHex h, p.toNat?, parseHeaders hs with
    | some sc, some h, some p, some hs =>
      let auth := if u = "none" then none else
        match bytesOfHex u, bytesOfHex pw with
        | some u, some pw => some (u, pw)
        | _, _ => none
      some (some { scheme := sc, host := h, port := p, auth := auth, headers := hs })
    | _, _, _, _ => none
  | _ => none

def showKind : Kind → String
  | .direct => "direct" | .forward => "forward" | .tunnel => "tunnel" | .socks => "socks"

def flag (s : String) : Bool := s = "1"

def est (args : List String) : String :=
  match args with
  | ["plan", px, h1, h2, sc, host, port, sni] =>
    match parseProxy px, bytesOfHex sc, bytesOfHex host, port.toNat? with
    | some px, some sc, some host, some port =>
      let pool : Pool := { proxy := px, http1 := flag h1, http2 := flag h2 }
      let sni := if sni = "none" then none else bytesOfHex sni
      let pl := plan pool { scheme := sc, host := host, port := port } sni
      s!"kind={showKind (kindOf pool sc)} connect={hexOfBytes pl.connectHost}:{pl.connectPort} tlsproxy={if pl.tlsToProxy then 1 else 0} target={hexOfBytes pl.target.1}:{pl.target.2} tls={if pl.tlsOrigin then 1 else 0} sni={hexOfBytes pl.sni} alpn={joinWith "," pl.alpn}"
    | _, _, _, _ => "bad-args"
  | ["h2", h1, h2, alpn] =>
    s!"h2={if speaksH2 (flag h1) (flag h2) (if alpn = "none" then none else some alpn) then 1 else 0}"
  | ["connect", px, host, port] =>
    match parseProxy px, bytesOfHex host, port.toNat? with
    | some (some px), some host, some port =>
      let r := writeRequest (connectRequest px host port) []
      s!"written={hexOfBytes r.1} err={showWErr r.2}"
    | _, _, _ => "bad-args"
  | ["forward", px, m, sc, host, port, target, hs, cs] =>
    match parseProxy px, bytesOfHex m, parseUrlArgs sc host port target, parseHeaders hs, parseBytesList cs with
    | some (some px), some m, some u, some hs, some cs =>
      let r := writeRequest (forwardRequest px m u hs) cs
      s!"written={hexOfBytes r.1} err={showWErr r.2}"
    | _, _, _, _, _ => "bad-args"
  | ["socks", px, host, port] =>
    match parseProxy px, bytesOfHex host, port.toNat? with
    | some (some px), some host, some port =>
      match socksNegotiation px host port with
      | some msgs => "msgs=" ++ showBytesList msgs
      | none => "out-of-domain"
    | _, _, _ => "bad-args"
  | ["merge", d, o] =>
    match parseHeaders d, parseHeaders o with
    | some d, some o => "headers=" ++ showHeaders (mergeHeaders d o)
    | _, _ => "bad-args"
  | _ => "bad-args"

end Httpcore.Drv
