import HttpcoreModel.Drv.Common
import HttpcoreModel.Pool
import HttpcoreModel.Generated
namespace Httpcore.Drv
open Httpcore Httpcore.Pool

def splitColon (s : String) : List String := (splitOnElem ':' s.toList).map String.ofList

def parseConn (s : String) : Option Conn :=
  match splitColon s with
  | [id, o, bits] =>
    match id.toNat?, o.toNat?, bits.toList with
    | some id, some o, [a, b, c, d] =>
      some { id := id, origin := o, closed := a = '1', expired := b = '1', idle := c = '1', available := d = '1' }
    | _, _, _ => none
  | _ => none

def parseReq (s : String) : Option Req :=
  match splitColon s with
  | [id, o, c] =>
    match id.toNat?, o.toNat? with
    | some id, some o => some { id := id, origin := o, conn := if c = "-" then none else c.toNat? }
    | _, _ => none
  | _ => none

/-- `poolpass <maxConn> <maxKeepalive> <newAvail> <conns> <reqs> <nextId>` -/
def poolpass (args : List String) : String :=
  match args with
  | [mc, mk, na, cs, rs, nx] =>
    match mc.toNat?, mk.toNat?, optAll ((commaList cs).map parseConn), optAll ((commaList rs).map parseReq), nx.toNat? with
    | some mc, some mk, some cs, some rs, some nx =>
      let cfg : Cfg := { maxConn := mc, maxKeepalive := mk, newAvail := fun _ => na = "1",
                         countIdleOnly := Gen.poolCountsIdleOnly, protectAssigned := Gen.poolProtectsAssigned,
                         reclaimAbandoned := Gen.poolReclaimsAbandoned }
      let r := pass cfg { conns := cs, reqs := rs, closing := [], nextId := nx }
      let showR (q : Req) := s!"{q.id}:{match q.conn with | some c => toString c | none => "-"}"
      s!"conns={joinWith "," (r.conns.map (fun c => toString c.id))} closing={joinWith "," (r.closing.map (fun c => toString c.1.id))} reqs={joinWith "," (r.reqs.map showR)} next={r.nextId}"
    | _, _, _, _, _ => "bad-args"
  | _ => "bad-args"

end Httpcore.Drv
