import HttpcoreModel.Drv.Common
import HttpcoreModel.H1Write
import HttpcoreModel.H1Parse
import HttpcoreModel.Url
namespace Httpcore.Drv
open Httpcore Httpcore.H1W

def showWErr : Option WErr → String
  | none => "none" | some .localProtocol => "LocalProtocolError" | some .h11Local => "LocalProtocolError"

/-- `h1write <method> <target> <headers> <chunks>` -/
def h1write (args : List String) : String :=
  match args with
  | [m, t, hs, cs] =>
    match bytesOfHex m, bytesOfHex t, parseHeaders hs, parseBytesList cs with
    | some m, some t, some hs, some cs =>
      let r := writeRequest { method := m, target := t, headers := hs } cs
      s!"written={hexOfBytes r.1} err={showWErr r.2}"
    | _, _, _, _ => "bad-args"
  | _ => "bad-args"

/-- `h1parse <bytes>`: the request head a server reads from these bytes -/
def h1parse (args : List String) : String :=
  match args with
  | [b] =>
    match bytesOfHex b with
    | some bs =>
      match H1P.parseRequestHead bs with
      | some p => s!"method={hexOfBytes p.method} target={hexOfBytes p.target} headers={showHeaders p.headers} restlen={p.rest.length}"
      | none => "none"
    | none => "bad-args"
  | _ => "bad-args"

/-- `h2hdrs <method> <scheme> <target> <headers>` -/
def h2hdrs (args : List String) : String :=
  match args with
  | [m, s, t, hs] =>
    match bytesOfHex m, bytesOfHex s, bytesOfHex t, parseHeaders hs with
    | some m, some s, some t, some hs =>
      match h2Headers m s t hs with
      | some (l, e) =>
        let v := if h2Crashes l then "crash" else
          match h2SendHead Gen.h2ValidatesOutbound m s t hs with
          | .rejected => "rejected" | _ => "sent"
        s!"headers={showHeaders l} end={if e then 1 else 0} h2={v} illegal={if h2Refuses l then 1 else 0}"
      | none => "err=IndexError"
    | _, _, _, _ => "bad-args"
  | _ => "bad-args"

end Httpcore.Drv
