import HttpcoreModel.Drv.Common
import HttpcoreModel.Sys.Model
import Std.Data.HashSet
/-!
Driver side of the `Sys` conformance check: given the candidate model states that matched the previous observation of the
real pool and the next observation (a projection: ghost owners unknown), search the model's step relation breadth-first for
states that match it. An empty answer means the implementation did something no sequence of model actions does.
-/
namespace Httpcore.Drv.SysD
open Httpcore Httpcore.Sys Httpcore.Drv

deriving instance Hashable for CStatus
deriving instance Hashable for Conn
deriving instance Hashable for PC
deriving instance Hashable for Sys.Task

structure FState where
  conns : List Conn
  tasks : List Task
  deriving DecidableEq, Repr, Hashable

def toState (f : FState) : State :=
  { conns := fun i => f.conns.getD i {}, tasks := fun i => f.tasks.getD i {} }

def ofState (nc nt : Nat) (s : State) : FState :=
  { conns := (List.range nc).map s.conns, tasks := (List.range nt).map s.tasks }

def fixes : Fixes := { closeNew := true, closeOnTlsCancel := true }

def outcomes (faults cancels : Bool) : List Outcome :=
  [.ok] ++ (if faults then [.fail] else []) ++ (if cancels then [.cancel] else [])

def firstAbsent (f : FState) : Option Nat :=
  (List.range f.conns.length).find? fun c => (f.conns.getD c {}).status = .absent && !(f.conns.getD c {}).inPool

def actions (f : FState) (faults cancels closing : Bool) : List Action :=
  let ts := List.range f.tasks.length
  let cs := List.range f.conns.length
  let os := outcomes faults cancels
  (ts.map Action.arrive) ++ (ts.map Action.start) ++ (ts.map Action.closed) ++ (ts.map Action.finish) ++
  (if cancels then (ts.map Action.cancelAssigned) ++ (ts.map Action.waitCancel) else []) ++
  (ts.flatMap fun t => os.flatMap fun o => [Action.tcp t o, Action.tls t o, Action.gate t o, Action.io t o true, Action.io t o false]) ++
  (ts.flatMap fun t => cs.map fun c => Action.assignIdle t c) ++
  (match firstAbsent f with | some c => ts.map fun t => Action.assignNew t c | none => []) ++
  (cs.map Action.evict) ++ (cs.map Action.dropClosed) ++ (if closing then cs.map Action.poolClose else [])

def succs (f : FState) (faults cancels closing : Bool) : List FState :=
  ((actions f faults cancels closing).map fun a => ofState f.conns.length f.tasks.length (step fixes (toState f) a)).eraseDups.filter (· ≠ f)

/-- projection: everything but the ghost owner -/
def projConn (c : Conn) : CStatus × Bool × Bool := (c.status, c.inPool, c.streamOpen)
def proj (f : FState) : List (CStatus × Bool × Bool) × List Task := (f.conns.map projConn, f.tasks)

/-- breadth-first search with a visited set; stops at `depth`, when nothing new appears, or when `budget` states were visited
(the third component says whether the budget ran out) -/
partial def bfs (depth budget : Nat) (seen : Std.HashSet FState) (frontier : List FState) (fa ca cl : Bool) :
    Std.HashSet FState × Bool :=
  if depth = 0 || frontier.isEmpty then (seen, false)
  else if seen.size > budget then (seen, true)
  else
    let step := frontier.foldl (fun (acc : Std.HashSet FState × List FState) f =>
      (succs f fa ca cl).foldl (fun (a : Std.HashSet FState × List FState) x =>
        if a.1.contains x then a else (a.1.insert x, x :: a.2)) acc) (seen, [])
    bfs (depth - 1) budget step.1 step.2 fa ca cl

def statusCode : CStatus → String
  | .absent => "a" | .fresh => "f" | .connecting => "c" | .failed => "x" | .new => "n" | .active => "A" | .idle => "i" | .closed => "z"

def parseStatus (c : Char) : Option CStatus :=
  if c = 'a' then some .absent else if c = 'f' then some .fresh else if c = 'c' then some .connecting else if c = 'x' then some .failed
  else if c = 'n' then some .new else if c = 'A' then some .active else if c = 'i' then some .idle else if c = 'z' then some .closed else none

def showConn (c : Conn) : String :=
  statusCode c.status ++ (if c.inPool then "p" else "-") ++ (if c.streamOpen then "o" else "-") ++
    (match c.owner with | some t => toString t | none => "_")

def parseConn (s : String) : Option Conn :=
  match s.toList with
  | st :: p :: o :: rest =>
    match parseStatus st with
    | some status =>
      let owner := if rest = ['_'] || rest = ['?'] then some none else (String.ofList rest).toNat?.map some
      owner.map fun ow => { status := status, inPool := p = 'p', streamOpen := o = 'o', owner := ow }
    | none => none
  | _ => none

def showPC : PC → String
  | .notStarted => "n" | .queued => "q" | .assigned c => s!"a{c}" | .connectTcp c => s!"t{c}" | .connectTls c => s!"l{c}"
  | .gate c => s!"g{c}" | .io c => s!"i{c}" | .closing c => s!"c{c}" | .cleanup => "u" | .done => "d"

def showTask (t : Task) : String := showPC t.pc ++ (if t.counted then "+" else "-")

def parseTask (s : String) : Option Task :=
  let cs := s.toList
  match cs.reverse with
  | flag :: restRev =>
    let body := restRev.reverse
    let counted := flag = '+'
    let arg := (String.ofList (body.drop 1)).toNat?
    let pc : Option PC :=
      match body with
      | ['n'] => some .notStarted | ['q'] => some .queued | ['u'] => some .cleanup | ['d'] => some .done
      | 'a' :: _ => arg.map .assigned | 't' :: _ => arg.map .connectTcp | 'l' :: _ => arg.map .connectTls
      | 'g' :: _ => arg.map .gate | 'i' :: _ => arg.map .io | 'c' :: _ => arg.map .closing
      | _ => none
    pc.map fun p => { pc := p, counted := counted }
  | [] => none

def showF (f : FState) : String := joinWith "," (f.conns.map showConn) ++ "|" ++ joinWith "," (f.tasks.map showTask)

def parseF (s : String) : Option FState :=
  match s.splitOn "|" with
  | [cs, ts] =>
    match optAll ((commaList cs).map parseConn), optAll ((commaList ts).map parseTask) with
    | some c, some t => some { conns := c, tasks := t }
    | _, _ => none
  | _ => none

/-- `sysreach <depth> <flags: f|-,c|-,p|-> <cand;cand;…> <target>` -> the model states within `depth` steps of a candidate
whose projection equals the target's (`;`-separated, at most 40), `none`, or `budget` (search abandoned: 60000 states) -/
def sysreach (args : List String) : String :=
  match args with
  | [depth, flags, cands, target] =>
    match depth.toNat?, optAll ((cands.splitOn ";").map parseF), parseF target with
    | some d, some cs, some tg =>
      let fl := flags.toList
      let r := bfs d 60000 (Std.HashSet.ofList cs) cs (fl.getD 0 '-' = 'f') (fl.getD 1 '-' = 'c') (fl.getD 2 '-' = 'p')
      let hits := r.1.toList.filter fun f => proj f = proj tg
      if !hits.isEmpty then joinWith ";" ((hits.take 40).map showF)
      else if r.2 then "budget" else "none"
    | _, _, _ => "bad-args"
  | _ => "bad-args"

end Httpcore.Drv.SysD
