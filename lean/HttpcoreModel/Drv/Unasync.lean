import HttpcoreModel.Drv.Common
import HttpcoreModel.Unasync
namespace Httpcore.Drv
open Httpcore Httpcore.Unasync

/-- `unasync <hex of the utf-8 line>` -> hex of the translated line (lines with bytes ≥ 0x80 are decoded as UTF-8) -/
def unasyncCmd (args : List String) : String :=
  match args with
  | [h] =>
    if h = "-" then "-" else
    match bytesOfHex h with
    | some bs =>
      match String.fromUTF8? (ByteArray.mk (bs.map fun n => n.toUInt8).toArray) with
      | some s =>
        let out := String.ofList (unasyncLine table s.toList)
        let hx := hexOfBytes (out.toUTF8.toList.map fun b => b.toNat)
        if hx = "" then "-" else hx
      | none => "bad-utf8"
    | none => "bad-args"
  | _ => "bad-args"

end Httpcore.Drv
