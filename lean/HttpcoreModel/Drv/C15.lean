import HttpcoreModel.Drv.Common
import HttpcoreModel.ExcSurface
namespace Httpcore.Drv
open Httpcore Httpcore.Surf

def parseStage (s : String) : Option Stage :=
  Stage.all.find? (fun st => toString (repr st) == "Httpcore.Surf.Stage." ++ s)

def parseCause (s : String) : Option Cause :=
  if s = "peerMalformed" then some .peerMalformed
  else if s = "peerClosed" then some .peerClosed
  else if s = "callerInvalid" then some .callerInvalid
  else if s = "proxyRefused" then some .proxyRefused
  else if s = "poolDeadline" then some .poolDeadline
  else if s = "unsupportedScheme" then some .unsupportedScheme
  else match s.splitOn ":" with
    | ["backend", e] => (Exc.ofName e).map .backend
    | _ => none

/-- `c15 <stage> <cause>` -> `class=<name>|none documented=0|1` -/
def c15 (args : List String) : String :=
  match args with
  | [st, ca] =>
    match parseStage st, parseCause ca with
    | some st, some ca =>
      match surface st ca with
      | some e => s!"class={e.name} documented={if documented e then 1 else 0}"
      | none => "class=none documented=1"
    | _, _ => "bad-args"
  | _ => "bad-args"

end Httpcore.Drv
