import HttpcoreModel.Drv.Common
import HttpcoreModel.Backoff
namespace Httpcore.Drv
open Httpcore

def parseOutcome (s : String) : Option (Option Exc) :=
  if s = "ok" then some none else (Exc.ofName s).map some

def showOp : Backoff.Op → String
  | .connect => "connect"
  | .startTls => "start_tls"
  | .sleep d => s!"sleep:{d}"

def showRes : Backoff.Res → String
  | .connected => "connected"
  | .raised e => s!"raised:{e.name}"
  | .starved => "starved"

def c20 (args : List String) : String :=
  match args with
  | [tls, n, outs] =>
    match n.toNat?, optAll ((commaList outs).map parseOutcome) with
    | some n, some os =>
      let r := Backoff.connect (tls = "1") n os
      s!"ops={joinWith "," (r.1.map showOp)} res={showRes r.2} den={Gen.backoffDen}"
    | _, _ => "bad-args"
  | _ => "bad-args"

end Httpcore.Drv
