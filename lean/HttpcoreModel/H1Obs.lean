import HttpcoreModel.Lemmas.H1Stable
/-!
The reader as an `Extractor`, and what httpcore's loops make of its events:
`_receive_response_headers` (skip 1xx, stop at a final response or at 101), `_receive_response_body`
(yield data until EndOfMessage / PAUSED), `_receive_event`'s end-of-file rule, `trailing_data`.
-/
namespace Httpcore.H1
open Httpcore

theorem extract_progress (ri : ReqInfo) (s : St) (b : Bytes) (e : Ev) (s' : St) (r : Bytes)
    (h : extract ri s b = some (e, s', r)) :
    r.length < b.length ∨ (r.length = b.length ∧ rank s' < rank s) := by
  cases s with
  | head =>
    cases b with
    | nil => simp [extract, extractHead] at h
    | cons c t =>
      simp only [extract, extractHead] at h
      by_cases hc : c < 33
      · simp [hc] at h; obtain ⟨_, rfl, rfl⟩ := h; right; simp [rank]
      · simp only [hc, if_false] at h
        cases hfb : findBlank (c :: t) with
        | none => rw [hfb] at h; simp at h
        | some p =>
          obtain ⟨raw, rest⟩ := p
          rw [hfb] at h
          have hl := findBlank_len _ _ _ hfb
          have hlen : (c :: t).length = raw.length + rest.length := by rw [hl.2]; simp
          simp only at h
          split at h
          · simp at h; obtain ⟨_, rfl, rfl⟩ := h; right; simp [rank]
          · split at h
            · split at h
              · simp at h; obtain ⟨_, _, rfl⟩ := h; left; omega
              · simp at h; obtain ⟨_, rfl, rfl⟩ := h; right; simp [rank]
            · simp at h; obtain ⟨_, _, rfl⟩ := h; left; omega
          · simp at h; obtain ⟨_, _, rfl⟩ := h; left; omega
  | cl n =>
    cases n with
    | zero => simp [extract] at h; obtain ⟨_, rfl, rfl⟩ := h; right; simp [rank]
    | succ n =>
      cases b with
      | nil => simp [extract] at h
      | cons a t => simp [extract] at h; obtain ⟨_, _, rfl⟩ := h; left; simp
  | chunkSize =>
    simp only [extract, extractChunkSize] at h
    cases hf : findCRLF b with
    | none => rw [hf] at h; simp at h
    | some p =>
      obtain ⟨line, rest⟩ := p
      rw [hf] at h
      have hl := findCRLF_len _ _ _ hf
      have hlen : b.length = line.length + rest.length := by rw [hl.2]; simp
      simp only at h
      split at h
      · simp at h; obtain ⟨_, rfl, rfl⟩ := h; right; simp [rank]
      · simp at h; obtain ⟨_, _, rfl⟩ := h; left; omega
      · simp at h; obtain ⟨_, _, rfl⟩ := h; left; omega
  | chunkData n =>
    cases n with
    | zero => simp [extract] at h
    | succ n =>
      cases b with
      | nil => simp [extract] at h
      | cons a t => simp [extract] at h; obtain ⟨_, _, rfl⟩ := h; left; simp
  | chunkDiscard n =>
    cases n with
    | zero => simp [extract] at h
    | succ n =>
      cases b with
      | nil => simp [extract] at h
      | cons a t => simp [extract] at h; obtain ⟨_, _, rfl⟩ := h; left; simp
  | trailers =>
    simp only [extract] at h
    unfold extractTrailers at h
    split at h
    · simp at h
    · simp at h; obtain ⟨_, _, rfl⟩ := h; left; simp
    · rename_i c t _
      split at h
      · rename_i h13
        simp at h; obtain ⟨_, _, rfl⟩ := h; left
        cases t with
        | nil => simp at h13
        | cons a t' => simp; omega
      · cases hfb : findBlank (c :: t) with
        | none => rw [hfb] at h; simp at h
        | some p =>
          obtain ⟨raw, rest⟩ := p
          rw [hfb] at h
          have hl := findBlank_len _ _ _ hfb
          have hlen : (c :: t).length = raw.length + rest.length := by rw [hl.2]; simp
          simp only at h
          split at h
          · simp at h; obtain ⟨_, rfl, rfl⟩ := h; right; simp [rank]
          · simp at h; obtain ⟨_, _, rfl⟩ := h; left; omega
  | untilClose =>
    cases b with
    | nil => simp [extract] at h
    | cons a t => simp [extract] at h; obtain ⟨_, _, rfl⟩ := h; left; simp
  | done => simp [extract] at h
  | switched => simp [extract] at h
  | failed => simp [extract] at h

/-- the response reader for a given request -/
def reader (ri : ReqInfo) : Extractor St Ev where
  extract := extract ri
  rank := rank
  progress := extract_progress ri
  stable := extract_stable ri

/-! ### what the caller observes -/

inductive Outcome
  | pending                 -- more data needed
  | complete
  | error (e : Err)
  deriving DecidableEq, Repr

structure Obs where
  head : Option Head := none      -- the response returned by `handle_request`
  bodyRev : List Nat := []        -- delivered body bytes, newest first
  outcome : Outcome := .pending
  deriving DecidableEq, Repr

def Obs.body (o : Obs) : Bytes := o.bodyRev.reverse

/-- fold one event into the observation (events after the outcome is decided cannot occur) -/
def absorb (o : Obs) : Ev → Obs
  | .info h => if h.status = 101 then { o with head := some h } else o
  | .response h => { o with head := some h }
  | .data b => { o with bodyRev := b :: o.bodyRev }
  | .skip => o
  | .eom => { o with outcome := .complete }
  | .fail e => match o.outcome with
    | .pending => { o with outcome := .error e }
    | _ => o

def observe (evs : List Ev) : Obs := evs.foldl absorb {}

theorem foldl_absorb_data (o : Obs) (body : Bytes) :
    (body.map Ev.data).foldl absorb o = { o with bodyRev := body.reverse ++ o.bodyRev } := by
  induction body generalizing o with
  | nil => simp
  | cons b t ih => simp [absorb, ih]

/-- end of file after the last segment (`_receive_event` + h11's `read_eof` / closed-buffer rules) -/
def atEof (o : Obs) (s : St) (_buf : Bytes) : Obs :=
  match o.outcome with
  | .pending =>
    match s with
    | .untilClose => { o with outcome := .complete }
    | .switched => { o with outcome := .complete }    -- body iteration sees PAUSED
    | .done => { o with outcome := .complete }
    | _ => { o with outcome := .error .protocol }
  | _ => o

/-- a switched connection completes at once (the body loop breaks on PAUSED) -/
def settle (o : Obs) (s : St) : Obs :=
  match o.outcome, s with
  | .pending, .switched => { o with outcome := .complete }
  | _, _ => o

/-- read a whole response that arrives in the given segments and is followed by end of file -/
def readAll (ri : ReqInfo) (segs : List Bytes) : Obs × St × Bytes :=
  let r := (reader ri).feedAll ([], .head, []) segs
  (atEof (observe r.1) r.2.1 r.2.2, r.2.1, r.2.2)

/-- the same without end of file (the connection stays open) -/
def readOpen (ri : ReqInfo) (segs : List Bytes) : Obs × St × Bytes :=
  let r := (reader ri).feedAll ([], .head, []) segs
  (settle (observe r.1) r.2.1, r.2.1, r.2.2)

/-- `AsyncHTTP11UpgradeStream.read(max_bytes)`: (bytes returned, remaining leading data); `none` =
the call is passed through to the network stream -/
def upgradeRead (leading : Bytes) (maxBytes : Nat) : Option (Bytes × Bytes) :=
  if leading.isEmpty then none else some (leading.take maxBytes, leading.drop maxBytes)

end Httpcore.H1

namespace Httpcore.H1
open Httpcore

/-- httpcore stops reading from the network as soon as the response head that switches protocols
has been received: feed segments until the state is `switched`; returns the position reached and the
segments that were *not* read (they stay in the network for the upgraded stream). -/
def feedUntilSwitched (ri : ReqInfo) (st : List Ev × St × Bytes) : List Bytes → (List Ev × St × Bytes) × List Bytes
  | [] => (st, [])
  | seg :: rest =>
    let st' := (reader ri).feed st seg
    if st'.2.1 = .switched then (st', rest) else feedUntilSwitched ri st' rest

/-- successive `read(max_bytes)` calls on the upgrade stream while leading data lasts:
(results, leading data left) -/
def upgradeReads : Bytes → List Nat → List Bytes × Bytes
  | l, [] => ([], l)
  | l, m :: ms =>
    match upgradeRead l m with
    | none => ([], l)
    | some (out, l') => let r := upgradeReads l' ms; (out :: r.1, r.2)

/-- the network as the handed-over stream sees it: the segments the head loop did not read; a
`read(max_bytes)` returns at most `max_bytes` of the first one and leaves the rest in place
(no segment left = nothing arrives: the empty result stands for "the read does not return") -/
def netRead (segs : List Bytes) (m : Nat) : Bytes × List Bytes :=
  match segs with
  | [] => ([], [])
  | s :: rest => if m < s.length then (s.take m, s.drop m :: rest) else (s, rest)

/-- one `read(max_bytes)` of the stream handed to the caller: leading data first (`upgradeRead`),
otherwise straight through to the network: (result, leading data left, network left) -/
def handoverRead (leading : Bytes) (segs : List Bytes) (m : Nat) : Bytes × Bytes × List Bytes :=
  match upgradeRead leading m with
  | some (out, l') => (out, l', segs)
  | none => let r := netRead segs m; (r.1, leading, r.2)

/-- successive reads of the handed-over stream, through the leading data and on into the live connection -/
def handoverReads : Bytes → List Bytes → List Nat → List Bytes × Bytes × List Bytes
  | l, segs, [] => ([], l, segs)
  | l, segs, m :: ms =>
    let r := handoverRead l segs m
    let q := handoverReads r.2.1 r.2.2 ms
    (r.1 :: q.1, q.2.1, q.2.2)

end Httpcore.H1
