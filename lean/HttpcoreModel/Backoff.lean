import HttpcoreModel.Generated
/-!
Model of `exponential_backoff` and of the retry loop `AsyncHTTPConnection._connect`
(`httpcore/_async/connection.py`).

The loop is driven by a script of outcomes, one per network operation (`none` = the
operation succeeds, `some e` = it raises `e`).  Constants (`factor`, first delay, base, the
tuple of retryable classes, the give-up test) come from `Generated.lean`, i.e. from the
current source.
-/
namespace Httpcore.Backoff
open Httpcore

inductive Op
  | connect            -- connect_tcp / connect_unix_socket
  | startTls
  | sleep (scaled : Nat)   -- `sleep(d)` with `d = scaled / Gen.backoffDen`
  deriving DecidableEq, Repr

inductive Res
  | connected
  | raised (e : Exc)
  | starved            -- the outcome script ran out (not an implementation behaviour)
  deriving DecidableEq, Repr

inductive Phase | tcp | tls
  deriving DecidableEq, Repr

/-- `i`-th value of the `exponential_backoff(factor)` iterator, in units of `1/Gen.backoffDen` s -/
def delayScaled (i : Nat) : Nat :=
  match i with
  | 0 => Gen.backoffFirstScaled
  | j + 1 => Gen.backoffNum * Gen.backoffBase ^ j

def Phase.op : Phase → Op
  | .tcp => .connect
  | .tls => .startTls

/-- The loop of `_connect`.  `left` is `retries_left` (an `Int`, as in Python), `i` the number of
values already taken from the `delays` iterator. -/
def run (tls : Bool) : Phase → Int → Nat → List (Option Exc) → List Op × Res
  | _, _, _, [] => ([], .starved)
  | .tcp, left, i, none :: rest =>
    if tls then
      let r := run tls .tls left i rest
      (.connect :: r.1, r.2)
    else ([.connect], .connected)
  | .tls, _, _, none :: _ => ([.startTls], .connected)
  | ph, left, i, some e :: rest =>
    if e ∈ Gen.retryable then
      if Gen.giveUp left then ([ph.op], .raised e)
      else
        let r := run tls .tcp (left - 1) (i + 1) rest
        (ph.op :: .sleep (delayScaled i) :: r.1, r.2)
    else ([ph.op], .raised e)

/-- `_connect` with `retries = n` -/
def connect (tls : Bool) (n : Nat) (outs : List (Option Exc)) : List Op × Res :=
  run tls .tcp (n : Int) 0 outs

/-- number of connection attempts (connect_tcp / connect_unix_socket calls) in a trace -/
def nConnect : List Op → Nat
  | [] => 0
  | .connect :: t => nConnect t + 1
  | .startTls :: t => nConnect t
  | .sleep _ :: t => nConnect t

/-- number of pauses in a trace -/
def nSleep : List Op → Nat
  | [] => 0
  | .connect :: t => nSleep t
  | .startTls :: t => nSleep t
  | .sleep _ :: t => nSleep t + 1

/-- number of network operations (= number of outcomes consumed from the script) -/
def nNet : List Op → Nat
  | [] => 0
  | .connect :: t => nNet t + 1
  | .startTls :: t => nNet t + 1
  | .sleep _ :: t => nNet t

def sleepsOf : List Op → List Nat
  | [] => []
  | .sleep d :: t => d :: sleepsOf t
  | _ :: t => sleepsOf t

end Httpcore.Backoff
