/-!
Model of `AsyncConnectionPool._assign_requests_to_connections` (`connection_pool.py`): the
house-keeping loop over a copy of the connection list, then the assignment loop over the queued
requests — literally, including the iteration order and the fact that status bits are re-read from the
connections at every use.

Connections are seen through their five status predicates.  `Pool.pass` reads them from the
(consistent) views stored in the pool; `passAdv` takes an *adversarial oracle* that may answer
every single status read differently (what another thread can do to the sync pool).
-/
namespace Httpcore.Pool

structure Conn where
  id : Nat
  origin : Nat
  closed : Bool
  expired : Bool
  idle : Bool
  available : Bool
  deriving DecidableEq, Repr

structure Req where
  id : Nat
  origin : Nat
  conn : Option Nat          -- id of the assigned connection
  deriving DecidableEq, Repr

structure Cfg where
  maxConn : Nat
  maxKeepalive : Nat         -- already `min(max_connections, max_keepalive_connections)`
  /-- is a connection that has not connected yet "available" (HTTP/2 may be negotiated)? -/
  newAvail : Nat → Bool
  /-- does the surplus-idle test count idle connections (repaired) or all connections (1.0.7)? -/
  countIdleOnly : Bool
  /-- is an idle connection that a request has been handed (and has not started on yet) exempt from the surplus rule and from
  eviction for room (repaired), or not (1.0.7)? -/
  protectAssigned : Bool
  /-- does the house-keeping loop close a connection that is neither idle nor held by a request (repaired), or leave it in the
  pool for ever (1.0.7)?  Uses the same `reserved` list as `protectAssigned`, which it presupposes. -/
  reclaimAbandoned : Bool := false

/-- why the pass hands a connection to `_close_connections` (ghost information) -/
inductive Reason
  | expired
  | surplus (idleNow : Nat)   -- idle while "too many": `idleNow` = number of idle connections then
  | room                      -- evicted at the connection limit to make room for a new connection
  | abandoned                 -- neither idle nor held by any request: the request it was handed to has left
  deriving DecidableEq, Repr

structure State where
  conns : List Conn
  reqs : List Req
  closing : List (Conn × Reason)   -- connections handed to `_close_connections` by this pass
  nextId : Nat
  reserved : List Nat := []        -- ids of connections that some request has been assigned (`reserved` in the source)
  deriving Repr

def fresh (cfg : Cfg) (id origin : Nat) : Conn :=
  { id := id, origin := origin, closed := false, expired := false, idle := false,
    available := cfg.newAvail origin }

/-- the number compared with the keep-alive limit in the surplus test (`connection_pool.py:293-296`) -/
def surplusCount (cfg : Cfg) (cur : List Conn) : Nat :=
  if cfg.countIdleOnly then (cur.filter (·.idle)).length else cur.length

def isReserved (res : List Nat) (c : Conn) : Bool := res.contains c.id

/-- first loop: `for connection in list(self._connections)`; `res` = the reserved connection ids -/
def cleanup (cfg : Cfg) (res : List Nat) : List Conn → List Conn → List (Conn × Reason) → List Conn × List (Conn × Reason)
  | [], cur, closing => (cur, closing)
  | c :: rest, cur, closing =>
    if c.closed then cleanup cfg res rest (cur.erase c) closing
    else if c.expired then cleanup cfg res rest (cur.erase c) (closing ++ [(c, .expired)])
    else if c.idle && !(isReserved res c) && surplusCount cfg cur > cfg.maxKeepalive then
      cleanup cfg res rest (cur.erase c) (closing ++ [(c, .surplus (cur.filter (·.idle)).length)])
    else if cfg.reclaimAbandoned && !(isReserved res c) && !c.idle then
      cleanup cfg res rest (cur.erase c) (closing ++ [(c, .abandoned)])
    else cleanup cfg res rest cur closing

/-- one iteration of the second loop, for a queued request -/
def assignOne (cfg : Cfg) (s : State) (r : Req) : State × Req :=
  let avail := s.conns.filter (fun c => c.origin == r.origin && c.available)
  let idles := s.conns.filter (fun c => c.idle && !(isReserved s.reserved c))
  match avail with
  | c :: _ => ({ s with reserved := if cfg.protectAssigned then c.id :: s.reserved else s.reserved }, { r with conn := some c.id })
  | [] =>
    if s.conns.length < cfg.maxConn then
      let n := fresh cfg s.nextId r.origin
      ({ s with conns := s.conns ++ [n], nextId := s.nextId + 1 }, { r with conn := some n.id })
    else match idles with
      | i :: _ =>
        let n := fresh cfg s.nextId r.origin
        ({ s with conns := (s.conns.erase i) ++ [n], closing := s.closing ++ [(i, .room)],
                  nextId := s.nextId + 1 }, { r with conn := some n.id })
      | [] => (s, r)

/-- second loop over all requests (assigned ones are skipped) -/
def assignAll (cfg : Cfg) : State → List Req → List Req → State
  | s, [], done => { s with reqs := done }
  | s, r :: rest, done =>
    match r.conn with
    | some _ => assignAll cfg s rest (done ++ [r])
    | none =>
      let (s', r') := assignOne cfg s r
      assignAll cfg s' rest (done ++ [r'])

/-- `_assign_requests_to_connections` -/
def pass (cfg : Cfg) (s : State) : State :=
  let res := if cfg.protectAssigned then s.reqs.filterMap (·.conn) else []
  let (cur, closing) := cleanup cfg res s.conns s.conns []
  assignAll cfg { s with conns := cur, closing := closing, reserved := res } s.reqs []

end Httpcore.Pool

namespace Httpcore.Pool

/-! ### adversarial version: every status-dependent decision is made by an arbitrary oracle -/

inductive D1 | drop | close | keep
  deriving DecidableEq, Repr

inductive D2
  | reuse (c : Nat)       -- an "available" connection was seen
  | noneAvail (idle : Option Conn)   -- none available; the first idle connection seen, if any
  deriving Repr

def cleanupAdv : List Conn → List D1 → List Conn → List (Conn × Reason) → List Conn × List (Conn × Reason)
  | [], _, cur, closing => (cur, closing)
  | _ :: _, [], cur, closing => (cur, closing)
  | c :: rest, d :: ds, cur, closing =>
    match d with
    | .drop => cleanupAdv rest ds (cur.erase c) closing
    | .close => cleanupAdv rest ds (cur.erase c) (closing ++ [(c, .expired)])
    | .keep => cleanupAdv rest ds cur closing

/-- the pool's own bookkeeping (`len(self._connections) < max`, list removal, append) is not
adversarial: it is done under the pool lock on the pool's own list -/
def assignOneAdv (cfg : Cfg) (s : State) (origin : Nat) : D2 → State
  | .reuse _ => s
  | .noneAvail idle =>
    if s.conns.length < cfg.maxConn then
      { s with conns := s.conns ++ [fresh cfg s.nextId origin], nextId := s.nextId + 1 }
    else match idle with
      | some i =>
        if i ∈ s.conns then
          { s with conns := (s.conns.erase i) ++ [fresh cfg s.nextId origin],
                   closing := s.closing ++ [(i, .room)], nextId := s.nextId + 1 }
        else s
      | none => s

def assignAllAdv (cfg : Cfg) : State → List Nat → List D2 → State
  | s, [], _ => s
  | s, _ :: _, [] => s
  | s, o :: os, d :: ds => assignAllAdv cfg (assignOneAdv cfg s o d) os ds

def passAdv (cfg : Cfg) (s : State) (ds1 : List D1) (origins : List Nat) (ds2 : List D2) : State :=
  let (cur, closing) := cleanupAdv s.conns ds1 s.conns []
  assignAllAdv cfg { s with conns := cur, closing := closing } origins ds2

end Httpcore.Pool
