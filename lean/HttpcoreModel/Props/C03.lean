import HttpcoreModel.Props.C03Parse
import HttpcoreModel.Props.Backend
import HttpcoreModel.Lemmas.Chunked
import HttpcoreModel.Url
/-!
# C03 — Requests are serialised faithfully on the wire (property theorems)
-/
namespace Httpcore.C03
open Httpcore Httpcore.H1 Httpcore.H1W

/-- **C03.reject_writes_nothing** — a request whose head h11 rejects (illegal method, target,
header name or value, missing/duplicate Host, conflicting Content-Length, unsupported
Transfer-Encoding) yields LocalProtocolError and not a single byte is written, whatever the body. -/
theorem reject_writes_nothing (r : Req) (chunks : List Bytes) (h : h11Request r = none) :
    writeRequest r chunks = ([], some .localProtocol) := by
  simp [writeRequest, h]

/-- an accepted head is always written completely and first -/
theorem head_written_first (r : Req) (chunks : List Bytes) (hs : List Header)
    (h : h11Request r = some hs) :
    ∃ body, (writeRequest r chunks).1 = writeHead r.method r.target hs ++ body := by
  simp only [writeRequest, h]
  split
  · exact ⟨_, rfl⟩
  · exact ⟨_, rfl⟩

/-- **C03.host_first** — the header block on the wire is: the Host header line, then every other
header line in the caller's order (duplicates kept), then the blank line. -/
theorem host_first (hs : List Header) :
    writeHeaders hs =
      ((hs.filter isHost).map headerLine).flatten ++
      ((hs.filter (fun h => !isHost h)).map headerLine).flatten ++ crlf := rfl

/-- the non-Host headers keep their relative order and multiplicity (they form a sublist) -/
theorem others_in_order (hs : List Header) :
    (hs.filter (fun h => !isHost h)).Sublist hs ∧
    (hs.filter isHost ++ hs.filter (fun h => !isHost h)).Perm hs := by
  refine ⟨List.filter_sublist, ?_⟩
  induction hs with
  | nil => simp
  | cons h t ih =>
    by_cases hh : isHost h = true
    · simp [hh, ih]
    · simp only [hh, List.filter_cons, Bool.false_eq_true, if_false, Bool.not_false, if_true]
      exact (List.perm_middle).trans (List.Perm.cons h ih)

/-- **C03.cl_body_exact** — with Content-Length framing, for every way the body iterator chunks
the body (empty chunks included), exactly the concatenation of the chunks is written, once and in
order, when the declared length matches. -/
theorem cl_body_exact (chunks : List Bytes) :
    writeCL chunks.flatten.length chunks = (chunks.flatten, none) := by
  induction chunks with
  | nil => simp [writeCL]
  | cons c cs ih =>
    simp only [writeCL, List.flatten_cons, List.length_append]
    have : ¬ (c.length > c.length + cs.flatten.length) := by omega
    simp only [this, if_false, Nat.add_sub_cancel_left, ih]

/-- a body that does not match the declared Content-Length is never written to completion
silently: the writer reports an error -/
theorem cl_mismatch_detected (n : Nat) (chunks : List Bytes) (h : chunks.flatten.length ≠ n) :
    (writeCL n chunks).2 = some .h11Local := by
  induction chunks generalizing n with
  | nil => simp at h; simp [writeCL]; omega
  | cons c cs ih =>
    simp only [writeCL]
    split
    · rfl
    · rename_i hle
      simp only [List.flatten_cons, List.length_append] at h
      exact ih (n - c.length) (by omega)

/-- **C03.chunked_roundtrip** — with chunked framing, for every chunking of the body (empty
chunks included): the bytes written decode — with the chunked decoder of the reader model, an
independent function — to exactly the concatenation of the chunks followed by end-of-message, and
the decoder stops exactly at the end of what was written. -/
theorem chunked_roundtrip (ri : ReqInfo) (chunks : List Bytes) (rest : Bytes)
    (hsz : ∀ c ∈ chunks, (hexLower c.length).length ≤ 20) :
    ∃ evs, (reader ri).drain .chunkSize (writeChunked chunks ++ rest) = (evs, .done, rest) ∧
      (observe evs).body = chunks.flatten ∧ (observe evs).outcome = .complete := by
  obtain ⟨evs, h1, h2⟩ := drain_writeChunked ri chunks rest hsz
  exact ⟨evs, h1, by simp [h2, Obs.body], by simp [h2]⟩

/-- empty chunks of the body iterator write nothing (they would otherwise end a chunked body) -/
theorem empty_chunk_writes_nothing : chunkEnc [] = [] := rfl

/-- **C03.defaults_only_if_missing** — `Host` is supplied iff the caller gave none, and exactly
one of Content-Length (bytes) / Transfer-Encoding: chunked (iterator) iff the caller gave neither;
the caller's headers are never touched (same order, values, duplicates). -/
theorem defaults_only_if_missing (hs : List Url.Header) (u : Url.URL) (c : Url.Content) :
    ∃ pre post, Url.includeRequestHeaders hs u c = pre ++ hs ++ post ∧
      pre = (if Url.hasHeader (ascii "host") hs then [] else [(ascii "Host", Url.hostHeaderValue u)]) ∧
      post = (if Url.hasHeader (ascii "content-length") hs || Url.hasHeader (ascii "transfer-encoding") hs
        then [] else match c with
          | .none => []
          | .bytes n => [(ascii "Content-Length", decimal n)]
          | .iter => [(ascii "Transfer-Encoding", ascii "chunked")]) := by
  refine ⟨_, _, ?_, rfl, rfl⟩
  by_cases h0 : Url.hasHeader (ascii "host") hs = true <;>
  by_cases h1 : Url.hasHeader (ascii "content-length") hs = true <;>
  by_cases h2 : Url.hasHeader (ascii "transfer-encoding") hs = true <;>
  cases c <;> simp [Url.includeRequestHeaders, h0, h1, h2]

/-- **C03.h2_mapping** — over HTTP/2 the request is handed to h2 as `:method`, `:authority` (the
value of the first Host header), `:scheme`, `:path`, followed by the caller's headers with
lower-cased names, without Host and Transfer-Encoding, in the caller's order; `end_stream` is set on
the head iff there is no Content-Length / Transfer-Encoding header. -/
theorem h2_mapping (method scheme target : Bytes) (hs : List Header) (l : List Header) (e : Bool)
    (h : h2Headers method scheme target hs = some (l, e)) :
    ∃ authority rest, l = (ascii ":method", method) :: (ascii ":authority", authority) ::
        (ascii ":scheme", scheme) :: (ascii ":path", target) :: rest ∧
      (hs.filter isHost).head? = some ((hs.filter isHost).head?.map (·.1) |>.getD [], authority) ∧
      rest = (hs.filter (fun h => !(lower h.1 = ascii "host" || lower h.1 = ascii "transfer-encoding"))).map
        (fun h => (lower h.1, h.2)) ∧
      (∀ x ∈ rest, x.1 ≠ ascii "host" ∧ x.1 ≠ ascii "transfer-encoding" ∧ lower x.1 = x.1) ∧
      e = !hasBodyHeaders hs := by
  unfold h2Headers at h
  split at h
  · cases h
  · rename_i n authority tl hf
    simp only [Option.some.injEq, Prod.mk.injEq] at h
    obtain ⟨h1, h2⟩ := h
    refine ⟨authority, _, by rw [← h1]; rfl, by simp [hf], rfl, ?_, h2.symm⟩
    intro x hx
    simp only [List.mem_map, List.mem_filter] at hx
    obtain ⟨y, ⟨_, hy⟩, rfl⟩ := hx
    simp only [Bool.not_eq_true', Bool.or_eq_false_iff, decide_eq_false_iff_not] at hy
    exact ⟨hy.1, hy.2, lower_idem y.1⟩

/-- a request without a Host header cannot be mapped (the implementation raises IndexError; via the
public request API a Host header is always present, see `defaults_only_if_missing`) -/
theorem h2_needs_host (method scheme target : Bytes) (hs : List Header) :
    h2Headers method scheme target hs = none ↔ hs.filter isHost = [] := by
  unfold h2Headers
  split <;> simp_all

/-! ### HTTP/2 heads that cannot legally be encoded -/

/-- Tie A: httpcore leaves h2's validation of outgoing header blocks switched on. -/
theorem h2_validation_on : Gen.h2ValidatesOutbound = true ∧ Gen.h2NormalizesOutbound = true := by decide

/-- **C03.h2_illegal_rejected** — a head whose HTTP/2 form h2 refuses is rejected and nothing is
handed on (so nothing is written), for every method, target and header list. -/
theorem h2_illegal_rejected (method scheme target : Bytes) (hs l : List Header) (e : Bool)
    (h : h2Headers method scheme target hs = some (l, e)) (hr : h2Refuses l = true) :
    h2SendHead Gen.h2ValidatesOutbound method scheme target hs = .rejected := by
  simp [h2SendHead, h, hr, h2_validation_on.1]

/-- and a head it accepts is handed on unchanged -/
theorem h2_legal_handed (method scheme target : Bytes) (hs l : List Header) (e : Bool)
    (h : h2Headers method scheme target hs = some (l, e)) (hr : h2Refuses l = false) :
    h2SendHead Gen.h2ValidatesOutbound method scheme target hs = .handed l e := by
  simp [h2SendHead, h, hr]

private theorem mem_handed (method scheme target : Bytes) (hs l : List Header) (e : Bool)
    (h : h2Headers method scheme target hs = some (l, e)) (x : Header) (hx : x ∈ hs)
    (hn : ¬ (lower x.1 = ascii "host" ∨ lower x.1 = ascii "transfer-encoding")) :
    (lower x.1, x.2) ∈ l := by
  unfold h2Headers at h
  split at h
  · cases h
  · simp only [Option.some.injEq, Prod.mk.injEq] at h
    rw [← h.1]
    apply List.mem_append_right
    simp only [List.mem_map, List.mem_filter]
    exact ⟨x, ⟨hx, by simpa [not_or] using hn⟩, rfl⟩

/-- RFC 7540 §8.1.2.2: a `TE` header (any case) with a value other than `trailers` makes the head illegal -/
theorem h2_refuses_te (method scheme target : Bytes) (hs l : List Header) (e : Bool)
    (h : h2Headers method scheme target hs = some (l, e)) (x : Header) (hx : x ∈ hs)
    (hname : strip (lower x.1) = ascii "te") (hne : lower x.1 ≠ ascii "host" ∧ lower x.1 ≠ ascii "transfer-encoding")
    (hval : lower (strip x.2) ≠ ascii "trailers") : h2Refuses l = true := by
  have hm := mem_handed method scheme target hs l e h x hx (by simp [hne.1, hne.2])
  have : (h2Norm l).any (fun h => h.1 = ascii "te" && lower h.2 != ascii "trailers") = true := by
    simp only [List.any_eq_true, h2Norm, List.mem_map]
    exact ⟨(strip (lower (lower x.1)), strip x.2), ⟨_, hm, rfl⟩, by simp [hname, hval]⟩
  simp [h2Refuses, this]

/-- RFC 7540 §8.1.2.3 / `_check_path_header`: an empty request target makes the head illegal -/
theorem h2_refuses_empty_path (method scheme : Bytes) (hs l : List Header) (e : Bool)
    (h : h2Headers method scheme [] hs = some (l, e)) : h2Refuses l = true := by
  have hm : (ascii ":path", ([] : Bytes)) ∈ l := by
    unfold h2Headers at h
    split at h
    · cases h
    · simp only [Option.some.injEq, Prod.mk.injEq] at h
      rw [← h.1]; simp
  have : (h2Norm l).any (fun h => h.1 = ascii ":path" && h.2 = []) = true := by
    simp only [List.any_eq_true, h2Norm, List.mem_map]
    exact ⟨(strip (lower (ascii ":path")), strip []), ⟨_, hm, rfl⟩, by decide⟩
  simp [h2Refuses, this]

/-- RFC 7540 §8.1.2.1: a caller's header whose name starts with `:` and is not one of the defined
pseudo-header fields makes the head illegal -/
theorem h2_refuses_custom_pseudo (method scheme target : Bytes) (hs l : List Header) (e : Bool)
    (h : h2Headers method scheme target hs = some (l, e)) (x : Header) (hx : x ∈ hs)
    (hp : isPseudo (strip (lower x.1)) = true) (hnot : allowedPseudo.contains (strip (lower x.1)) = false)
    (hne : lower x.1 ≠ ascii "host" ∧ lower x.1 ≠ ascii "transfer-encoding") : h2Refuses l = true := by
  have hm := mem_handed method scheme target hs l e h x hx (by simp [hne.1, hne.2])
  have : (((h2Norm l).filter (fun h => isPseudo h.1)).map (·.1)).any (fun n => !allowedPseudo.contains n) = true := by
    simp only [List.any_eq_true, List.mem_map, List.mem_filter, h2Norm]
    refine ⟨strip (lower x.1), ⟨(strip (lower x.1), strip x.2), ⟨⟨_, hm, by simp⟩, hp⟩, rfl⟩, ?_⟩
    show (!allowedPseudo.contains (strip (lower x.1))) = true
    rw [hnot]; rfl
  simp only [h2Refuses, this, Bool.or_true, Bool.true_or]

/-! non-vacuity: each rule fires on a concrete head, and an ordinary head is accepted -/
example : h2SendHead true (ascii "GET") (ascii "https") (ascii "/") [(ascii "Host", ascii "h"), (ascii "TE", ascii "gzip")] = .rejected := by decide
example : h2SendHead true (ascii "GET") (ascii "https") [] [(ascii "Host", ascii "h")] = .rejected := by decide
example : h2SendHead true (ascii "GET") (ascii "https") (ascii "/") [(ascii "Host", ascii "h"), (ascii ":foo", ascii "1")] = .rejected := by decide
example : h2SendHead true (ascii "CONNECT") (ascii "https") (ascii "/") [(ascii "Host", ascii "h")] = .rejected := by decide
example : h2SendHead true (ascii "GET") (ascii "https") (ascii "/") [(ascii "Host", ascii "h"), (ascii "Te", ascii " Trailers ")] =
    .handed [(ascii ":method", ascii "GET"), (ascii ":authority", ascii "h"), (ascii ":scheme", ascii "https"), (ascii ":path", ascii "/"),
             (ascii "te", ascii " Trailers ")] true := by decide
/-- with validation switched off the same illegal head would be handed on: the theorem depends on the regenerated constant -/
example : h2SendHead false (ascii "GET") (ascii "https") (ascii "/") [(ascii "Host", ascii "h"), (ascii "TE", ascii "gzip")] ≠ .rejected := by decide

/-! non-vacuity -/
example : writeRequest ⟨ascii "POST", ascii "/x", [(ascii "Host", ascii "h"), (ascii "Transfer-Encoding", ascii "Chunked")]⟩
    [ascii "ab", [], ascii "c"] =
    (ascii "POST /x HTTP/1.1\r\nHost: h\r\nTransfer-Encoding: chunked\r\n\r\n2\r\nab\r\n1\r\nc\r\n0\r\n\r\n", none) := by
  decide
example : h11Request ⟨ascii "GE T", ascii "/", [(ascii "Host", ascii "h")]⟩ = none := by decide

end Httpcore.C03
