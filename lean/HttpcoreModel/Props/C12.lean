import HttpcoreModel.Props.Life
import HttpcoreModel.H2
/-!
# C12 — HTTP/2 streams are isolated, bounded and cannot wedge each other
-/
namespace Httpcore.C12
open Httpcore Httpcore.H2

/-! ## the stream-slot semaphore -/

/-- the accounting invariant of `_max_streams_semaphore` / `_max_streams` / `_max_streams_debt` -/
structure SlotInv (s : Slots) : Prop where
  account : s.sem + s.held = s.maxS + s.debt
  pos : 1 ≤ s.maxS
  cap : s.maxS ≤ localCap

theorem init_inv : SlotInv Slots.init := by
  constructor <;> simp [Slots.init, localCap, Gen.h2InitialMaxStreams, Gen.h2LocalMaxStreams]

theorem settings_inv (s : Slots) (n : Nat) (h : SlotInv s) : SlotInv (s.settings n) := by
  obtain ⟨h1, h2, h3⟩ := h
  unfold Slots.settings
  simp only []
  split
  · exact ⟨h1, h2, h3⟩
  · rename_i hc
    have hn0 : min n localCap ≠ 0 := (not_or.mp hc).1
    have hcap : min n localCap ≤ localCap := Nat.min_le_right _ _
    split
    · constructor <;> simp only [] <;> omega
    · constructor <;> simp only [] <;> omega

theorem open_inv (s : Slots) (h : SlotInv s) : SlotInv s.openStream.1 := by
  obtain ⟨h1, h2, h3⟩ := h
  unfold Slots.openStream
  simp only []
  split
  · constructor <;> simp only [] <;> omega
  · constructor <;> simp only [] <;> omega

theorem close_inv (s : Slots) (h : SlotInv s) : SlotInv s.closeStream := by
  obtain ⟨h1, h2, h3⟩ := h
  unfold Slots.closeStream
  split
  · exact ⟨h1, h2, h3⟩
  · split
    · constructor <;> simp only [] <;> omega
    · constructor <;> simp only [] <;> omega

theorem step_inv (s : Slots) (op : SlotOp) (h : SlotInv s) : SlotInv (s.step op) := by
  cases op with
  | settings n => exact settings_inv s n h
  | open_ => exact open_inv s h
  | close => exact close_inv s h

/-- **C12.slot_accounting** — for every sequence of SETTINGS changes (up and down, also below the number of streams in
flight), stream openings and stream ends: free permits + open streams = the limit in force + the permits still to be
withheld, and the limit in force is between 1 and the local cap (100). -/
theorem slot_accounting (ops : List SlotOp) : SlotInv (ops.foldl Slots.step Slots.init) := by
  suffices h : ∀ s, SlotInv s → SlotInv (ops.foldl Slots.step s) from h _ init_inv
  induction ops with
  | nil => intro s h; simpa using h
  | cons op ops ih => intro s h; simpa using ih _ (step_inv s op h)

/-- **C12.open_within_limit** — a stream is opened only while, counting it, no more streams are open than the limit the
server advertised last (capped at 100; 1 until the first SETTINGS): after a lowered limit no new stream opens until enough
of the old ones have ended. -/
theorem open_success (s : Slots) (h : SlotInv s) (ho : s.openStream.2 = true) :
    s.openStream.1.held ≤ s.maxS ∧ s.openStream.1.debt = 0 := by
  obtain ⟨h1, h2, h3⟩ := h
  by_cases hc : s.sem - min s.sem s.debt > 0
  · simp only [Slots.openStream, hc, if_true]
    omega
  · simp [Slots.openStream, hc] at ho

theorem open_within_limit (ops : List SlotOp) (ho : (ops.foldl Slots.step Slots.init).openStream.2 = true) :
    (ops.foldl Slots.step Slots.init).openStream.1.held ≤ (ops.foldl Slots.step Slots.init).maxS ∧
    (ops.foldl Slots.step Slots.init).openStream.1.held ≤ localCap := by
  have h := slot_accounting ops
  have := open_success _ h ho
  have := h.cap
  omega

/-- the limit in force after a SETTINGS frame is `min(server value, 100)`, at once - also when it is lowered; 0 is ignored -/
theorem settings_limit (s : Slots) (n : Nat) (hn : min n localCap ≠ 0) : (s.settings n).maxS = min n localCap := by
  unfold Slots.settings
  simp only []
  split
  · rename_i hc; rcases hc with h0 | he
    · exact absurd h0 hn
    · exact he.symm
  · split <;> rfl

/-- "one until its SETTINGS arrive" -/
theorem one_before_settings (k : Nat) :
    ((List.replicate k SlotOp.open_).foldl Slots.step Slots.init).held ≤ 1 := by
  have h := slot_accounting (List.replicate k SlotOp.open_)
  have hm : ∀ (k : Nat) (s : Slots), s.maxS = 1 → s.debt = 0 →
      ((List.replicate k SlotOp.open_).foldl Slots.step s).maxS = 1 ∧ ((List.replicate k SlotOp.open_).foldl Slots.step s).debt = 0 := by
    intro k
    induction k with
    | zero => intro s hs hd; exact ⟨by simpa using hs, by simpa using hd⟩
    | succ k ih =>
      intro s hs hd
      simp only [List.replicate_succ, List.foldl_cons]
      apply ih
      · simp only [Slots.step, Slots.openStream]; split <;> simpa using hs
      · simp only [Slots.step, Slots.openStream]; split <;> simp [hd]
  have := hm k Slots.init (by simp [Slots.init, Gen.h2InitialMaxStreams]) (by simp [Slots.init])
  have := h.account
  omega

/-- the debt is paid off by exactly as many stream ends / withheld permits: it never grows except by a lowered limit -/
theorem debt_only_from_lowering (s : Slots) (op : SlotOp) (h : (s.step op).debt > s.debt) :
    ∃ n, op = .settings n ∧ min n localCap < s.maxS := by
  cases op with
  | settings n =>
    refine ⟨n, rfl, ?_⟩
    simp only [Slots.step, Slots.settings] at h
    split at h
    · omega
    · split at h
      · simp only [] at h; omega
      · omega
  | open_ => simp only [Slots.step, Slots.openStream] at h; split at h <;> dsimp only at h <;> omega
  | close => simp only [Slots.step, Slots.closeStream] at h; split at h <;> (try split at h) <;> (try dsimp only at h) <;> omega

/-! ## progress: the reader, its lock and the semaphore -/

/-- open streams are split into those that still need the shared reader (`waiting`) and those whose remaining
events are already queued (`ready`) -/
structure PState where
  slots : Slots
  waiting : Nat
  ready : Nat
  deriving DecidableEq, Repr

inductive PAct
  | settings (n : Nat)     -- the reader processes a SETTINGS frame (it never waits for the semaphore)
  | open_                  -- a request runs its acquire loop
  | deliver                -- the reader queues the rest of one stream's events
  | finish                 -- a stream with queued events ends and releases / withholds its slot
  deriving Repr

def pstep (p : PState) : PAct → Option PState
  | .settings n => some { p with slots := p.slots.settings n }
  | .open_ => let r := p.slots.openStream
              some { p with slots := r.1, waiting := if r.2 then p.waiting + 1 else p.waiting }
  | .deliver => if p.waiting = 0 then none else some { p with waiting := p.waiting - 1, ready := p.ready + 1 }
  | .finish => if p.ready = 0 then none else some { p with ready := p.ready - 1, slots := p.slots.closeStream }

def PState.init : PState := { slots := Slots.init, waiting := 0, ready := 0 }

/-- **C12.no_wedge** — whatever SETTINGS the server has sent, as long as some stream is open one of them can make progress:
the reader is never parked inside the semaphore, so it can always deliver to a waiting stream, and a stream whose events
are queued can always finish. -/
theorem no_wedge (p : PState) (hopen : 0 < p.waiting + p.ready) :
    (pstep p .deliver).isSome ∨ (pstep p .finish).isSome := by
  by_cases hr : p.ready = 0
  · left
    have : p.waiting ≠ 0 := by omega
    simp [pstep, this]
  · right; simp [pstep, hr]

/-- a SETTINGS frame is always processed: nothing about the slots can hold the reader up -/
theorem settings_never_blocks (p : PState) (n : Nat) : (pstep p (.settings n)).isSome := by simp [pstep]

/-- once the open streams have ended, a waiting request gets its slot: no permit is lost to the debt -/
theorem slot_available_when_idle (s : Slots) (h : SlotInv s) (hidle : s.held = 0) : s.openStream.2 = true := by
  obtain ⟨h1, h2, h3⟩ := h
  unfold Slots.openStream
  simp only []
  split
  · rfl
  · rename_i hc; omega

/-! #### the 1.0.7 behaviour -/

structure PState107 where
  slots : Slots107
  waiting : Nat
  ready : Nat
  deriving DecidableEq, Repr

def pstep107 (p : PState107) : PAct → Option PState107
  | .settings n => if p.slots.readerBlocked then none else some { p with slots := p.slots.settings n }
  | .open_ => (p.slots.openStream).map fun s => { p with slots := s, waiting := p.waiting + 1 }
  | .deliver => if p.slots.readerBlocked ∨ p.waiting = 0 then none
                else some { p with waiting := p.waiting - 1, ready := p.ready + 1 }
  | .finish => if p.ready = 0 then none else some { p with ready := p.ready - 1, slots := p.slots.closeStream }

def prun107 (p : PState107) : List PAct → Option PState107
  | [] => some p
  | a :: rest => (pstep107 p a).bind fun p' => prun107 p' rest

/-- **finding F-C12-a (1.0.7; repaired)** — the server raises the limit to 3, three requests are in flight waiting for their
responses, the server lowers the limit to 1: the reader blocks in the semaphore holding the read lock, and no action is
possible any more. -/
theorem wedge_reachable_107 :
    ∃ p, prun107 { slots := { sem := 1, held := 0, maxS := 1, want := 1 }, waiting := 0, ready := 0 }
        [.settings 3, .open_, .open_, .open_, .settings 1] = some p ∧
      p.waiting = 3 ∧ ∀ a, pstep107 p a = none := by
  refine ⟨{ slots := { sem := 0, held := 3, maxS := 3, want := 1 }, waiting := 3, ready := 0 }, by decide, rfl, ?_⟩
  intro a
  cases a <;> simp [pstep107, Slots107.readerBlocked, Slots107.openStream]

/-- the same history with the repaired bookkeeping: the limit drops at once, two permits are owed, and the streams go on -/
example : ([SlotOp.settings 3, .open_, .open_, .open_, .settings 1].foldl Slots.step Slots.init) =
    { sem := 0, held := 3, maxS := 1, debt := 2 } := by decide

/-! ## demultiplexing -/

theorem routeAll_eq {α} (reg : List Nat) (evs : List (Nat × α)) (q : Nat → List α) (s : Nat) :
    routeAll reg q evs s = q s ++ (evs.filter (fun e => decide (e.1 = s ∧ e.1 ∈ reg))).map (·.2) := by
  induction evs generalizing q with
  | nil => simp [routeAll]
  | cons e evs ih =>
    obtain ⟨sid, ev⟩ := e
    simp only [routeAll, ih, route]
    by_cases h : s = sid ∧ sid ∈ reg
    · obtain ⟨rfl, hm⟩ := h
      simp [hm]
    · have h' : ¬ (sid = s ∧ sid ∈ reg) := fun ⟨a, b⟩ => h ⟨a.symm, b⟩
      simp [h, h']

/-- **C12.own_stream_only** — whatever the interleaving of the server's frames, the queue of stream `s` receives
exactly the events carrying stream id `s`, in their order of arrival, and only if `s` is registered; the events of
other streams have no influence on it. -/
theorem own_stream_only {α} (reg : List Nat) (evs : List (Nat × α)) (s : Nat) :
    routeAll reg (fun _ => []) evs s =
      if s ∈ reg then (evs.filter (fun e => e.1 = s)).map (·.2) else [] := by
  rw [routeAll_eq]
  by_cases hs : s ∈ reg
  · simp only [hs, if_true, List.nil_append]
    congr 1
    apply List.filter_congr
    intro e _
    by_cases he : e.1 = s
    · simp [he, hs]
    · simp [he]
  · simp only [hs, if_false, List.nil_append]
    have : evs.filter (fun e => decide (e.1 = s ∧ e.1 ∈ reg)) = [] := by
      apply List.filter_eq_nil_iff.mpr
      intro e _
      simp only [decide_eq_true_eq, not_and]
      intro he; rw [he]; exact hs
    rw [this]; rfl

/-- two interleavings with the same per-stream sub-sequence deliver the same to that stream -/
theorem interleaving_independent {α} (reg : List Nat) (e1 e2 : List (Nat × α)) (s : Nat)
    (h : e1.filter (fun e => e.1 = s) = e2.filter (fun e => e.1 = s)) :
    routeAll reg (fun _ => []) e1 s = routeAll reg (fun _ => []) e2 s := by
  simp only [own_stream_only, h]

/-- the request takes its slot before a stream id is reserved (regenerated from the source): a request waiting
for a slot holds no stream id, so ids reach the server in increasing order -/
theorem slot_before_stream_id : Gen.slotBeforeStreamId = true := by decide

theorem settings_change_modelled : Gen.settingsChangeShapeKnown = true := by decide

/-! non-vacuity -/
example : ([SlotOp.settings 3, .open_, .open_, .close, .settings 200, .open_].foldl Slots.step Slots.init) =
    { sem := 98, held := 2, maxS := 100, debt := 0 } := by decide
example : routeAll [1, 3] (fun _ => []) [(1, 10), (3, 30), (5, 50), (1, 11)] 1 = [10, 11] := by decide

/-! ## acknowledgements leave with whoever read the frame -/

/-- what one call of `_receive_events` does to h2's outbound buffer: the read may make h2 queue `q` bytes (the acknowledgement of a PING
or of SETTINGS, a window update); then the flush the source has - or has not - at the end of the function -/
def afterReceiveEvents (buffered q : Nat) : Nat :=
  if Gen.receiveEventsAlwaysFlushes then 0 else buffered + q

/-- **acks_leave_with_the_reader** - Tie A (regenerated): `_receive_events` ends with an unconditional `_write_outgoing_data`, so after
every call, whichever stream's caller made it and whatever the read delivered, nothing h2 queued in answer to the peer is left in its
buffer: a server that waits for an acknowledgement before it sends more cannot be starved by a reader whose own stream needs no write. -/
theorem acks_leave_with_the_reader (b : Nat) (qs : List Nat) (h : qs ≠ []) :
    qs.foldl afterReceiveEvents b = 0 := by
  have hf : Gen.receiveEventsAlwaysFlushes = true := by decide
  induction qs generalizing b with
  | nil => exact absurd rfl h
  | cons q rest ih =>
    cases rest with
    | nil => simp [afterReceiveEvents, hf]
    | cons r rest' => simpa [List.foldl_cons] using ih (afterReceiveEvents b q) (by simp)

example : [8, 0, 17].foldl afterReceiveEvents 5 = 0 := by decide


end Httpcore.C12
