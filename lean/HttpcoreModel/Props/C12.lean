import HttpcoreModel.H2
/-!
# C12 — HTTP/2 streams are isolated, bounded and cannot wedge each other
-/
namespace Httpcore.C12
open Httpcore Httpcore.H2

/-! ## the stream-slot semaphore -/

/-- the accounting invariant of `_max_streams_semaphore` / `_max_streams` -/
structure SlotInv (s : Slots) : Prop where
  account : s.sem + s.held = s.maxS
  want_le : s.want ≤ s.maxS
  want_pos : 1 ≤ s.want
  cap : s.maxS ≤ localCap

theorem init_inv : SlotInv Slots.init := by
  constructor <;> simp [Slots.init, localCap, Gen.h2InitialMaxStreams, Gen.h2LocalMaxStreams]

theorem settings_inv (s : Slots) (n : Nat) (h : SlotInv s) : SlotInv (s.settings n) := by
  obtain ⟨h1, h2, h3, h4⟩ := h
  unfold Slots.settings
  simp only []
  split
  · exact ⟨h1, h2, h3, h4⟩
  · rename_i hc
    have hw : s.want = s.maxS := Decidable.not_not.mp (not_or.mp hc).2
    have hn0 : min n localCap ≠ 0 := (not_or.mp hc).1
    have hcap : min n localCap ≤ localCap := Nat.min_le_right _ _
    split
    · constructor <;> simp only [] <;> omega
    · constructor <;> simp only [] <;> omega

theorem open_inv (s s' : Slots) (h : SlotInv s) (ho : s.openStream = some s') : SlotInv s' := by
  obtain ⟨h1, h2, h3, h4⟩ := h
  unfold Slots.openStream at ho
  split at ho
  · cases ho; constructor <;> simp <;> omega
  · cases ho

theorem close_inv (s : Slots) (h : SlotInv s) : SlotInv s.closeStream := by
  obtain ⟨h1, h2, h3, h4⟩ := h
  unfold Slots.closeStream
  split
  · exact ⟨h1, h2, h3, h4⟩
  · split
    · constructor <;> simp <;> omega
    · constructor <;> simp <;> omega

theorem step_inv (s : Slots) (op : SlotOp) (h : SlotInv s) : SlotInv (s.step op) := by
  cases op with
  | settings n => exact settings_inv s n h
  | open_ =>
    simp only [Slots.step]
    cases ho : s.openStream with
    | none => simpa using h
    | some s' => simpa using open_inv s s' h ho
  | close => exact close_inv s h

/-- **C12.slot_accounting** — for every sequence of SETTINGS changes, stream openings and stream ends:
free permits + open streams = the current limit, which is at most the local cap (100). -/
theorem slot_accounting (ops : List SlotOp) : SlotInv (ops.foldl Slots.step Slots.init) := by
  suffices h : ∀ s, SlotInv s → SlotInv (ops.foldl Slots.step s) from h _ init_inv
  induction ops with
  | nil => intro s h; simpa using h
  | cons op ops ih => intro s h; simpa using ih _ (step_inv s op h)

/-- **C12.open_within_limit** — a stream is opened only while fewer streams are open than the limit the
server advertised last (`want`, capped at 100; 1 until the first SETTINGS), and never while the limit is being lowered. -/
theorem open_within_limit (ops : List SlotOp) (s' : Slots)
    (ho : (ops.foldl Slots.step Slots.init).openStream = some s') :
    s'.held ≤ (ops.foldl Slots.step Slots.init).want ∧ s'.held ≤ localCap ∧
    (ops.foldl Slots.step Slots.init).readerBlocked = false := by
  have h := slot_accounting ops
  obtain ⟨h1, h2, h3, h4⟩ := h
  unfold Slots.openStream at ho
  split at ho
  · rename_i hc
    cases ho
    simp [Slots.readerBlocked]
    omega
  · cases ho

/-- the limit applied after a SETTINGS frame is `min(server value, 100)`; a value of 0 is ignored -/
theorem settings_limit (s : Slots) (n : Nat) (hidle : s.want = s.maxS) (hn : min n localCap ≠ 0) :
    (s.settings n).want = min n localCap := by
  unfold Slots.settings
  simp only []
  split
  · rename_i hc; rcases hc with h0 | hne
    · exact absurd h0 hn
    · exact absurd hidle hne
  · split <;> rfl

/-- "one until its SETTINGS arrive" -/
theorem one_before_settings (k : Nat) :
    ((List.replicate k SlotOp.open_).foldl Slots.step Slots.init).held ≤ 1 := by
  have h := slot_accounting (List.replicate k SlotOp.open_)
  have hm : ∀ (k : Nat) (s : Slots), s.maxS = 1 → ((List.replicate k SlotOp.open_).foldl Slots.step s).maxS = 1 := by
    intro k
    induction k with
    | zero => intro s hs; simpa using hs
    | succ k ih =>
      intro s hs
      simp only [List.replicate_succ, List.foldl_cons]
      apply ih
      simp only [Slots.step, Slots.openStream]
      split <;> simpa using hs
  have := hm k Slots.init (by simp [Slots.init, Gen.h2InitialMaxStreams])
  have := h.account
  omega

/-! ## progress: the reader, its lock and the semaphore -/

/-- open streams are split into those that still need the shared reader (`waiting`) and those whose remaining
events are already queued (`ready`) -/
structure PState where
  slots : Slots
  waiting : Nat
  ready : Nat
  deriving DecidableEq, Repr

inductive PAct
  | settings (n : Nat)     -- the reader (holding the read lock) processes a SETTINGS frame
  | open_                  -- a request takes a slot
  | deliver                -- the reader queues the rest of one stream's events
  | finish                 -- a stream with queued events ends and releases its slot
  deriving Repr

/-- what can happen: anything that needs the reader is impossible while the reader is blocked inside the
semaphore (it holds the read lock: `_receive_events` → `_receive_remote_settings_change` → `acquire`) -/
def pstep (p : PState) : PAct → Option PState
  | .settings n => if p.slots.readerBlocked then none else some { p with slots := p.slots.settings n }
  | .open_ => (p.slots.openStream).map fun s => { p with slots := s, waiting := p.waiting + 1 }
  | .deliver => if p.slots.readerBlocked ∨ p.waiting = 0 then none
                else some { p with waiting := p.waiting - 1, ready := p.ready + 1 }
  | .finish => if p.ready = 0 then none else some { p with ready := p.ready - 1, slots := p.slots.closeStream }

def prun (p : PState) : List PAct → Option PState
  | [] => some p
  | a :: rest => (pstep p a).bind fun p' => prun p' rest

def PState.init : PState := { slots := Slots.init, waiting := 0, ready := 0 }

/-- **C12.no_wedge_partial** — as long as the reader is not blocked in the semaphore, some stream can always make
progress. (The full statement - for every timing of SETTINGS changes - is false, see `wedge_reachable`.) -/
theorem no_wedge_partial (p : PState) (hb : p.slots.readerBlocked = false) (hopen : 0 < p.waiting + p.ready) :
    (pstep p .deliver).isSome ∨ (pstep p .finish).isSome := by
  by_cases hr : p.ready = 0
  · left
    have : p.waiting ≠ 0 := by omega
    simp [pstep, hb, this]
  · right; simp [pstep, hr]

/-- a SETTINGS frame that does not lower the limit below the number of streams in flight never blocks the reader -/
theorem settings_not_below_inflight (s : Slots) (n : Nat) (h : SlotInv s) (hidle : s.readerBlocked = false)
    (hge : s.held ≤ min n localCap) : (s.settings n).readerBlocked = false := by
  obtain ⟨h1, h2, h3, h4⟩ := h
  simp only [Slots.readerBlocked, decide_eq_false_iff_not, Nat.not_lt] at hidle ⊢
  unfold Slots.settings
  simp only []
  split
  · exact hidle
  · split
    · simp
    · simp; omega

/-- **finding F-C12-a (proved of the model, replayed on the implementation)** — the server raises the limit to 3,
three requests are in flight waiting for their responses, the server lowers the limit to 1: the reader blocks in
the semaphore holding the read lock, and no action is possible any more. -/
theorem wedge_reachable :
    ∃ p, prun PState.init [.settings 3, .open_, .open_, .open_, .settings 1] = some p ∧
      p.waiting = 3 ∧ ∀ a, pstep p a = none := by
  refine ⟨{ slots := { sem := 0, held := 3, maxS := 3, want := 1 }, waiting := 3, ready := 0 }, by decide, rfl, ?_⟩
  intro a
  cases a <;> simp [pstep, Slots.readerBlocked, Slots.openStream]

/-! ## demultiplexing -/

theorem routeAll_eq {α} (reg : List Nat) (evs : List (Nat × α)) (q : Nat → List α) (s : Nat) :
    routeAll reg q evs s = q s ++ (evs.filter (fun e => decide (e.1 = s ∧ e.1 ∈ reg))).map (·.2) := by
  induction evs generalizing q with
  | nil => simp [routeAll]
  | cons e evs ih =>
    obtain ⟨sid, ev⟩ := e
    simp only [routeAll, ih, route]
    by_cases h : s = sid ∧ sid ∈ reg
    · obtain ⟨rfl, hm⟩ := h
      simp [hm]
    · have h' : ¬ (sid = s ∧ sid ∈ reg) := fun ⟨a, b⟩ => h ⟨a.symm, b⟩
      simp [h, h']

/-- **C12.own_stream_only** — whatever the interleaving of the server's frames, the queue of stream `s` receives
exactly the events carrying stream id `s`, in their order of arrival, and only if `s` is registered; the events of
other streams have no influence on it. -/
theorem own_stream_only {α} (reg : List Nat) (evs : List (Nat × α)) (s : Nat) :
    routeAll reg (fun _ => []) evs s =
      if s ∈ reg then (evs.filter (fun e => e.1 = s)).map (·.2) else [] := by
  rw [routeAll_eq]
  by_cases hs : s ∈ reg
  · simp only [hs, if_true, List.nil_append]
    congr 1
    apply List.filter_congr
    intro e _
    by_cases he : e.1 = s
    · simp [he, hs]
    · simp [he]
  · simp only [hs, if_false, List.nil_append]
    have : evs.filter (fun e => decide (e.1 = s ∧ e.1 ∈ reg)) = [] := by
      apply List.filter_eq_nil_iff.mpr
      intro e _
      simp only [decide_eq_true_eq, not_and]
      intro he; rw [he]; exact hs
    rw [this]; rfl

/-- two interleavings with the same per-stream sub-sequence deliver the same to that stream -/
theorem interleaving_independent {α} (reg : List Nat) (e1 e2 : List (Nat × α)) (s : Nat)
    (h : e1.filter (fun e => e.1 = s) = e2.filter (fun e => e.1 = s)) :
    routeAll reg (fun _ => []) e1 s = routeAll reg (fun _ => []) e2 s := by
  simp only [own_stream_only, h]

/-- the request takes its slot before a stream id is reserved (regenerated from the source): a request waiting
for a slot holds no stream id, so ids reach the server in increasing order -/
theorem slot_before_stream_id : Gen.slotBeforeStreamId = true := by decide

theorem settings_change_modelled : Gen.settingsChangeShapeKnown = true := by decide

/-! non-vacuity -/
example : ([SlotOp.settings 3, .open_, .open_, .close, .settings 200, .open_].foldl Slots.step Slots.init) =
    { sem := 98, held := 2, maxS := 100, want := 100 } := by decide
example : routeAll [1, 3] (fun _ => []) [(1, 10), (3, 30), (5, 50), (1, 11)] 1 = [10, 11] := by decide

end Httpcore.C12
