import HttpcoreModel.ExcSurface
import HttpcoreModel.H1Obs
/-!
# C15 — Only documented exception types reach the caller
-/
namespace Httpcore.C15
open Httpcore Httpcore.Surf

/-- **C15.backend_maps_documented** — every class that a back end's exception maps can produce
(sync, anyio, trio; every method) is a documented httpcore exception. Decided over the maps
regenerated from the source. -/
theorem backend_maps_documented :
    Gen.backendExcMaps.all (fun row => row.2.2.2.all (fun kv => documented kv.2)) = true := by decide

def classesFor (method : String) : List Exc :=
  if method = "read" then [.ReadTimeout, .ReadError]
  else if method = "write" then [.WriteTimeout, .WriteError]
  else [.ConnectTimeout, .ConnectError]

def isTimeout (e : Exc) : Bool := e = .ReadTimeout || e = .WriteTimeout || e = .ConnectTimeout

/-- **C15.backend_maps_match_operation** — in every back end a failed or timed-out connect / TLS
start maps to ConnectError / ConnectTimeout, a read to ReadError / ReadTimeout, a write to
WriteError / WriteTimeout; and every map has an entry for time-outs and one for errors. -/
theorem backend_maps_match_operation :
    Gen.backendExcMaps.all (fun row =>
      row.2.2.2.all (fun kv => (classesFor row.2.2.1).contains kv.2) &&
      row.2.2.2.any (fun kv => isTimeout kv.2) && row.2.2.2.any (fun kv => !isTimeout kv.2)) = true := by decide

/-- every `map_exceptions` site converts a protocol library's exception into the documented class
of the matching direction: remote violations to RemoteProtocolError, local ones to LocalProtocolError,
deadline of the pool wait to PoolTimeout -/
theorem map_sites_direction :
    Gen.mapSites.all (fun s =>
      documented s.2.2.2 &&
      (if s.2.2.1 = "h11.RemoteProtocolError" || s.2.2.1 = "h2.exceptions.ProtocolError" || s.2.2.1 = "socksio.ProtocolError"
       then s.2.2.2 = .RemoteProtocolError
       else if s.2.2.1 = "h11.LocalProtocolError" then s.2.2.2 = .LocalProtocolError
       else s.2.2.2 = .PoolTimeout)) = true := by decide

theorem backendClasses_documented (s : Stage) : ∀ e ∈ backendClasses s, documented e = true := by
  cases s <;> decide

/-- **C15.documented_only** — for every stage and every cause, the class that reaches the caller
is a documented httpcore exception. -/
theorem documented_only (s : Stage) (c : Cause) (e : Exc) (h : surface s c = some e) : documented e = true := by
  cases c with
  | backend b =>
    have hb : e = b ∧ b ∈ backendClasses s := by
      cases s <;> cases b <;> simp [surface, backendClasses] at h ⊢ <;> first | exact h | (subst h; simp)
    rw [hb.1]
    exact backendClasses_documented s b hb.2
  | _ => cases s <;> simp [surface] at h <;> subst h <;> rfl

/-- **C15.class_matches_cause** — malformed or prematurely ended peer data gives
RemoteProtocolError; an invalid request from the caller gives LocalProtocolError; a proxy's refusal
ProxyError; a pool deadline PoolTimeout; an unsupported scheme UnsupportedProtocol; a failed or
timed-out back-end operation the very class the back end raised. -/
theorem class_matches_cause (s : Stage) (c : Cause) (e : Exc) (h : surface s c = some e) :
    match c with
    | .backend b => e = b
    | .peerMalformed => e = .RemoteProtocolError
    | .peerClosed => e = .RemoteProtocolError
    | .callerInvalid => e = .LocalProtocolError
    | .proxyRefused => e = .ProxyError
    | .poolDeadline => e = .PoolTimeout
    | .unsupportedScheme => e = .UnsupportedProtocol := by
  cases c with
  | backend b =>
    cases s <;> cases b <;> simp [surface, backendClasses] at h ⊢ <;> first | exact h.symm | exact h | (subst h; rfl)
  | _ => cases s <;> simp [surface] at h <;> subst h <;> rfl

/-- the table is not vacuous: every receive stage handles malformed and closed peers, every send
stage an invalid request -/
theorem surface_total :
    (∀ s ∈ [Stage.h1RecvHead, .h1RecvBody, .h2RecvHead, .h2RecvBody, .proxyConnect, .socksNegotiation],
      surface s .peerMalformed ≠ none ∧ surface s .peerClosed ≠ none) ∧
    (∀ s ∈ [Stage.h1Send, .h2Send], surface s .callerInvalid ≠ none) := by decide

/-- **C15.terminates_on_eof** — in the reader model a call never stays pending once its input has
ended: after end of file the outcome is decided (complete or an error), for every byte stream and
every segmentation. (`readAll` is a total function: its evaluation itself always terminates.) -/
theorem terminates_on_eof (ri : H1.ReqInfo) (segs : List Bytes) :
    (H1.readAll ri segs).1.outcome ≠ .pending := by
  simp only [H1.readAll, H1.atEof]
  split
  · split <;> simp
  · rename_i h; exact h

end Httpcore.C15
