import HttpcoreModel.H2
/-!
# C13 — several uploads sharing one connection window
Each stream runs the send loop of `H2.sendData`; here their steps interleave arbitrarily with each other and with the
server's updates. One step of stream `i` is exactly one iteration of `_send_stream_data`: wait if the usable window is not
positive, otherwise send `min(len, min(stream window, connection window, max frame))` bytes.
-/
namespace Httpcore.C13
open Httpcore Httpcore.H2

structure Up where
  win : Int                 -- stream window
  sent : List Nat           -- payload bytes handed to h2 so far, in order
  todo : List Nat           -- not yet sent
  deriving Repr

structure MState where
  connWin : Int
  maxFrame : Nat
  ups : List Up
  credit : Nat              -- ghost: sum of connection-level WINDOW_UPDATE increments received
  deriving Repr

inductive MStep
  | send (i : Nat)                          -- stream i performs one iteration of its send loop
  | connUpdate (n : Nat)
  | streamUpdate (i : Nat) (n : Nat)
  | initialWindowDelta (d : Int)            -- SETTINGS_INITIAL_WINDOW_SIZE: every stream window changes by d
  | maxFrame (n : Nat)
  deriving Repr

def usable (s : MState) (u : Up) : Int := min (min u.win s.connWin) s.maxFrame

def sendStep (s : MState) (u : Up) : Up × Nat :=
  if Gen.flowWaits (usable s u) then (u, 0)
  else
    let n := min u.todo.length (usable s u).toNat
    ({ win := u.win - n, sent := u.sent ++ u.todo.take n, todo := u.todo.drop n }, n)

def setAt {α} (l : List α) (i : Nat) (v : α) : List α := l.set i v

def mstep (s : MState) : MStep → MState
  | .send i =>
    match s.ups[i]? with
    | none => s
    | some u =>
      let r := sendStep s u
      { s with ups := setAt s.ups i r.1, connWin := s.connWin - r.2 }
  | .connUpdate n => { s with connWin := s.connWin + n, credit := s.credit + n }
  | .streamUpdate i n =>
    match s.ups[i]? with
    | none => s
    | some u => { s with ups := setAt s.ups i { u with win := u.win + n } }
  | .initialWindowDelta d => { s with ups := s.ups.map fun u => { u with win := u.win + d } }
  | .maxFrame n => { s with maxFrame := n }

def mrun (s : MState) (steps : List MStep) : MState := steps.foldl mstep s

def totalSent (s : MState) : Nat := (s.ups.map fun u => u.sent.length).sum

theorem sendStep_le_conn (s : MState) (u : Up) (hc : 0 ≤ s.connWin) : ((sendStep s u).2 : Int) ≤ s.connWin := by
  unfold sendStep
  split
  · simpa using hc
  · rename_i h
    have hpos : 0 < usable s u := flowWaits_false_pos (by simpa using h)
    simp only []
    unfold usable at hpos ⊢
    omega

theorem sendStep_sent (s : MState) (u : Up) :
    (sendStep s u).1.sent.length = u.sent.length + (sendStep s u).2 ∧
    (sendStep s u).1.sent ++ (sendStep s u).1.todo = u.sent ++ u.todo := by
  unfold sendStep
  split
  · simp
  · simp only [List.length_append, List.length_take, List.append_assoc, List.take_append_drop, and_true]
    omega

theorem sum_setAt (l : List Up) (i : Nat) (u v : Up) (h : l[i]? = some u) :
    ((setAt l i v).map fun x => x.sent.length).sum + u.sent.length = (l.map fun x => x.sent.length).sum + v.sent.length := by
  induction l generalizing i with
  | nil => simp at h
  | cons x xs ih =>
    cases i with
    | zero =>
      simp only [List.getElem?_cons_zero, Option.some.injEq] at h
      subst h
      simp only [setAt, List.set_cons_zero, List.map_cons, List.sum_cons]
      omega
    | succ j =>
      simp only [List.getElem?_cons_succ] at h
      have := ih j h
      simp only [setAt, List.set_cons_succ, List.map_cons, List.sum_cons] at this ⊢
      omega

/-- what is preserved: the connection window never goes negative, and bytes sent + window left = initial window +
connection-level credit received -/
structure MInv (w0 : Int) (s : MState) : Prop where
  nonneg : 0 ≤ s.connWin
  conserve : (totalSent s : Int) + s.connWin = w0 + s.credit

theorem mstep_inv (w0 : Int) (s : MState) (st : MStep) (h : MInv w0 s) : MInv w0 (mstep s st) := by
  obtain ⟨h1, h2⟩ := h
  cases st with
  | send i =>
    simp only [mstep]
    cases hu : s.ups[i]? with
    | none => exact ⟨h1, h2⟩
    | some u =>
      simp only []
      have hle := sendStep_le_conn s u h1
      have hs := (sendStep_sent s u).1
      have hsum := sum_setAt s.ups i u (sendStep s u).1 hu
      constructor
      · simp only []; omega
      · simp only [totalSent] at h2 ⊢
        omega
  | connUpdate n =>
    constructor
    · simp only [mstep]; omega
    · simp only [mstep, totalSent] at h2 ⊢; push_cast; omega
  | streamUpdate i n =>
    simp only [mstep]
    cases hu : s.ups[i]? with
    | none => exact ⟨h1, h2⟩
    | some u =>
      have hsum := sum_setAt s.ups i u { u with win := u.win + n } hu
      simp only [] at hsum
      constructor
      · exact h1
      · simp only [totalSent] at h2 ⊢; omega
  | initialWindowDelta d =>
    constructor
    · exact h1
    · simp only [mstep, totalSent, List.map_map] at h2 ⊢
      exact h2
  | maxFrame n => exact ⟨h1, h2⟩

theorem mrun_inv (w0 : Int) (s : MState) (steps : List MStep) (h : MInv w0 s) : MInv w0 (steps.foldl mstep s) := by
  induction steps generalizing s with
  | nil => simpa using h
  | cons st rest ih => simpa using ih _ (mstep_inv w0 s st h)

/-- **C13.shared_window_respected** — any number of uploads on one connection, their send-loop iterations interleaved in
any order with WINDOW_UPDATEs, INITIAL_WINDOW_SIZE changes (up or down) and MAX_FRAME_SIZE changes: the connection window
never goes negative, and the bytes sent by all streams together never exceed the initial connection window plus the
connection-level credit the server has granted. -/
theorem shared_window_respected (s : MState) (steps : List MStep) (h0 : 0 ≤ s.connWin) (hc : s.credit = 0)
    (hs : totalSent s = 0) :
    0 ≤ (mrun s steps).connWin ∧ (totalSent (mrun s steps) : Int) ≤ s.connWin + (mrun s steps).credit := by
  have inv0 : MInv s.connWin s := ⟨h0, by simp [hs, hc]⟩
  have : MInv s.connWin (mrun s steps) := mrun_inv _ s steps inv0
  exact ⟨this.nonneg, by have h1 := this.conserve; have h2 := this.nonneg; omega⟩

theorem mstep_stream (s : MState) (st : MStep) (i : Nat) (u : Up) (h : s.ups[i]? = some u) :
    ∃ u', (mstep s st).ups[i]? = some u' ∧ u'.sent ++ u'.todo = u.sent ++ u.todo := by
  cases st with
  | send j =>
    simp only [mstep]
    cases hj : s.ups[j]? with
    | none => exact ⟨u, h, rfl⟩
    | some v =>
      simp only [setAt]
      by_cases hij : j = i
      · subst hij
        rw [h] at hj
        cases hj
        have hlt : j < s.ups.length := by
          have := List.getElem?_eq_some_iff.mp h
          exact this.1
        exact ⟨(sendStep s u).1, by simp [List.getElem?_set, hlt], (sendStep_sent s u).2⟩
      · exact ⟨u, by simp [List.getElem?_set, hij, h], rfl⟩
  | connUpdate n => exact ⟨u, h, rfl⟩
  | streamUpdate j n =>
    simp only [mstep]
    cases hj : s.ups[j]? with
    | none => exact ⟨u, h, rfl⟩
    | some v =>
      simp only [setAt]
      by_cases hij : j = i
      · subst hij
        rw [h] at hj
        cases hj
        have hlt : j < s.ups.length := (List.getElem?_eq_some_iff.mp h).1
        exact ⟨{ u with win := u.win + n }, by simp [List.getElem?_set, hlt], rfl⟩
      · exact ⟨u, by simp [List.getElem?_set, hij, h], rfl⟩
  | initialWindowDelta d =>
    exact ⟨{ u with win := u.win + d }, by simp [mstep, List.getElem?_map, h], rfl⟩
  | maxFrame n => exact ⟨u, h, rfl⟩

/-- **C13.each_upload_in_order** — in every such interleaving, what a stream has sent followed by what it has still to send
is always exactly its body: nothing lost, duplicated or reordered, and no byte of another stream's body. -/
theorem each_upload_in_order (s : MState) (steps : List MStep) (i : Nat) (u : Up) (h : s.ups[i]? = some u) :
    ∃ u', (mrun s steps).ups[i]? = some u' ∧ u'.sent ++ u'.todo = u.sent ++ u.todo := by
  unfold mrun
  induction steps generalizing s u with
  | nil => exact ⟨u, h, rfl⟩
  | cons st rest ih =>
    obtain ⟨u1, h1, e1⟩ := mstep_stream s st i u h
    obtain ⟨u2, h2, e2⟩ := ih (mstep s st) u1 h1
    exact ⟨u2, by simpa using h2, by rw [e2, e1]⟩

/-! non-vacuity: two uploads of 5 and 4 bytes against a connection window of 6 -/
example : (mrun { connWin := 6, maxFrame := 4, credit := 0,
                  ups := [{ win := 10, sent := [], todo := [1, 2, 3, 4, 5] }, { win := 10, sent := [], todo := [6, 7, 8, 9] }] }
    [.send 0, .send 1, .send 0, .connUpdate 3, .send 1, .send 0]).ups.map (·.sent) = [[1, 2, 3, 4, 5], [6, 7, 8, 9]] := by
  simp [mrun, mstep, sendStep, usable, setAt, Gen.flowWaits, Int.min_def, Nat.min_def]

end Httpcore.C13
