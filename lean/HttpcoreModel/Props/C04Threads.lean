import HttpcoreModel.Props.C08
/-!
# C04 under threads

`pass_bound_adversarial` (Props/C04.lean) bounds the pool's connection list after a pass whatever other threads do to the
*status* of connections meanwhile.  What other threads must not be able to do is to run a second pass, or to mutate the pool's
lists, in the middle of one: that is what the thread lock is for, and whether every such statement is inside it is regenerated
from the source (Tie A, `Gen.poolMutations`).
-/
namespace Httpcore.C04
open Httpcore Httpcore.Pool

/-- **C04.passes_are_serialised** — every statement of `connection_pool.py` that runs the assignment pass or mutates
`_connections` / `_requests` is inside `with self._optional_thread_lock:` (decided over the regenerated table): passes of
different threads never interleave, so `pass_bound_adversarial` applies to each of them. -/
theorem passes_are_serialised : ∀ m ∈ Gen.poolMutations, m.2.2 = true := C08.pool_mutations_locked

/-- the table is not empty and contains the pass's call sites (non-vacuity) -/
example : (Gen.poolMutations.filter (fun m => m.2.1 = "closing = self._assign_requests_to_connections()" ||
    m.2.1 = "closing = self._pool._assign_requests_to_connections()")).length ≥ 3 := by decide

end Httpcore.C04
