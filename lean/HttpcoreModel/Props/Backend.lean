import HttpcoreModel.Backend
import HttpcoreModel.Generated
/-!
# The sync back end's write loop (used by C03): whatever the kernel accepts per `send`, the bytes leave in order, once each.
-/
namespace Httpcore.BackendProps
open Httpcore Httpcore.Backend

/-- **write_nothing_lost_or_reordered** - at every moment of the loop, for every sequence of partial sends (including zero-length
and over-long answers): what has been handed to the kernel so far, followed by what is still in the buffer, is exactly the buffer
`write` was called with. -/
theorem write_nothing_lost_or_reordered (buf : Bytes) (sends : List Nat) :
    (writeLoop buf sends).1.flatten ++ (writeLoop buf sends).2 = buf := by
  induction sends generalizing buf with
  | nil => simp [writeLoop]
  | cons n ns ih =>
    cases buf with
    | nil => simp [writeLoop]
    | cons b bs =>
      simp only [writeLoop, List.flatten_cons, List.append_assoc]
      rw [ih]
      exact List.take_append_drop n (b :: bs)

theorem remaining_length (buf : Bytes) (sends : List Nat) (hpos : ∀ n ∈ sends, 1 ≤ n) :
    (writeLoop buf sends).2.length ≤ buf.length - sends.length := by
  induction sends generalizing buf with
  | nil => simp [writeLoop]
  | cons n ns ih =>
    cases buf with
    | nil => simp [writeLoop]
    | cons b bs =>
      simp only [writeLoop]
      have h1 : 1 ≤ n := hpos n (by simp)
      have := ih ((b :: bs).drop n) (fun m hm => hpos m (by simp [hm]))
      simp only [List.length_drop, List.length_cons] at this ⊢
      omega

/-- **write_complete** - a blocking `send` accepts at least one byte per call; then after at most `len(buffer)` calls the loop has
ended and the concatenation of the pieces is exactly the buffer. -/
theorem write_complete (buf : Bytes) (sends : List Nat) (hpos : ∀ n ∈ sends, 1 ≤ n) (hlen : buf.length ≤ sends.length) :
    (writeLoop buf sends).2 = [] ∧ (writeLoop buf sends).1.flatten = buf := by
  have h := remaining_length buf sends hpos
  have h0 : (writeLoop buf sends).2 = [] := List.eq_nil_of_length_eq_zero (by omega)
  refine ⟨h0, ?_⟩
  have := write_nothing_lost_or_reordered buf sends
  rw [h0, List.append_nil] at this
  exact this

/-- every piece handed to `send` is a prefix of what was unsent at that moment, hence never more than the buffer holds -/
theorem pieces_bounded (buf : Bytes) (sends : List Nat) : ((writeLoop buf sends).1.map List.length).sum ≤ buf.length := by
  have h := congrArg List.length (write_nothing_lost_or_reordered buf sends)
  simp only [List.length_append, List.length_flatten] at h
  omega

/-- Tie A: the loop in the source has the modelled shape -/
theorem source_write_loop : Gen.syncWriteLoopShape = true := by decide

example : writeLoop [1, 2, 3, 4, 5] [2, 1, 9] = ([[1, 2], [3], [4, 5]], []) := by decide

end Httpcore.BackendProps
