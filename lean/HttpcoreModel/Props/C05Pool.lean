import HttpcoreModel.Props.C05
import HttpcoreModel.Pool
import HttpcoreModel.Generated
/-!
# C05 at the level of the assignment pass: no connection is left behind by a request that has gone

`Sys` (Props/C05.lean) follows callers and direct HTTP/1.1 connections through every interleaving.  This file is about
`_assign_requests_to_connections` itself, for *every* kind of connection (they are seen through their status predicates only):
after a pass of the current source, every connection in the pool is idle or is the connection of a request that is still in the
queue.  A connection that was handed to a request which then left - cancelled between assignment and start, timed out in the
step in which it was served, cancelled before it opened an HTTP/2 stream - is therefore closed by the first pass that runs after
the request has been removed, which is the pass in the request's own exception handler.
-/
namespace Httpcore.C05
open Httpcore.Pool

/-- every listed connection is idle or held by one of the listed requests -/
def Held (conns : List Conn) (rs : List Req) : Prop :=
  ∀ c ∈ conns, c.idle = true ∨ ∃ q ∈ rs, q.conn = some c.id

theorem cleanup_held (cfg : Cfg) (hr : cfg.reclaimAbandoned = true) (res : List Nat) (snap cur : List Conn)
    (closing : List (Conn × Reason)) (hnd : cur.Nodup)
    (h : ∀ c ∈ cur, c ∈ snap ∨ (c.idle = true ∨ isReserved res c = true)) :
    ∀ c ∈ (cleanup cfg res snap cur closing).1, c.idle = true ∨ isReserved res c = true := by
  induction snap generalizing cur closing with
  | nil =>
    intro c hc
    simp only [cleanup] at hc
    rcases h c hc with h0 | h0
    · cases h0
    · exact h0
  | cons c0 rest ih =>
    have hE : ∀ cl, ∀ c ∈ (cleanup cfg res rest (cur.erase c0) cl).1, c.idle = true ∨ isReserved res c = true := by
      intro cl
      apply ih _ _ (hnd.erase c0)
      intro x hx
      have hx' : x ∈ cur := List.mem_of_mem_erase hx
      have hne : x ≠ c0 := by
        intro heq; subst heq
        exact (List.Nodup.not_mem_erase hnd) hx
      rcases h x hx' with h1 | h1
      · simp only [List.mem_cons] at h1
        rcases h1 with rfl | h1
        · exact absurd rfl hne
        · exact Or.inl h1
      · exact Or.inr h1
    simp only [cleanup]
    split
    · exact hE _
    · split
      · exact hE _
      · split
        · exact hE _
        · split
          · exact hE _
          · rename_i hcond
            apply ih _ _ hnd
            intro x hx
            rcases h x hx with h1 | h1
            · simp only [List.mem_cons] at h1
              rcases h1 with rfl | h1
              · right
                simp only [hr, Bool.true_and, Bool.and_eq_true, Bool.not_eq_eq_eq_not, Bool.not_true, not_and,
                  Bool.not_eq_false] at hcond
                by_cases hres : isReserved res x = true
                · exact Or.inr hres
                · left
                  exact hcond (by simpa using hres)
              · exact Or.inl h1
            · exact Or.inr h1

theorem assignOne_held (cfg : Cfg) (s : State) (r : Req) (rest done : List Req) (hr : r.conn = none)
    (h : Held s.conns (done ++ r :: rest)) :
    Held (assignOne cfg s r).1.conns ((done ++ [(assignOne cfg s r).2]) ++ rest) := by
  have old : ∀ c ∈ s.conns, ∀ r' : Req, c.idle = true ∨ ∃ q ∈ (done ++ [r']) ++ rest, q.conn = some c.id := by
    intro c hc r'
    rcases h c hc with h0 | ⟨q, hq, hqc⟩
    · exact Or.inl h0
    · right
      simp only [List.mem_append, List.mem_cons] at hq
      rcases hq with hq | rfl | hq
      · exact ⟨q, by simp [hq], hqc⟩
      · rw [hr] at hqc; cases hqc
      · exact ⟨q, by simp [hq], hqc⟩
  simp only [assignOne]
  split
  · intro c hc; exact old c hc _
  · split
    · intro c hc
      simp only [List.mem_append, List.mem_singleton] at hc
      rcases hc with hc | rfl
      · exact old c hc _
      · right; exact ⟨{ r with conn := some (fresh cfg s.nextId r.origin).id }, by simp, rfl⟩
    · split
      · intro c hc
        simp only [List.mem_append, List.mem_singleton] at hc
        rcases hc with hc | rfl
        · exact old c (List.mem_of_mem_erase hc) _
        · right; exact ⟨{ r with conn := some (fresh cfg s.nextId r.origin).id }, by simp, rfl⟩
      · intro c hc; exact old c hc _

theorem assignAll_held (cfg : Cfg) (s : State) (rs done : List Req) (h : Held s.conns (done ++ rs)) :
    Held (assignAll cfg s rs done).conns (assignAll cfg s rs done).reqs := by
  induction rs generalizing s done with
  | nil => simpa [assignAll] using h
  | cons r rest ih =>
    simp only [assignAll]
    split
    · apply ih
      simpa [List.append_assoc] using h
    · rename_i hr
      apply ih
      exact assignOne_held cfg s r rest done hr h

/-- **C05.no_abandoned_after_pass** — with the clean-up rule of the current source (`Gen.poolReclaimsAbandoned`), for every pool
state with distinct connections, every queue and every configuration: after a pass, every connection in the pool is idle or
is the connection of a request that is in the queue after the pass. -/
theorem no_abandoned_after_pass (cfg : Cfg) (hp : cfg.protectAssigned = true) (hr : cfg.reclaimAbandoned = true) (s : State)
    (hnd : s.conns.Nodup) :
    ∀ c ∈ (pass cfg s).conns, c.idle = true ∨ ∃ q ∈ (pass cfg s).reqs, q.conn = some c.id := by
  simp only [pass, hp, if_true]
  apply assignAll_held
  intro c hc
  have := cleanup_held cfg hr (s.reqs.filterMap (·.conn)) s.conns s.conns [] hnd (fun x hx => Or.inl hx) c hc
  rcases this with h | h
  · exact Or.inl h
  · right
    simp only [isReserved, List.contains_eq_mem, List.mem_filterMap, decide_eq_true_eq] at h
    obtain ⟨q, hq, hqc⟩ := h
    exact ⟨q, by simpa using hq, hqc⟩

/-- in particular: once the queue is empty (every caller has left), every connection left in the pool is idle - nothing is in
limbo, whatever happened to the requests -/
theorem quiescent_pool_all_idle (cfg : Cfg) (hp : cfg.protectAssigned = true) (hr : cfg.reclaimAbandoned = true) (s : State)
    (hnd : s.conns.Nodup) (hq : s.reqs = []) : ∀ c ∈ (pass cfg s).conns, c.idle = true := by
  intro c hc
  rcases no_abandoned_after_pass cfg hp hr s hnd c hc with h | ⟨q, hq', _⟩
  · exact h
  · have : (pass cfg s).reqs = [] := by simp [pass, hq, assignAll]
    rw [this] at hq'; cases hq'

/-- Tie A: the current source has the rule -/
theorem source_reclaims_abandoned : Gen.poolReclaimsAbandoned = true ∧ Gen.poolProtectsAssigned = true := by decide

/-- the rule closes only what nobody holds (a held connection is never reclaimed): `Pool.cleanup`'s `abandoned` reason -/
theorem reclaimed_is_unheld (cfg : Cfg) (res : List Nat) (snap cur : List Conn) (closing : List (Conn × Reason))
    (hold : ∀ e ∈ closing, e.2 = .abandoned → e.1.idle = false ∧ isReserved res e.1 = false) :
    ∀ e ∈ (cleanup cfg res snap cur closing).2, e.2 = .abandoned → e.1.idle = false ∧ isReserved res e.1 = false := by
  induction snap generalizing cur closing with
  | nil => simpa [cleanup] using hold
  | cons c rest ih =>
    simp only [cleanup]
    split
    · exact ih _ _ hold
    · split
      · apply ih
        intro e he
        simp only [List.mem_append, List.mem_singleton] at he
        rcases he with he | rfl
        · exact hold e he
        · intro h; cases h
      · split
        · apply ih
          intro e he
          simp only [List.mem_append, List.mem_singleton] at he
          rcases he with he | rfl
          · exact hold e he
          · intro h; cases h
        · split
          · rename_i hcond
            simp only [Bool.and_eq_true, Bool.not_eq_eq_eq_not, Bool.not_true] at hcond
            apply ih
            intro e he
            simp only [List.mem_append, List.mem_singleton] at he
            rcases he with he | rfl
            · exact hold e he
            · intro _; exact ⟨hcond.2, hcond.1.2⟩
          · exact ih _ _ hold

/-! the 1.0.7 behaviour, for contrast: a connection (id 0) that is neither idle nor held by anyone survives the pass -/
def cfg107 : Cfg := { maxConn := 1, maxKeepalive := 1, newAvail := fun _ => false, countIdleOnly := false, protectAssigned := false }
def cfgNow : Cfg := { cfg107 with countIdleOnly := true, protectAssigned := true, reclaimAbandoned := true }
def limbo : State := { conns := [⟨0, 0, false, false, false, false⟩], reqs := [], closing := [], nextId := 1 }

theorem abandoned_survives_107 : (pass cfg107 limbo).conns = limbo.conns := by decide
theorem abandoned_reclaimed_now : (pass cfgNow limbo).conns = [] ∧ (pass cfgNow limbo).closing.map (·.1.id) = [0] := by decide

/-- non-vacuity of `no_abandoned_after_pass`: a held connecting connection stays, next to an idle one -/
example : (pass cfgNow { conns := [⟨0, 0, false, false, false, false⟩, ⟨1, 1, false, false, true, true⟩],
                         reqs := [⟨7, 0, some 0⟩], closing := [], nextId := 2 }).conns.map (·.id) = [0, 1] := by decide

end Httpcore.C05
