import HttpcoreModel.Pool
/-!
# C08 — a pass never retires (as surplus, or for room) a connection that some request holds after the pass
-/
namespace Httpcore.C08
open Httpcore Httpcore.Pool

def ids (l : List Conn) : List Nat := l.map (·.id)

/-- the retired (non-expired) entries of a closing list -/
def retired (cl : List (Conn × Reason)) : List Nat := (cl.filter fun e => e.2 ≠ .expired).map (·.1.id)

theorem mem_ids_erase {l : List Conn} {c : Conn} {x : Nat} (h : x ∈ ids (l.erase c)) : x ∈ ids l := by
  simp only [ids, List.mem_map] at h ⊢
  obtain ⟨a, ha, rfl⟩ := h
  exact ⟨a, List.mem_of_mem_erase ha, rfl⟩

theorem nodup_ids_erase {l : List Conn} (c : Conn) (h : (ids l).Nodup) : (ids (l.erase c)).Nodup := by
  unfold ids at *
  exact List.Nodup.sublist (List.Sublist.map _ (List.erase_sublist)) h

theorem not_mem_ids_erase {l : List Conn} {c : Conn} (h : (ids l).Nodup) (hc : c ∈ l) : c.id ∉ ids (l.erase c) := by
  induction l with
  | nil => simp at hc
  | cons a t ih =>
    simp only [ids, List.map_cons, List.nodup_cons] at h
    by_cases hac : a = c
    · subst hac
      simp only [List.erase_cons_head]
      exact h.1
    · have hne : (a == c) = false := by simpa using hac
      have hct : c ∈ t := by
        rcases List.mem_cons.mp hc with rfl | h'
        · exact absurd rfl hac
        · exact h'
      rw [List.erase_cons, hne]
      simp only [Bool.false_eq_true, if_false, ids, List.map_cons, List.mem_cons, not_or]
      refine ⟨?_, ih h.2 hct⟩
      intro heq
      apply h.1
      simp only [List.mem_map]
      exact ⟨c, hct, heq⟩

theorem retired_append (cl : List (Conn × Reason)) (e : Conn × Reason) :
    retired (cl ++ [e]) = if e.2 ≠ .expired then retired cl ++ [e.1.id] else retired cl := by
  unfold retired
  by_cases h : e.2 ≠ .expired <;> simp [List.filter_append, h]

/-- invariant of both loops; `n0` = `nextId` at the start of the pass, `reqs` = all requests (done and to do) -/
structure K (n0 : Nat) (s : State) (reqs : List Req) : Prop where
  nodup : (ids s.conns).Nodup
  below : ∀ c ∈ s.conns, c.id < s.nextId
  start : n0 ≤ s.nextId
  fresh : ∀ c ∈ s.conns, n0 ≤ c.id → c.idle = false
  ret : ∀ x ∈ retired s.closing, x < n0 ∧ x ∉ s.reserved ∧ x ∉ ids s.conns
  held : ∀ q ∈ reqs, ∀ c, q.conn = some c → c ∈ s.reserved ∨ n0 ≤ c

theorem K_final (n0 : Nat) (s : State) (reqs : List Req) (h : K n0 s reqs) :
    ∀ x ∈ retired s.closing, ∀ q ∈ reqs, q.conn ≠ some x := by
  intro x hx q hq heq
  obtain ⟨h1, h2, _⟩ := h.ret x hx
  rcases h.held q hq x heq with h3 | h3
  · exact h2 h3
  · omega

theorem assignOne_K (cfg : Cfg) (hp : cfg.protectAssigned = true) (n0 : Nat) (s : State) (r : Req) (rest done : List Req)
    (hr : r.conn = none) (h : K n0 s (done ++ r :: rest)) :
    K n0 (assignOne cfg s r).1 (done ++ (assignOne cfg s r).2 :: rest) := by
  obtain ⟨k1, k2, k3, k4, k5, k6⟩ := h
  have held' : ∀ (s' : State) (r' : Req), (∀ c, c ∈ s.reserved → c ∈ s'.reserved) →
      (∀ c, r'.conn = some c → c ∈ s'.reserved ∨ n0 ≤ c) →
      ∀ q ∈ done ++ r' :: rest, ∀ c, q.conn = some c → c ∈ s'.reserved ∨ n0 ≤ c := by
    intro s' r' hsub hr' q hq c hc
    simp only [List.mem_append, List.mem_cons] at hq
    rcases hq with hq | rfl | hq
    · rcases k6 q (by simp [hq]) c hc with h | h
      · exact Or.inl (hsub c h)
      · exact Or.inr h
    · exact hr' c hc
    · rcases k6 q (by simp [hq]) c hc with h | h
      · exact Or.inl (hsub c h)
      · exact Or.inr h
  simp only [assignOne]
  split
  · -- an available connection: it becomes reserved
    rename_i c tl hav
    have hc : c ∈ s.conns := by
      have : c ∈ s.conns.filter (fun c => c.origin == r.origin && c.available) := by rw [hav]; simp
      exact (List.mem_filter.mp this).1
    have hcid : c.id ∈ ids s.conns := by simp only [ids, List.mem_map]; exact ⟨c, hc, rfl⟩
    refine ⟨k1, k2, k3, k4, ?_, ?_⟩
    · intro x hx
      obtain ⟨a1, a2, a3⟩ := k5 x hx
      refine ⟨a1, ?_, a3⟩
      simp only [hp, if_true, List.mem_cons, not_or]
      exact ⟨fun heq => a3 (heq ▸ hcid), a2⟩
    · apply held' _ _ (by intro c hc'; simp [hp, hc'])
      intro c' hc'
      simp only [Option.some.injEq] at hc'
      left; simp [hp, hc']
  · split
    · -- room: a new connection
      refine ⟨?_, ?_, by simp only []; omega, ?_, ?_, ?_⟩
      · simp only [ids, List.map_append, List.map_cons, List.map_nil, fresh]
        rw [List.nodup_append]
        refine ⟨k1, by simp, ?_⟩
        intro a ha b hb
        simp only [List.mem_singleton] at hb
        subst hb
        simp only [ids, List.mem_map] at ha
        obtain ⟨c, hc, rfl⟩ := ha
        have := k2 c hc
        omega
      · intro c hc
        simp only [List.mem_append, List.mem_singleton] at hc
        rcases hc with hc | rfl
        · have := k2 c hc; simp only []; omega
        · simp [fresh]
      · intro c hc hge
        simp only [List.mem_append, List.mem_singleton] at hc
        rcases hc with hc | rfl
        · exact k4 c hc hge
        · simp [fresh]
      · intro x hx
        obtain ⟨a1, a2, a3⟩ := k5 x hx
        refine ⟨a1, a2, ?_⟩
        simp only [ids, List.map_append, List.map_cons, List.map_nil, List.mem_append, List.mem_singleton, fresh, not_or]
        exact ⟨a3, by omega⟩
      · apply held' _ _ (by intro c hc'; exact hc')
        intro c' hc'
        simp only [fresh, Option.some.injEq] at hc'
        right; omega
    · split
      · -- eviction of a free idle connection, then a new connection
        rename_i i tl hi
        have him : i ∈ s.conns.filter (fun c => c.idle && !(isReserved s.reserved c)) := by rw [hi]; simp
        obtain ⟨hi1, hi2⟩ := List.mem_filter.mp him
        simp only [Bool.and_eq_true, Bool.not_eq_eq_eq_not, Bool.not_true] at hi2
        have hilt : i.id < n0 := by
          by_cases hge : n0 ≤ i.id
          · have := k4 i hi1 hge; rw [this] at hi2; exact absurd hi2.1 (by simp)
          · omega
        have hires : i.id ∉ s.reserved := by
          have := hi2.2
          simpa [isReserved] using this
        refine ⟨?_, ?_, by simp only []; omega, ?_, ?_, ?_⟩
        · simp only [ids, List.map_append, List.map_cons, List.map_nil, fresh]
          rw [List.nodup_append]
          refine ⟨nodup_ids_erase i k1, by simp, ?_⟩
          intro a ha b hb
          simp only [List.mem_singleton] at hb
          subst hb
          have ha' := mem_ids_erase ha
          simp only [ids, List.mem_map] at ha'
          obtain ⟨c, hc, rfl⟩ := ha'
          have := k2 c hc
          omega
        · intro c hc
          simp only [List.mem_append, List.mem_singleton] at hc
          rcases hc with hc | rfl
          · have := k2 c (List.mem_of_mem_erase hc); simp only []; omega
          · simp [fresh]
        · intro c hc hge
          simp only [List.mem_append, List.mem_singleton] at hc
          rcases hc with hc | rfl
          · exact k4 c (List.mem_of_mem_erase hc) hge
          · simp [fresh]
        · intro x hx
          rw [retired_append] at hx
          simp only [ne_eq, reduceCtorEq, not_false_eq_true, if_true, List.mem_append, List.mem_singleton] at hx
          have notnew : ∀ y, y < n0 → y ∉ ids ((s.conns.erase i) ++ [fresh cfg s.nextId r.origin]) → True := fun _ _ _ => trivial
          rcases hx with hx | rfl
          · obtain ⟨a1, a2, a3⟩ := k5 x hx
            refine ⟨a1, a2, ?_⟩
            simp only [ids, List.map_append, List.map_cons, List.map_nil, List.mem_append, List.mem_singleton, fresh, not_or]
            exact ⟨fun hm => a3 (mem_ids_erase hm), by omega⟩
          · refine ⟨hilt, hires, ?_⟩
            simp only [ids, List.map_append, List.map_cons, List.map_nil, List.mem_append, List.mem_singleton, fresh, not_or]
            exact ⟨not_mem_ids_erase k1 hi1, by omega⟩
        · apply held' _ _ (by intro c hc'; exact hc')
          intro c' hc'
          simp only [fresh, Option.some.injEq] at hc'
          right; omega
      · -- nothing possible: unchanged
        refine ⟨k1, k2, k3, k4, k5, ?_⟩
        apply held' _ _ (by intro c hc'; exact hc')
        intro c' hc'
        rw [hr] at hc'; cases hc'

theorem assignAll_K (cfg : Cfg) (hp : cfg.protectAssigned = true) (n0 : Nat) (s : State) (rs done : List Req)
    (h : K n0 s (done ++ rs)) :
    K n0 (assignAll cfg s rs done) (assignAll cfg s rs done).reqs := by
  induction rs generalizing s done with
  | nil =>
    simp only [assignAll]
    obtain ⟨k1, k2, k3, k4, k5, k6⟩ := h
    exact ⟨k1, k2, k3, k4, k5, by simpa using k6⟩
  | cons r rest ih =>
    simp only [assignAll]
    split
    · apply ih
      simpa [List.append_assoc] using h
    · rename_i hr
      apply ih
      have := assignOne_K cfg hp n0 s r rest done hr h
      simpa [List.append_assoc] using this

theorem nodup_of_ids {l : List Conn} (h : (ids l).Nodup) : l.Nodup := by
  induction l with
  | nil => simp
  | cons a t ih =>
    simp only [ids, List.map_cons, List.nodup_cons] at h ⊢
    exact ⟨fun hm => h.1 (List.mem_map.mpr ⟨a, hm, rfl⟩), ih h.2⟩

theorem ids_subset {a b : List Conn} (h : ∀ c ∈ a, c ∈ b) {x : Nat} (hx : x ∈ ids a) : x ∈ ids b := by
  simp only [ids, List.mem_map] at hx ⊢
  obtain ⟨c, hc, rfl⟩ := hx
  exact ⟨c, h c hc, rfl⟩

theorem cleanup_K (cfg : Cfg) (res : List Nat) (n0 : Nat) (snap cur : List Conn) (closing : List (Conn × Reason))
    (hnd : (ids cur).Nodup) (hsn : snap.Nodup) (hsub : ∀ x ∈ snap, x ∈ cur) (hlt : ∀ c ∈ cur, c.id < n0)
    (hcl : ∀ x ∈ retired closing, (x < n0 ∧ x ∉ res) ∧ x ∉ ids cur) :
    (ids (cleanup cfg res snap cur closing).1).Nodup ∧ (∀ c ∈ (cleanup cfg res snap cur closing).1, c ∈ cur) ∧
    ∀ x ∈ retired (cleanup cfg res snap cur closing).2, (x < n0 ∧ x ∉ res) ∧ x ∉ ids (cleanup cfg res snap cur closing).1 := by
  induction snap generalizing cur closing with
  | nil => exact ⟨by simpa [cleanup] using hnd, by simp [cleanup], by simpa [cleanup] using hcl⟩
  | cons c rest ih =>
    have hc : c ∈ cur := hsub c (by simp)
    have hsn' : rest.Nodup := (List.nodup_cons.mp hsn).2
    have hcn : c ∉ rest := (List.nodup_cons.mp hsn).1
    have hsubE : ∀ x ∈ rest, x ∈ cur.erase c := by
      intro x hx
      have hne : x ≠ c := fun h => hcn (h ▸ hx)
      exact (List.mem_erase_of_ne hne).mpr (hsub x (by simp [hx]))
    have hltE : ∀ x ∈ cur.erase c, x.id < n0 := fun x hx => hlt x (List.mem_of_mem_erase hx)
    have keepE : ∀ cl, (∀ x ∈ retired cl, (x < n0 ∧ x ∉ res) ∧ x ∉ ids (cur.erase c)) →
        (ids (cleanup cfg res rest (cur.erase c) cl).1).Nodup ∧ (∀ d ∈ (cleanup cfg res rest (cur.erase c) cl).1, d ∈ cur) ∧
        ∀ x ∈ retired (cleanup cfg res rest (cur.erase c) cl).2,
          (x < n0 ∧ x ∉ res) ∧ x ∉ ids (cleanup cfg res rest (cur.erase c) cl).1 := by
      intro cl hcl'
      obtain ⟨a1, a2, a3⟩ := ih (cur.erase c) cl (nodup_ids_erase c hnd) hsn' hsubE hltE hcl'
      exact ⟨a1, fun d hd => List.mem_of_mem_erase (a2 d hd), a3⟩
    have oldE : ∀ x ∈ retired closing, (x < n0 ∧ x ∉ res) ∧ x ∉ ids (cur.erase c) := by
      intro x hx
      obtain ⟨b1, b2⟩ := hcl x hx
      exact ⟨b1, fun hm => b2 (mem_ids_erase hm)⟩
    simp only [cleanup]
    split
    · exact keepE _ oldE
    · split
      · apply keepE
        intro x hx
        rw [retired_append] at hx
        simp only [ne_eq, not_true_eq_false, if_false] at hx
        exact oldE x hx
      · split
        · rename_i hcond
          simp only [Bool.and_eq_true, Bool.not_eq_eq_eq_not, Bool.not_true, decide_eq_true_eq] at hcond
          apply keepE
          intro x hx
          rw [retired_append] at hx
          simp only [ne_eq, reduceCtorEq, not_false_eq_true, if_true, List.mem_append, List.mem_singleton] at hx
          rcases hx with hx | rfl
          · exact oldE x hx
          · refine ⟨⟨hlt c hc, ?_⟩, not_mem_ids_erase hnd hc⟩
            have := hcond.1.2
            simpa [isReserved] using this
        · split
          · rename_i hcond
            simp only [Bool.and_eq_true, Bool.not_eq_eq_eq_not, Bool.not_true] at hcond
            apply keepE
            intro x hx
            rw [retired_append] at hx
            simp only [ne_eq, reduceCtorEq, not_false_eq_true, if_true, List.mem_append, List.mem_singleton] at hx
            rcases hx with hx | rfl
            · exact oldE x hx
            · refine ⟨⟨hlt c hc, ?_⟩, not_mem_ids_erase hnd hc⟩
              have := hcond.1.2
              simpa [isReserved] using this
          · exact ih cur closing hnd hsn' (fun x hx => hsub x (by simp [hx])) hlt hcl

/-- **C08.pass_never_retires_held_connection** — with the reservation rule of the current source, for every pool state whose
connections are distinct objects with distinct ids (below `nextId`): no connection that the pass closes as surplus or evicts to
make room is the connection of any request after the pass - neither of a request that held one before (a thread about to
start on it) nor of one assigned during the pass. -/
theorem pass_never_retires_held_connection (cfg : Cfg) (hp : cfg.protectAssigned = true) (s : State)
    (hnd : (ids s.conns).Nodup) (hlt : ∀ c ∈ s.conns, c.id < s.nextId) :
    ∀ e ∈ (pass cfg s).closing, e.2 ≠ .expired → ∀ q ∈ (pass cfg s).reqs, q.conn ≠ some e.1.id := by
  have hnd' : s.conns.Nodup := nodup_of_ids hnd
  obtain ⟨c1, c2, c3⟩ := cleanup_K cfg (s.reqs.filterMap (·.conn)) s.nextId s.conns s.conns [] hnd hnd' (fun x hx => hx) hlt
    (by simp [retired])
  have hK : K s.nextId { s with conns := (cleanup cfg (s.reqs.filterMap (·.conn)) s.conns s.conns []).1,
                                closing := (cleanup cfg (s.reqs.filterMap (·.conn)) s.conns s.conns []).2,
                                reserved := s.reqs.filterMap (·.conn) } ([] ++ s.reqs) := by
    refine ⟨c1, fun c hc => hlt c (c2 c hc), Nat.le_refl _, ?_, ?_, ?_⟩
    · intro c hc hge
      have := hlt c (c2 c hc); omega
    · intro x hx
      obtain ⟨⟨a1, a2⟩, a3⟩ := c3 x hx
      exact ⟨a1, a2, a3⟩
    · intro q hq c hqc
      left
      simp only [List.nil_append] at hq
      simp only [List.mem_filterMap]
      exact ⟨q, hq, hqc⟩
  have hfin := assignAll_K cfg hp s.nextId _ s.reqs [] hK
  intro e he hne q hq
  simp only [pass, hp, if_true] at he hq
  apply K_final _ _ _ hfin e.1.id _ q hq
  simp only [retired, List.mem_map, List.mem_filter]
  exact ⟨e, ⟨he, by simpa using hne⟩, rfl⟩

end Httpcore.C08
