import HttpcoreModel.Generated
/-!
# C16 — Time-outs are applied, and to the right operations

`Gen.timeoutSites` is regenerated from the source on every run: one row per call of a network
operation in `httpcore/_async/*.py` (whether or not any scenario reaches it).
-/
namespace Httpcore.C16
open Httpcore

/-- the key an operation must be limited by -/
def requiredKey (op : String) : String :=
  if op = "read" then "read" else if op = "write" then "write" else "connect"

def isNegotiation (site : String × String × String × String) : Bool :=
  site.1 = "socks_proxy" && site.2.1 = "_init_socks5_connection"

/-- a site is fine if it passes the key that matches its operation; steps of a proxy negotiation may
use any configured key; public pass-through methods hand on what their caller gives -/
def siteOk (site : String × String × String × String) : Bool :=
  let key := site.2.2.2
  key = "caller" ||
  (if isNegotiation site then key = "connect" || key = "read" || key = "write"
   else key = requiredKey site.2.2.1)

/-- **C16.sites** — every call of a network operation passes a time-out taken from the request's
`timeout` extension, of the right kind: connect and TLS handshakes the connect time-out, reads the
read time-out, writes the write time-out; proxy negotiation steps one of the configured values;
none passes nothing. -/
theorem sites : Gen.timeoutSites.all siteOk = true := by decide

/-- no site passes no time-out at all -/
theorem no_site_without_timeout : ∀ s ∈ Gen.timeoutSites, s.2.2.2 ≠ "none" := by decide

/-- the table is not empty and covers every kind of operation (non-vacuity) -/
theorem sites_cover :
    (Gen.timeoutSites.any fun s => s.2.2.1 = "read") ∧ (Gen.timeoutSites.any fun s => s.2.2.1 = "write") ∧
    (Gen.timeoutSites.any fun s => s.2.2.1 = "connect_tcp") ∧ (Gen.timeoutSites.any fun s => s.2.2.1 = "start_tls") ∧
    10 ≤ Gen.timeoutSites.length := by decide

/-- `timeouts.get(key, None)`: an absent key means no limit (`none`), a present one its value -/
def lookupTimeout (cfg : List (String × Nat)) (key : String) : Option Nat :=
  (cfg.find? (fun kv => kv.1 = key)).map (·.2)

/-- **C16.absent_is_unlimited** -/
theorem absent_is_unlimited (cfg : List (String × Nat)) (key : String)
    (h : ∀ kv ∈ cfg, kv.1 ≠ key) : lookupTimeout cfg key = none := by
  unfold lookupTimeout
  have : cfg.find? (fun kv => kv.1 = key) = none := by
    rw [List.find?_eq_none]
    intro kv hkv
    simpa using h kv hkv
  simp [this]

theorem present_is_applied (cfg : List (String × Nat)) (key : String) (v : Nat) (pre : List (String × Nat))
    (post : List (String × Nat)) (hc : cfg = pre ++ (key, v) :: post) (h : ∀ kv ∈ pre, kv.1 ≠ key) :
    lookupTimeout cfg key = some v := by
  subst hc
  unfold lookupTimeout
  induction pre with
  | nil => simp
  | cons a t ih =>
    have ha : a.1 ≠ key := h a (by simp)
    simp [List.find?_cons, ha]
    simpa using ih (fun kv hkv => h kv (by simp [hkv]))

/-! ### the pool time-out, on a virtual clock -/

/-- a waiting request: arrived at `t0` with pool time-out `T`; `assignedAt` = the instant a pass gave
it a connection, if any. What `wait_for_connection` does at time `now`. -/
inductive WaitResult | waiting | proceed | poolTimeout
  deriving DecidableEq, Repr

def waitOutcome (t0 : Nat) (timeout : Option Nat) (assignedAt : Option Nat) (now : Nat) : WaitResult :=
  match assignedAt with
  | some a =>
    match timeout with
    | some T => if a ≤ t0 + T ∧ (a ≤ now) then .proceed else if t0 + T ≤ now then .poolTimeout else .waiting
    | none => if a ≤ now then .proceed else .waiting
  | none =>
    match timeout with
    | some T => if t0 + T ≤ now then .poolTimeout else .waiting
    | none => .waiting

/-- **C16.pool_timeout** — a queued request raises PoolTimeout exactly when it has been waiting for
its pool time-out without being given a connection: not earlier, not later; never without a
time-out; and a zero time-out still succeeds when the first pass assigns it. -/
theorem pool_timeout_exact (t0 T now : Nat) :
    waitOutcome t0 (some T) none now = .poolTimeout ↔ t0 + T ≤ now := by
  simp [waitOutcome]

theorem pool_timeout_never_without_limit (t0 now : Nat) (a : Option Nat) :
    waitOutcome t0 none a now ≠ .poolTimeout := by
  cases a <;> simp [waitOutcome] <;> split <;> simp

theorem zero_timeout_succeeds_when_assigned_at_once (t0 : Nat) :
    waitOutcome t0 (some 0) (some t0) t0 = .proceed := by
  simp [waitOutcome]

theorem assigned_in_time_never_times_out (t0 T a now : Nat) (h : a ≤ t0 + T) :
    waitOutcome t0 (some T) (some a) now ≠ .poolTimeout ∨ now < a := by
  by_cases hn : a ≤ now
  · left; simp [waitOutcome, h, hn]
  · right; omega

end Httpcore.C16
