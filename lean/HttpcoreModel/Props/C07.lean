import HttpcoreModel.Props.Wrap
import HttpcoreModel.Pool
import HttpcoreModel.Generated
/-!
# C07 — Waiting requests make progress whenever capacity exists (pool-pass theorems)
-/
namespace Httpcore.C07
open Httpcore.Pool

/-- the idle connections that are not spoken for (no request has been handed them) -/
def freeIdle (s : State) : List Conn := s.conns.filter (fun c => c.idle && !(isReserved s.reserved c))

/-- nothing can be created or evicted: the pool is at its limit and no idle connection is free to be evicted -/
def Stuck (cfg : Cfg) (s : State) : Prop :=
  ¬ s.conns.length < cfg.maxConn ∧ freeIdle s = []

def availFor (s : State) (origin : Nat) : List Conn :=
  s.conns.filter (fun c => c.origin == origin && c.available)

theorem freeIdle_reserve (s : State) (x : Nat) (h : freeIdle s = []) :
    freeIdle { s with reserved := x :: s.reserved } = [] := by
  unfold freeIdle at h ⊢
  rw [List.filter_eq_nil_iff] at h ⊢
  intro c hc
  have := h c hc
  simp only [isReserved, List.contains_cons] at this ⊢
  intro hx
  apply this
  simp only [Bool.and_eq_true, Bool.not_eq_eq_eq_not, Bool.not_true, Bool.or_eq_false_iff] at hx ⊢
  exact ⟨hx.1, hx.2.2⟩

/-- a stuck pool stays stuck and keeps its connections, whatever the request -/
theorem assignOne_stuck (cfg : Cfg) (s : State) (r : Req) (h : Stuck cfg s) :
    (assignOne cfg s r).1.conns = s.conns ∧ (assignOne cfg s r).1.closing = s.closing ∧ Stuck cfg (assignOne cfg s r).1 := by
  obtain ⟨h1, h2⟩ := h
  simp only [assignOne]
  split
  · refine ⟨rfl, rfl, h1, ?_⟩
    split
    · exact freeIdle_reserve s _ h2
    · exact h2
  · have h2' : s.conns.filter (fun c => c.idle && !(isReserved s.reserved c)) = [] := h2
    simp [h1, h2']
    exact ⟨h1, h2⟩

theorem assignOne_unassigned (cfg : Cfg) (s : State) (r : Req)
    (h : (assignOne cfg s r).2.conn = none) :
    (assignOne cfg s r).1 = s ∧ Stuck cfg s ∧ availFor s r.origin = [] := by
  simp only [assignOne] at h ⊢
  split
  · rename_i c tl hav; simp [hav] at h
  · rename_i hav
    split
    · rename_i hroom; simp [hav, hroom] at h
    · rename_i hfull
      split
      · rename_i i tl hi; simp [hav, hfull, hi] at h
      · rename_i hi
        exact ⟨rfl, ⟨hfull, hi⟩, hav⟩

/-- invariant of the assignment loop: every request already passed over and left queued is
blocked in the current pool state, which can no longer change -/
def J (cfg : Cfg) (s : State) (done : List Req) : Prop :=
  ∀ q ∈ done, q.conn = none → Stuck cfg s ∧ availFor s q.origin = []

theorem assignAll_complete (cfg : Cfg) (s : State) (rs done : List Req) (hJ : J cfg s done) :
    ∀ q ∈ (assignAll cfg s rs done).reqs, q.conn = none →
      Stuck cfg (assignAll cfg s rs done) ∧ availFor (assignAll cfg s rs done) q.origin = [] := by
  induction rs generalizing s done with
  | nil =>
    intro q hq hn
    simp only [assignAll] at hq ⊢
    obtain ⟨h1, h2⟩ := hJ q hq hn
    exact ⟨h1, h2⟩
  | cons r rest ih =>
    simp only [assignAll]
    split
    · rename_i cid hc
      apply ih
      intro q hq hn
      simp only [List.mem_append, List.mem_singleton] at hq
      rcases hq with hq | rfl
      · exact hJ q hq hn
      · rw [hc] at hn; cases hn
    · rename_i hc
      apply ih
      intro q hq hn
      simp only [List.mem_append, List.mem_singleton] at hq
      rcases hq with hq | rfl
      · obtain ⟨hs, ha⟩ := hJ q hq hn
        obtain ⟨e1, _, e3⟩ := assignOne_stuck cfg s r hs
        refine ⟨e3, ?_⟩
        unfold availFor at ha ⊢
        rw [e1]; exact ha
      · obtain ⟨h1, h2, h3⟩ := assignOne_unassigned cfg s r hn
        rw [h1]
        have horig : (assignOne cfg s r).2.origin = r.origin := by
          simp only [assignOne]
          split
          · rfl
          · split
            · rfl
            · split <;> rfl
        rw [horig]
        exact ⟨h2, h3⟩

/-- **C07.pass_complete** — after an assignment pass a request is still waiting only if no pooled
connection can take it (none available for its origin), the pool is at its connection limit, and no
idle connection is free to be evicted (every idle one has been handed to a request that is about to
use it). For every configuration, queue and mix of connections. -/
theorem pass_complete (cfg : Cfg) (s : State) :
    ∀ q ∈ (pass cfg s).reqs, q.conn = none →
      ¬ (pass cfg s).conns.length < cfg.maxConn ∧
      freeIdle (pass cfg s) = [] ∧
      (pass cfg s).conns.filter (fun c => c.origin == q.origin && c.available) = [] := by
  intro q hq hn
  simp only [pass] at hq ⊢
  have := assignAll_complete cfg _ s.reqs [] (by intro q hq; simp at hq) q hq hn
  exact ⟨this.1.1, this.1.2, this.2⟩

theorem assignAll_stuck (cfg : Cfg) (s : State) (rs done : List Req) (h : Stuck cfg s) :
    (assignAll cfg s rs done).conns = s.conns ∧ (assignAll cfg s rs done).closing = s.closing := by
  induction rs generalizing s done with
  | nil => simp [assignAll]
  | cons r rest ih =>
    simp only [assignAll]
    split
    · exact ih s _ h
    · obtain ⟨e1, e2, e3⟩ := assignOne_stuck cfg s r h
      obtain ⟨f1, f2⟩ := ih (assignOne cfg s r).1 (done ++ [(assignOne cfg s r).2]) e3
      exact ⟨f1.trans e1, f2.trans e2⟩

/-- **C07.no_overtaking** — requests are examined in arrival order, and once one of them has to be
left waiting no later request of the same pass gets a connection created or an idle one evicted
for it: the pool's connection list no longer changes in that pass. -/
theorem no_overtaking (cfg : Cfg) (s : State) (r : Req) (rest done : List Req)
    (hq : r.conn = none) (hstay : (assignOne cfg s r).2.conn = none) :
    (assignAll cfg s (r :: rest) done).conns = s.conns := by
  obtain ⟨h1, h2, _⟩ := assignOne_unassigned cfg s r hstay
  simp only [assignAll, hq]
  rw [h1]
  exact (assignAll_stuck cfg s rest _ h2).1

/-- **C07.served_when_possible** — conversely a queued request *is* given a connection by the pass
whenever an available connection for its origin exists, or there is room, or an idle connection that is
not spoken for can be evicted, at its turn. -/
theorem served_when_possible (cfg : Cfg) (s : State) (r : Req)
    (h : availFor s r.origin ≠ [] ∨ s.conns.length < cfg.maxConn ∨ freeIdle s ≠ []) :
    (assignOne cfg s r).2.conn ≠ none := by
  intro hn
  obtain ⟨_, ⟨h2, h3⟩, h4⟩ := assignOne_unassigned cfg s r hn
  rcases h with h | h | h
  · exact h h4
  · exact h2 h
  · exact h h3

/-- **C07.every_queue_change_triggers_pass** - Tie A (regenerated): after every statement of `connection_pool.py` that changes the
request queue - a request added, a request removed because it failed / was cancelled / its response was closed, a request given its
connection back after `ConnectionNotAvailable` - the next thing the pool does, before any suspension point, is an unconditional
assignment pass.  Together with `pass_complete` (a pass leaves a request waiting only if nothing can serve it): no change of the
queue leaves a serviceable request waiting. -/
theorem every_queue_change_triggers_pass : ∀ r ∈ Gen.poolPassFollows, r.2.2 = true := by decide

/-- non-vacuity: the four sites of the request protocol are in the table -/
theorem queue_change_sites_found : 4 ≤ Gen.poolPassFollows.length := by decide

end Httpcore.C07
